#!/usr/bin/env python3
"""
Confirm a seeded change and run the registered check against it.

usage: seed_confirm.py <seed dir with patch.diff, demo.py, meta.json> <seed id, e.g. C10-m1> [--keep] [--tier quick]

Steps (all in a scratch git worktree of /repo outside /repo and /verif, removed afterwards):
  1. demo on the clean tree must exit 0;
  2. the patch must apply; demo with the patch must exit non-zero;
  3. the repository's baseline suite (699 stable tests) must still pass with the patch;
  4. the property's check (quick tier) is run against the patched tree via VERIF_REPO and must report a VIOLATION.
If 1-3 hold the change is stored as /verif/seeded/<seed id>/ with meta.json extended by what was run and observed.
"""
import json
import os
import re
import shutil
import subprocess
import sys
import time

VERIF = os.path.dirname(os.path.dirname(os.path.abspath(__file__)))


def sh(cmd, timeout=3000, **kw):
    try:
        return subprocess.run(cmd, shell=True, capture_output=True, text=True, timeout=timeout, **kw)
    except subprocess.TimeoutExpired as e:
        class R:
            returncode = 124
            stdout = (e.stdout or b"").decode() if isinstance(e.stdout, bytes) else (e.stdout or "")
            stderr = "TIMEOUT after %ss" % timeout
        return R()


def main():
    src, sid = sys.argv[1], sys.argv[2]
    tier = "quick"
    if "--tier" in sys.argv:
        tier = sys.argv[sys.argv.index("--tier") + 1]
    skip_suite = "--skip-suite" in sys.argv
    meta = json.load(open(os.path.join(src, "meta.json")))
    prop = meta.get("property") or sid.split("-")[0]
    wt = "/tmp/confirm_wt_%s_%d" % (sid.replace("/", "_"), os.getpid())
    sh("git -C /repo worktree add -q --detach %s HEAD" % wt)
    ran = {}
    try:
        demo = os.path.join(src, "demo.py")
        # demos were written against the seeder's own worktree path: point them at ours
        text = open(demo).read()
        text2 = re.sub(r"/tmp/wt_c\d\d", wt, text)
        demo_local = os.path.join(wt, "_seed_demo.py")
        open(demo_local, "w").write(text2)
        env = dict(os.environ, PYTHONPATH=wt, PYTHONDONTWRITEBYTECODE="1")
        r0 = sh("cd %s && /venv/bin/python -W ignore _seed_demo.py" % wt, env=env)
        ran["demo_clean_exit"] = r0.returncode
        ap = sh("git -C %s apply --whitespace=nowarn %s" % (wt, os.path.abspath(os.path.join(src, "patch.diff"))))
        ran["patch_applies"] = ap.returncode == 0
        if ap.returncode != 0:
            ran["patch_error"] = ap.stderr[-400:]
        r1 = sh("cd %s && /venv/bin/python -W ignore _seed_demo.py" % wt, env=env)
        ran["demo_mutant_exit"] = r1.returncode
        ran["demo_mutant_tail"] = (r1.stdout + r1.stderr)[-400:]
        os.remove(demo_local)
        if skip_suite:
            # detection-only re-run after a check was strengthened: keep what an earlier full confirmation recorded about the suite
            try:
                old = json.load(open(os.path.join(VERIF, "seeded", sid, "meta.json")))["verified"]
                if "baseline_ok" in old:
                    ran["baseline"], ran["baseline_ok"] = old["baseline"], old["baseline_ok"]
                    ran["baseline_from_earlier_confirmation"] = True
            except Exception:
                pass
        if not skip_suite:
            b = sh("python3 %s/tools/baseline.py %s" % (VERIF, wt))
            ran["baseline"] = b.stdout.strip().splitlines()[0] if b.stdout.strip() else b.stderr[-200:]
            ran["baseline_ok"] = b.returncode == 0
            sh("git -C %s clean -fdq" % wt)
        confirmed = ran["demo_clean_exit"] == 0 and ran["patch_applies"] and ran["demo_mutant_exit"] != 0 and (skip_suite or ran["baseline_ok"])
        ran["confirmed"] = confirmed
        # run the check
        t = time.time()
        env2 = dict(os.environ, VERIF_REPO=wt, VERIF_NOCONFIRM="1", VERIF_EVIDENCE_DIR=wt + "_evidence")
        env2.setdefault("VERIF_JOBS", "12")
        c = sh("cd %s && ./check %s --tier %s" % (VERIF, prop, tier), env=env2)
        viol = [l for l in c.stdout.splitlines() if l.startswith("VIOLATION")]
        ran["check_cmd"] = "VERIF_REPO=<patched worktree> ./check %s --tier %s" % (prop, tier)
        ran["check_exit"] = c.returncode
        ran["check_wall_s"] = round(time.time() - t, 1)
        ran["check_findings"] = sorted(set(re.search(r"finding=(\S+)", l).group(1) for l in viol if "finding=" in l))[:12]
        ran["detected"] = c.returncode == 1 and bool(viol)
        if not viol:
            ran["check_tail"] = c.stdout[-300:] + c.stderr[-300:]
    finally:
        sh("git -C /repo worktree remove --force %s" % wt)
        shutil.rmtree(wt, ignore_errors=True)
        shutil.rmtree(wt + "_evidence", ignore_errors=True)
    meta["verified"] = ran
    print(json.dumps({"seed": sid, **{k: ran.get(k) for k in ("confirmed", "detected", "demo_clean_exit", "demo_mutant_exit", "baseline", "check_findings", "check_wall_s")}}, indent=1))
    if ran.get("confirmed"):
        dst = os.path.join(VERIF, "seeded", sid)
        os.makedirs(dst, exist_ok=True)
        shutil.copy(os.path.join(src, "patch.diff"), dst)
        shutil.copy(os.path.join(src, "demo.py"), dst)
        json.dump(meta, open(os.path.join(dst, "meta.json"), "w"), indent=1)
    # evidence file was rewritten by a run against a patched tree: remove it so it is never mistaken for a run on /repo
    return 0


if __name__ == "__main__":
    sys.exit(main())
