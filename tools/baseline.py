#!/usr/bin/env python3
"""Runs /repo's test-suite exactly as BASELINE.json does and checks that every stable_pass test passed."""
import json, subprocess, sys, tempfile, os, xml.etree.ElementTree as ET
repo = sys.argv[1] if len(sys.argv) > 1 else "/repo"
base = json.load(open("/root/.vp/BASELINE.json"))
out = tempfile.mktemp(suffix=".xml", prefix="baseline_", dir="/tmp")
cmd = base["cmd"].replace("cd /repo", "cd " + repo).replace("<file>", out)
p = subprocess.run(cmd, shell=True, capture_output=True, text=True)
passed = set()
for tc in ET.parse(out).getroot().iter("testcase"):
    if not any(c.tag in ("failure", "error", "skipped") for c in tc):
        passed.add(tc.get("classname") + "::" + tc.get("name"))
os.remove(out)
missing = [t for t in base["stable_pass"] if t not in passed]
print("stable_pass=%d passed_now=%d missing=%d" % (len(base["stable_pass"]), len(passed), len(missing)))
for t in missing[:30]:
    print("  NOT PASSING:", t)
sys.exit(1 if missing else 0)
