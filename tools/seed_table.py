#!/usr/bin/env python3
"""Prints a markdown table of the seeded changes under /verif/seeded (from their meta.json)."""
import json, os, glob
rows = []
for d in sorted(glob.glob(os.path.join(os.path.dirname(os.path.dirname(os.path.abspath(__file__))), "seeded", "*"))):
    m = json.load(open(os.path.join(d, "meta.json")))
    v = m.get("verified", {})
    f = ", ".join(x.split(":", 1)[1] for x in v.get("check_findings", [])[:3])
    if len(v.get("check_findings", [])) > 3:
        f += ", …"
    rows.append("| %s | %s | %s | %s | %s |" % (os.path.basename(d), (m.get("file") or "").replace("autoarray/", ""), (m.get("needs") or "")[:170].replace("|", "/"),
                                               "yes" if v.get("detected") else "**no**", f.replace("|", "/")))
print("| seed | file | needs, to manifest | caught by ./check | finding classes reported |")
print("|---|---|---|---|---|")
print("\n".join(rows))
