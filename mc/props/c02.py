"""C02 - pixel indices and scaled (y,x) coordinates are consistent inverse maps; shape-based mask constructors
unmask exactly the pixels whose centre (relative to the mask origin) satisfies the documented radial inequality.

Reference model (independent of the library, closed forms of the property statement):

    centre of pixel (i,j):  y = o_y + ((H-1)/2 - i) s_y ,  x = o_x + (j - (W-1)/2) s_x
    extent               :  (o_x - W s_x/2, o_x + W s_x/2, o_y - H s_y/2, o_y + H s_y/2)  == union of pixel squares
    containing pixel     :  i = floor((y_top - y)/s_y), j = floor((x - x_left)/s_x), flattened i*W + j
    continuous pixel crd :  p_y = (y_top - y)/s_y , p_x = (x - x_left)/s_x   (offset from the top-left corner)
    masks                :  centres taken with origin (0,0) (i.e. relative to the mask origin), d = centre - `centre`;
                            circular r = |d|; elliptical: major axis rotated `angle` deg counter-clockwise from +x,
                            r_e = sqrt(x'^2 + (y'/q)^2);  unmasked iff r<=R / Rin<=r<=Rout / r<=R1 or R2<=r<=R3 /
                            r_e<=R / (r_e,in>=Rin and r_e,out<=Rout).
"""
import itertools

import numpy as np

from mc import dom
from mc.core import V

ID = "C02"
ENGINE = "scope"
CHUNK = 8
RULE = (
    "cases = (geo) every shape HxW x pixel-scale menu x origin menu, per case every pixel x 9x9 in-pixel query offsets "
    "through every public conversion route, 5 mask patterns for the pixel-centre grids; every grid conversion must leave "
    "the caller's ndarray / Grid2D bitwise unchanged and return a buffer of its own; per case one float64 ndarray and one "
    "Grid2D (and each masked pixel-centre grid) are REUSED through the sequence pixels->centres->indexes->scaled (twice), "
    "every result against the closed form; per case and per pixel-centre-grid entry point (Grid2D.uniform / from_mask, "
    "derive_grid.all_false, Grid1D.uniform / from_mask, the grid_2d_util / grid_1d_util generators) one request history "
    "request -> caller edits the answer in place -> identical request -> request with other origin / mask -> identical "
    "request, every answer against the closed form and all buffers pairwise disjoint; (form) the same shapes x scales x "
    "origins with the coordinates handed to EVERY public conversion route, both directions, in every dtype / container form: "
    "scaled -> pixels / pixel centres / flattened indexes (geometry_util slim and native-shaped routes on ndarrays, Geometry2D "
    "routes on the Grid2D built around the same buffer, the three scalar routes) for in-pixel float points as float32, big-endian, "
    "Fortran-ordered, non-contiguous, negative-stride, read-only ndarrays, Python lists, native-shaped values, numpy scalars, "
    "and for EVERY whole-number scaled coordinate inside the extent (outside the boundary band) as int64/32/16/8, big-endian, "
    "Fortran / strided integer ndarrays, Python ints, whole floats; pixels -> scaled (geometry_util and Geometry2D grid routes, "
    "both scalar routes) for the whole-number pixel lattice 0..H x 0..W in every signed AND unsigned integer dtype that holds "
    "it, big-endian / Fortran / strided integer ndarrays, lists of Python ints, whole floats, and for continuous in-pixel "
    "coordinates in the float forms; followed by the inverse conversion (pixels -> scaled -> pixels = identity); the integer "
    "Grid2D / ndarray the library itself returns from grid_pixel_centres_2d(_slim)_from fed back into grid_scaled_2d(_slim)_from "
    "(= top-left corner of the pixel) and back; every value against the closed form applied to the exact float64 value of what "
    "was handed in, every input bitwise unchanged, no result aliasing its input; (geo1) every 1D length x scale x "
    "origin, the 1D scalar conversions additionally with the coordinate in every scalar type / container form; (circ/ann/anti/ell/ellann) every shape x scale x requested-centre x mask-origin (x axis-ratio x angle), per "
    "case one radius inside EVERY gap (>1e-6) between consecutive distinct pixel-centre radii plus below-first/above-last, "
    "so every distinct mask the constructor can return for that geometry is produced (pairs / triples for the annular "
    "constructors; bounded subsample where BOUNDS says so). non-trivial = (geo) shape is non-square or scales anisotropic "
    "or origin components unequal, i.e. outside the test-suite's fixture class; (form) the scaled coordinates of the "
    "whole-number pixel lattice are not all whole numbers (a result allocated in the caller's integer dtype is visibly wrong); (masks) the constructor returned at least "
    "one mask that is neither all-masked nor all-unmasked"
)
ASSUMPTIONS = [
    "index conversion is a step function of the in-pixel offset: offsets {0,+-0.25,+-0.45,+-0.49,+-(0.5-1e-6)}^2 "
    "represent all positions inside a pixel outside the excluded boundary band",
    "each constructor's mask is a step function of each radius argument: one radius per gap between consecutive distinct "
    "pixel-centre radii (mid-gap, plus 2e-6 inside each gap end for single-radius constructors and for each radius "
    "argument in isolation) represents all radii outside the excluded band around pixel-centre radii",
    "input purity / buffer independence are decided per call on float64 C-contiguous slim inputs (ndarray and Grid2D with "
    "an all-false or a patterned mask); process-global library state is only observed within one case (the runner forks a "
    "fresh child per chunk), therefore every request history lives inside one case",
    "input forms: the conversions are elementwise, so one in-pixel offset menu {(0,0),(+-0.25,-+0.45),(+-0.45,+-0.25)} per "
    "pixel (float forms) and the whole-number lattices (integer forms) stand for all values of each form; float32 coordinates "
    "are compared with the closed form of the ROUNDED value that was actually handed in, to 8 float32-eps of the intermediate "
    "magnitudes (the library may do its arithmetic in the caller's single precision), and index routes only for points whose "
    "distance to a pixel boundary exceeds 1e-3 px and 4x that rounding bound; float16 is not enumerated (its rounding exceeds a "
    "pixel for the menus used); unsigned integer dtypes are enumerated for pixel coordinates only (scaled coordinates are "
    "signed quantities; the negation -y of an unsigned y wraps in numpy by definition); geometry_util array routes take "
    "ndarrays (their documented argument type), Python lists reach them through Grid2D and through the scalar routes",
    "pixel scales / origins / centres / axis ratios / angles are finite menus (dyadic, non-dyadic, anisotropic, negative, "
    "unequal components, one seeded member each); the seed only instantiates the seeded menu members",
]
BOUNDS = {
    "quick": "geo: shapes 1..6 x 1..6, 7 scale pairs, 6 origins, all pixels x 81 offsets (reused-grid sequences of 8 conversions: "
    "all pixels x 12 offsets; request histories of 5 requests for 8 entry points); form: the same shapes x scales x origins, "
    "all pixels x 5 in-pixel offsets in 6 float forms (+ list, 2 native-shaped), all whole-number scaled points in the extent "
    "(evenly thinned to 48 when more) in 8 integer forms (+ list, native-shaped), pixel lattice 0..H x 0..W in 10 integer forms "
    "incl. uint8/uint16 (+ list, native-shaped), 10 / 12 scalar argument forms per scalar route; geo1: lengths 1..8 x 5 scales x 4 "
    "origins; masks: shapes 2..7 x 2..7, 4 scale pairs, 5 centres, 3 mask origins; circular: all steps (lo/mid/hi per gap); "
    "annular: all ordered pairs of steps; anti-annular: all ordered triples over a 5-step subsample + isolated edge radii, "
    "mask origin rotating; elliptical: all steps for 3 axis ratios x 5 angles, mask origin rotating; elliptical-annular: 5 (q,phi) "
    "inner/outer combinations, product of 6-step subsamples + isolated edge radii, mask origin rotating",
    "thorough": "geo: shapes 1..8 x 1..8, 9 scale pairs, 8 origins (sequences / histories as in quick); form: the same shapes x scales x origins, 13 in-pixel "
    "offsets, 10 float forms (longdouble, float32 in Fortran / strided / big-endian read-only layout), up to 400 whole-number scaled "
    "points, 12-16 integer forms (uint32/uint64, read-only, negative-stride, big-endian int64, whole float32); geo1: lengths 1..12; masks: shapes 2..8 x 2..8, 5 scale "
    "pairs, 6 centres, 3 mask origins; circular/annular: all steps / all ordered pairs; anti-annular: ALL ordered triples "
    "of steps for shapes with <= 20 cells, a 10-step subsample above; elliptical: 4 axis ratios x 7 angles all steps; elliptical-annular: 7 combinations, product of "
    "12-step subsamples",
}

OFFS = [0.0, 0.25, -0.25, 0.45, -0.45, 0.49, -0.49, 0.5 - 1e-6, -(0.5 - 1e-6)]
EDGE = 2e-6  # distance kept from a pixel-centre radius by the edge-sensitive radii
MINGAP = 1e-6


# ----------------------------------------------------------------------------------------------- menus


def _f(x):
    return float(np.round(x, 6))


def scale_menu(seed, tier, kind):
    r = dom.rng(seed, "C02", "scale", kind)
    sd = [_f(r.uniform(0.05, 3.0)), _f(r.uniform(0.05, 3.0))]
    if kind == "geo":
        m = [1.0, [2.0, 2.0], [0.5, 2.0], [3.0, 0.1], [0.3, 0.7], 0.05, sd]
        if tier == "thorough":
            m += [[0.1, 0.1], [1.7, 0.013]]
    else:
        m = [1.0, [0.5, 2.0], [0.3, 0.7], sd]
        if tier == "thorough":
            m += [[3.0, 0.1]]
    return m


def origin_menu(seed, tier, kind):
    r = dom.rng(seed, "C02", "origin", kind)
    sd = [_f(r.uniform(-5, 5)), _f(r.uniform(-5, 5))]
    if kind == "geo":
        m = [[0.0, 0.0], [1.0, 1.0], [0.5, -2.0], [-1.3, 0.7], [7.25, -3.1], sd]
        if tier == "thorough":
            m += [[-1.0, -1.0], [0.0, 40.0]]
    else:
        m = [[0.0, 0.0], [5.0, -3.0], sd]
    return m


def centre_fracs(seed, tier):
    """Requested mask centres in units of the pixel scale (so they stay comparable across scales)."""
    r = dom.rng(seed, "C02", "centre")
    m = [[0.0, 0.0], [0.5, 0.5], [0.3, -0.4], [1.0, -0.5], [_f(r.uniform(-1.5, 1.5)), _f(r.uniform(-1.5, 1.5))]]
    if tier == "thorough":
        m += [[-2.2, 0.15]]
    return m


def pair(s):
    return (float(s), float(s)) if not isinstance(s, (list, tuple)) else (float(s[0]), float(s[1]))


def q_menu(seed, tier):
    m = [1.0, 0.7, 0.35]
    if tier == "thorough":
        m += [_f(dom.rng(seed, "C02", "q").uniform(0.15, 0.95))]
    return m


def angle_menu(seed, tier):
    m = [0.0, 30.0, 90.0, 135.0, 200.0]
    if tier == "thorough":
        m += [-45.0, _f(dom.rng(seed, "C02", "angle").uniform(0, 360))]
    return m


def ellann_combos(seed, tier):
    """(q_in, phi_in, q_out, phi_out)"""
    m = [
        [0.7, 30.0, 0.7, 30.0],
        [0.7, 30.0, 0.35, 135.0],
        [1.0, 0.0, 0.7, 90.0],
        [0.35, 200.0, 1.0, 0.0],
        [0.35, 90.0, 0.7, 0.0],
    ]
    if tier == "thorough":
        r = dom.rng(seed, "C02", "ellann")
        m += [[0.5, 45.0, 0.5, -45.0], [_f(r.uniform(0.2, 0.9)), _f(r.uniform(0, 180)), _f(r.uniform(0.2, 0.9)), _f(r.uniform(0, 180))]]
    return m


# ----------------------------------------------------------------------------------------------- cases


def cases(tier, seed):
    quick = tier == "quick"
    # ---- 1D geometry
    r1 = dom.rng(seed, "C02", "1d")
    s1 = [1.0, 0.7, 0.05, 3.0, _f(r1.uniform(0.05, 3.0))]
    o1 = [0.0, 0.3, -2.5, _f(r1.uniform(-5, 5))]
    for L in range(1, (8 if quick else 12) + 1):
        for s in s1:
            for o in o1:
                yield ["geo1", L, s, o]
    # ---- 2D geometry
    n = 6 if quick else 8
    shapes = sorted(itertools.product(range(1, n + 1), repeat=2), key=lambda hw: (hw[0] * hw[1], hw[0]))
    for (H, W) in shapes:
        for s in scale_menu(seed, tier, "geo"):
            for o in origin_menu(seed, tier, "geo"):
                yield ["geo", H, W, s, o]
    # ---- the same geometries, the coordinates handed to every conversion route in every dtype / container form
    for (H, W) in shapes:
        for s in scale_menu(seed, tier, "geo"):
            for o in origin_menu(seed, tier, "geo"):
                yield ["form", H, W, s, o, "q" if quick else "t"]
    # ---- mask constructors
    n = 7 if quick else 8
    shapes = sorted(itertools.product(range(2, n + 1), repeat=2), key=lambda hw: (hw[0] * hw[1], hw[0]))
    scales = scale_menu(seed, tier, "mask")
    origins = origin_menu(seed, tier, "mask")
    cfr = centre_fracs(seed, tier)
    qs, angs = q_menu(seed, tier), angle_menu(seed, tier)
    combos = ellann_combos(seed, tier)
    k = 0
    for (H, W) in shapes:
        for s in scales:
            sy, sx = pair(s)
            for cf in cfr:
                c = [_f(cf[0] * sy), _f(cf[1] * sx)]
                for o in origins:
                    yield ["circ", H, W, s, c, o]
                    yield ["ann", H, W, s, c, o]
                k += 1
                yield ["anti", H, W, s, c, origins[k % len(origins)], 5 if quick else (999 if H * W <= 20 else 10)]
                for q in qs:
                    for a in angs:
                        k += 1
                        yield ["ell", H, W, s, c, origins[k % len(origins)], q, a]
                for cb in combos:
                    k += 1
                    yield ["ellann", H, W, s, c, origins[k % len(origins)], cb, 6 if quick else 12]
    # ---- elongated frames with strongly anisotropic pixel scales (a shortcut that is only right for square pixels or that confuses
    # the two scales - e.g. a bounding box computed with one scale for both axes - needs many pixels along the FINE axis to show)
    long_shapes = [(3, 17), (17, 3), (5, 21), (9, 25)] if quick else [(3, 17), (17, 3), (5, 21), (21, 5), (9, 25), (25, 9), (4, 30)]
    for (H, W) in long_shapes:
        for s in ([1.0, 0.25], [0.25, 1.0], [0.8, 0.3]):
            for cf in cfr[:2]:
                c = [_f(cf[0] * s[0]), _f(cf[1] * s[1])]
                o = origins[(H + W) % len(origins)]
                yield ["circ", H, W, s, c, o]
                yield ["ann", H, W, s, c, o]
                yield ["ell", H, W, s, c, o, qs[0], angs[1 % len(angs)]]


# ----------------------------------------------------------------------------------------------- reference


def ref_centres(H, W, s, o):
    i = np.arange(H, dtype=float)[:, None]
    j = np.arange(W, dtype=float)[None, :]
    y = o[0] + ((H - 1) / 2.0 - i) * s[0] + 0.0 * j
    x = o[1] + (j - (W - 1) / 2.0) * s[1] + 0.0 * i
    return y, x


def ref_ell_radius(dy, dx, q, angle):
    th = np.radians(angle)
    xp = dx * np.cos(th) + dy * np.sin(th)  # coordinate along the major axis (rotated ccw from +x by angle)
    yp = -dx * np.sin(th) + dy * np.cos(th)
    return np.sqrt(xp ** 2 + (yp / q) ** 2)


class Steps:
    """One representative radius inside every gap of the sorted pixel-centre radii."""

    def __init__(self, r):
        rs = np.sort(np.asarray(r, dtype=float).ravel())
        self.mid, self.lo, self.hi = [], [], []
        self.bottom = None
        if rs[0] > 4 * MINGAP:
            self.bottom = float(rs[0] / 2.0)
            self.mid.append(self.bottom)
        for a, b in zip(rs[:-1], rs[1:]):
            w = b - a
            if w > MINGAP:
                self.mid.append(float((a + b) / 2.0))
                if w > 5 * EDGE:
                    self.lo.append(float(a + EDGE))
                    self.hi.append(float(b - EDGE))
        self.top = float(rs[-1] * 1.5 + 1.0)
        self.lo.append(float(rs[-1] + EDGE))
        if rs[0] > 5 * EDGE:
            self.hi.append(float(rs[0] - EDGE))
        self.mid.append(self.top)
        if self.bottom is None:
            self.bottom = self.mid[0]  # no radius below the first pixel (centre sits on a pixel): use the first step

    def all(self):
        return sorted(set(self.mid + self.lo + self.hi))

    def edges(self):
        return sorted(set(self.lo + self.hi))

    def sub(self, k):
        m = self.mid
        if len(m) <= k:
            return list(m)
        idx = sorted(set(int(round(t)) for t in np.linspace(0, len(m) - 1, k)))
        return [m[t] for t in idx]


def pat_mask(H, W, p):
    i = np.arange(H)[:, None]
    j = np.arange(W)[None, :]
    if p == 0:
        m = np.zeros((H, W), bool)
    elif p == 1:
        m = (i + j) % 2 == 0
    elif p == 2:
        m = (i + j) % 2 == 1
    elif p == 3:
        m = (i * W + j) % 3 == 0
    else:
        m = np.ones((H, W), bool)
        m[1:-1, 1:-1] = False
    return np.array(m, dtype=bool)


def _oc(H, W):
    return "%s%s:%s" % ("e" if H % 2 == 0 else "o", "e" if W % 2 == 0 else "o", "sq" if H == W else "nonsq")


# ----------------------------------------------------------------------------------------------- run


def run_case(case):
    import autoarray as aa

    v = V(ID)
    kind = case[0]
    if kind == "geo1":
        run_geo1(aa, v, *case[1:])
    elif kind == "geo":
        run_geo(aa, v, *case[1:])
    elif kind == "form":
        run_form(aa, v, *case[1:])
    else:
        run_masks(aa, v, *case)
    return v.result()


def _arr(x):
    return np.array(x)


def _chk_yx(v, name, got, want, tol, tag):
    """Compare an (...,2) float array per axis so that y- and x-defects get distinct ids."""
    got = np.asarray(got, dtype=float)
    want = np.asarray(want, dtype=float)
    if got.shape != want.shape:
        v.ok(False, name + ":shape", lambda: "%s shape %s want %s" % (tag, got.shape, want.shape))
        return
    for ax, lab in ((0, "y"), (1, "x")):
        d = np.abs(got[..., ax] - want[..., ax])
        bad = ~(d <= tol)
        v.ok(
            not bad.any(),
            "%s:%s" % (name, lab),
            lambda: "%s %s: first bad flat idx %d got %r want %r (n_bad=%d, tol=%.1e)"
            % (tag, lab, int(np.flatnonzero(bad.ravel())[0]), float(got[..., ax].ravel()[np.flatnonzero(bad.ravel())[0]]),
               float(want[..., ax].ravel()[np.flatnonzero(bad.ravel())[0]]), int(bad.sum()), tol),
        )


# ---- purity of the conversions' inputs / independence of the buffers of the pixel-centre grids


def _raw(x):
    """The ndarray buffer behind an autoarray structure (public ``.array``), or the ndarray itself."""
    for _ in range(8):
        if isinstance(x, np.ndarray):
            return x
        x = x.array
    return np.asarray(x)


class _Pure:
    """Bitwise snapshot of a conversion's input (values, and mask / geometry of a structure). ``check`` blames the function
    that was called since the last check and re-snapshots, so a later conversion is not blamed for an earlier one's write."""

    def __init__(self, obj):
        self.obj = obj
        self.buf = _raw(obj)  # the caller's original buffer (kept: the function might rebind obj._array AND write here)
        self.mask = None if isinstance(obj, np.ndarray) else getattr(obj, "mask", None)
        self._take()

    def _take(self):
        self.snap = np.array(_raw(self.obj))
        self.bsnap = self.snap if _raw(self.obj) is self.buf else np.array(self.buf)
        m = self.mask
        self.msnap = None if m is None else (np.array(_raw(m)), tuple(m.pixel_scales), tuple(m.origin))

    @staticmethod
    def _same(now, snap):
        return now.shape == snap.shape and now.dtype == snap.dtype and now.tobytes() == snap.tobytes()

    def check(self, v, fn, tag):
        now = _raw(self.obj)
        same = self._same(now, self.snap) and self._same(self.buf, self.bsnap)

        def msg():
            a, b = (now, self.snap) if not self._same(now, self.snap) else (self.buf, self.bsnap)
            if a.shape != b.shape or a.dtype != b.dtype:
                return "%s input was %s %s, is now %s %s" % (tag, b.dtype, b.shape, a.dtype, a.shape)
            d = np.flatnonzero(~((a.ravel() == b.ravel()) | ((a.ravel() != a.ravel()) & (b.ravel() != b.ravel()))))
            k = int(d[0]) if len(d) else 0
            return "%s the caller's %s was overwritten: flat element %d was %r is now %r (%d elements differ)" % (
                tag, type(self.obj).__name__, k, b.ravel()[k].tolist(), a.ravel()[k].tolist(), len(d))

        v.ok(same, fn + ":input-mutated", msg)
        msame = True
        if self.mask is not None:
            m = getattr(self.obj, "mask", None)
            msame = m is not None and self._same(np.array(_raw(m)), self.msnap[0]) and tuple(m.pixel_scales) == self.msnap[1] \
                and tuple(m.origin) == self.msnap[2]
            v.ok(msame, fn + ":input-mask-mutated", tag)
        if not (same and msame):
            self.mask = getattr(self.obj, "mask", None) if self.mask is not None else None
            self._take()


def _cmp_yx(got, want, tol):
    """-> (ok, class suffix, message); per-axis suffix as in _chk_yx so that one defect keeps one family of ids."""
    got = np.asarray(_raw(got), dtype=float)
    if got.shape != want.shape:
        return False, ":shape", "shape %s want %s" % (got.shape, want.shape)
    for ax, lab in ((0, "y"), (1, "x")):
        bad = ~(np.abs(got[..., ax] - want[..., ax]) <= tol)
        if bad.any():
            k = int(np.flatnonzero(bad.ravel())[0])
            return False, ":" + lab, "%s: first bad flat idx %d got %r want %r (n_bad=%d, tol=%.1e)" % (
                lab, k, float(got[..., ax].ravel()[k]), float(want[..., ax].ravel()[k]), int(bad.sum()), tol)
    return True, "", ""


def _cmp_int_yx(got, want):
    got = np.asarray(_raw(got))
    if got.shape != want.shape:
        return False, ":shape", "shape %s want %s" % (got.shape, want.shape)
    for ax, lab in ((0, "y"), (1, "x")):
        bad = got[..., ax] != want[..., ax]
        if bad.any():
            k = int(np.flatnonzero(bad.ravel())[0])
            return False, ":" + lab, "%s: first bad flat idx %d got %r want %r (n_bad=%d)" % (
                lab, k, got[..., ax].ravel()[k].tolist(), want[..., ax].ravel()[k].tolist(), int(bad.sum()))
    return True, "", ""


def _cmp_int(got, want):
    got = np.asarray(_raw(got))
    if got.shape != want.shape:
        return False, "", "shape %s want %s" % (got.shape, want.shape)
    bad = np.flatnonzero(got != want)
    if len(bad):
        return False, "", "first bad idx %d got %r want %r (n_bad=%d)" % (int(bad[0]), got[bad[0]].tolist(), want[bad[0]].tolist(), len(bad))
    return True, "", ""


def _sequence(v, steps, order, tag):
    """Run the conversions named in ``order`` on the SAME input objects. steps[key] = (finding name, call(input), shared input,
    fresh-input factory, comparator). Each result is compared with the closed form; a result that is wrong only on the reused
    object (right on a fresh copy of the pristine values) gets ':after-earlier-conversion-of-same-grid', one that is wrong on
    the fresh copy as well keeps the function's own id. After each call the input must be bitwise unchanged and the result
    must own its buffer."""
    pures = {}
    for n, key in enumerate(order):
        name, call, holder, fresh, cmp = steps[key]
        pure = pures.get(id(holder))
        if pure is None:
            pure = pures[id(holder)] = _Pure(holder)
        where = "%s [call %d (%s) of the sequence %s on one reused %s]" % (tag, n + 1, key, "".join(order), type(holder).__name__)
        alias = False
        try:
            r = call(holder)
            ok, suffix, msg = cmp(r)
            alias = bool(np.shares_memory(_raw(r), _raw(holder)))
        except Exception as e:  # noqa: BLE001 - a corrupted input may make the conversion raise; classified below
            ok, suffix, msg = False, "", "raised %r" % (e,)
        if ok:
            v.ok(True, name)
        else:
            ok2, suffix2, msg2 = cmp(call(fresh()))
            if ok2:
                v.ok(False, name + ":after-earlier-conversion-of-same-grid", "%s %s" % (where, msg))
            else:
                v.ok(False, name + suffix2, "%s (fresh input) %s" % (tag, msg2))
        v.ok(not alias, name + ":result-aliases-input", where)
        pure.check(v, name, where)


def _history(v, name, tag, req, want, tol, req_alt=None, want_alt=None, tol_alt=None):
    """request -> check -> caller edits the grid it was handed IN PLACE -> identical request -> check + buffers disjoint
    (-> request with different parameters -> check -> original request again -> check)."""

    def good(g, w, t):
        a = np.asarray(_raw(g), dtype=float)
        return a.shape == w.shape and bool(np.all(np.abs(a - w) <= t))

    def show(g, w):
        a = np.asarray(_raw(g), dtype=float)
        if a.shape != w.shape:
            return "shape %s want %s" % (a.shape, w.shape)
        k = int(np.argmax(np.abs(a - w).ravel()))
        return "flat element %d got %r want %r" % (k, float(a.ravel()[k]), float(w.ravel()[k]))

    g1 = req()  # (every entry point has already answered this request once in this case: the fresh checks of the caller)
    if not v.ok(good(g1, want, tol), name + ":repeat-request", lambda: "%s %s" % (tag, show(g1, want))):
        return
    r1 = _raw(g1)
    saved = r1.copy()
    # in-place edits through the structure's own __setitem__ and on the raw buffer
    if r1.ndim == 1:
        g1[0] = 123.0
        r1[-1] -= 3.0
    elif r1.ndim == 2:
        g1[0, 0] = 123.0
        g1[:, 1] = g1[:, 1] + 5.0
        r1[-1, 0] -= 3.0
    else:
        g1[0, 0, 0] = 123.0
        g1[..., 1] = g1[..., 1] + 5.0
        r1[-1, -1, 0] -= 3.0
    e1 = _raw(g1)
    try:
        g2 = req()
        ok2 = v.ok(good(g2, want, tol), name + ":second-request-after-in-place-edit",
                   lambda: "%s the same request answered after the caller edited the first answer in place: %s" % (tag, show(g2, want)))
        v.ok(g2 is not g1 and not np.shares_memory(e1, _raw(g2)), name + ":shared-buffer",
             lambda: "%s two identical requests returned %s" % (tag, "the same object" if g2 is g1 else "grids sharing one ndarray buffer"))
        if req_alt is not None:
            ga = req_alt()
            v.ok(good(ga, want_alt, tol_alt), name + ":request-after-different-parameters",
                 lambda: "%s request with other parameters after the first: %s" % (tag, show(ga, want_alt)))
            v.ok(not np.shares_memory(e1, _raw(ga)) and not np.shares_memory(_raw(g2), _raw(ga)), name + ":shared-buffer",
                 lambda: "%s a request with other parameters shares its buffer with an earlier answer" % tag)
            g3 = req()
            # (if the second answer already showed the caller's edit, a wrong third answer is the same defect)
            v.ok(good(g3, want, tol), name + (":request-after-different-parameters" if ok2 else ":second-request-after-in-place-edit"),
                 lambda: "%s original request repeated after a request with other parameters: %s" % (tag, show(g3, want)))
            v.ok(not np.shares_memory(e1, _raw(g3)) and not np.shares_memory(_raw(g2), _raw(g3)) and not np.shares_memory(_raw(ga), _raw(g3)),
                 name + ":shared-buffer", lambda: "%s third identical request shares its buffer with an earlier answer" % tag)
    finally:
        # undo the edit: if the buffer is shared with library-side state, the next entry point's history starts from a clean
        # state and speaks for itself (each entry point is blamed only for what ITS answers show)
        e1[...] = saved
        if e1 is not r1:
            r1[...] = saved


def run_geo1(aa, v, L, s, o):
    gu = aa.util.geometry
    v.outcome = "geo1:%s" % ("e" if L % 2 == 0 else "o")
    v.nontrivial = (o != 0.0) or (s != 1.0)
    tol = 1e-12 * (abs(o) + L * s)
    xc = o + (np.arange(L) - (L - 1) / 2.0) * s
    tag = "L=%d s=%r o=%r" % (L, s, o)
    for p in range(3):
        if p == 0:
            m = np.zeros(L, bool)
        else:
            m = (np.arange(L) % 2) == (p - 1)
        if m.all():
            continue
        mask = aa.Mask1D(mask=m.copy(), pixel_scales=(s,), origin=(o,))
        ext = mask.geometry.extent
        want = (o - L * s / 2.0, o + L * s / 2.0)
        v.ok(len(ext) == 2 and abs(ext[0] - want[0]) <= tol and abs(ext[1] - want[1]) <= tol, "Mask1D.geometry.extent",
             lambda: "%s extent %r want %r" % (tag, ext, want))
        # extent is the union of the pixel segments
        v.ok(abs(ext[0] - (xc[0] - s / 2)) <= tol and abs(ext[1] - (xc[-1] + s / 2)) <= tol, "Mask1D.geometry.extent",
             lambda: "%s extent %r vs pixel segments" % (tag, ext))
        g = aa.Grid1D.from_mask(mask=mask)
        gs = _arr(g.slim)
        v.ok(gs.shape == xc[~m].shape and bool(np.all(np.abs(gs - xc[~m]) <= tol)), "Grid1D.from_mask",
             lambda: "%s pattern %d slim %s want %s" % (tag, p, gs.tolist(), xc[~m].tolist()))
        gn = _arr(g.native)
        wn = np.where(m, 0.0, xc)
        v.ok(gn.shape == wn.shape and bool(np.all(np.abs(gn - wn) <= tol)), "Grid1D.from_mask:native",
             lambda: "%s pattern %d native %s want %s" % (tag, p, gn.tolist(), wn.tolist()))
    u = aa.Grid1D.uniform(shape_native=(L,), pixel_scales=(s,), origin=(o,))
    us = _arr(u.slim)
    v.ok(us.shape == xc.shape and bool(np.all(np.abs(us - xc) <= tol)), "Grid1D.uniform", lambda: "%s %s want %s" % (tag, us.tolist(), xc.tolist()))
    v.ok(abs(u.mask.origin[0] - o) <= tol and abs(u.mask.pixel_scales[0] - s) <= 0, "Grid1D.uniform:mask-geometry",
         lambda: "%s origin %r scales %r" % (tag, u.mask.origin, u.mask.pixel_scales))
    # ---- request histories: the grids handed out must not share buffers (a caller's in-place edit must not reach later requests)
    g1u = aa.util.grid_1d
    o_alt = o + 1.5
    xc_alt = o_alt + (np.arange(L) - (L - 1) / 2.0) * s
    tol_alt = tol + 2e-12
    m = (np.arange(L) % 2) == 1  # pixel 0 is always unmasked
    m_alt = np.zeros(L, bool)
    _history(v, "Grid1D.uniform", tag,
             lambda: aa.Grid1D.uniform(shape_native=(L,), pixel_scales=(s,), origin=(o,)), xc, tol,
             lambda: aa.Grid1D.uniform(shape_native=(L,), pixel_scales=(s,), origin=(o_alt,)), xc_alt, tol_alt)
    mask_h = aa.Mask1D(mask=m.copy(), pixel_scales=(s,), origin=(o,))
    _history(v, "Grid1D.from_mask", tag,
             lambda: aa.Grid1D.from_mask(mask=mask_h), xc[~m], tol,
             lambda: aa.Grid1D.from_mask(mask=aa.Mask1D(mask=m_alt.copy(), pixel_scales=(s,), origin=(o_alt,))), xc_alt[~m_alt], tol_alt)
    _history(v, "grid_1d_util.grid_1d_slim_via_shape_slim_from", tag,
             lambda: g1u.grid_1d_slim_via_shape_slim_from(shape_slim=(L,), pixel_scales=(s,), origin=(o,)), xc, tol,
             lambda: g1u.grid_1d_slim_via_shape_slim_from(shape_slim=(L,), pixel_scales=(s,), origin=(o_alt,)), xc_alt, tol_alt)
    _history(v, "grid_1d_util.grid_1d_slim_via_mask_from", tag,
             lambda: g1u.grid_1d_slim_via_mask_from(mask_1d=m.copy(), pixel_scales=(s,), origin=(o,)), xc[~m], tol,
             lambda: g1u.grid_1d_slim_via_mask_from(mask_1d=m_alt.copy(), pixel_scales=(s,), origin=(o_alt,)), xc_alt[~m_alt], tol_alt)
    # util-level scalar conversions (anchored in geometry_util)
    for k in range(L):
        sc = gu.scaled_coordinates_1d_from(pixel_coordinates_1d=(k,), shape_slim=(L,), pixel_scales=(s,), origins=(o,))
        v.ok(abs(sc[0] - xc[k]) <= tol, "scaled_coordinates_1d_from", lambda: "%s k=%d got %r want %r" % (tag, k, sc, xc[k]))
        for f in OFFS:
            qx = xc[k] + f * s
            pc = gu.pixel_coordinates_1d_from(scaled_coordinates_1d=(qx,), shape_slim=(L,), pixel_scales=(s,), origins=(o,))
            v.ok(int(pc[0]) == k and pc[0] == k, "pixel_coordinates_1d_from", lambda: "%s x=%r got %r want %d" % (tag, qx, pc, k))
    _geo1_forms(gu, v, L, s, o, xc, tol, tag)


# ---- the coordinates handed to the conversions in every dtype / container form ------------------------------------------
#
# The closed forms of the property speak about coordinate VALUES; how the caller happens to store them (integer dtype - as in
# the library's own docstring examples and as returned by Geometry2D.grid_pixel_centres_2d_from -, float32, big-endian,
# Fortran-ordered / non-contiguous / read-only buffers, Python lists) must not change any converted value. Expected values are
# always the closed form applied to the exact float64 value of what was handed in.

EPS32 = float(np.finfo(np.float32).eps)
BAND = 1e-3  # whole-number / float32 query coordinates keep this distance (in pixels) from every pixel boundary


def _strided(a):
    """``a`` as a non-contiguous view: every other element (along every axis) of a larger buffer."""
    big = np.zeros([2 * d for d in a.shape], dtype=a.dtype)
    view = big[tuple(slice(None, None, 2) for _ in a.shape)]
    view[...] = a
    return view


def _negstride(a):
    return a[::-1].copy()[::-1]


def _readonly(a):
    b = a.copy()
    b.flags.writeable = False
    return b


def float_forms(a, thorough):
    """(label, finding class, ndarray): the float64 C-contiguous ``a`` in the other float dtypes / memory layouts."""
    out = [
        ("a float32 ndarray", "float32", a.astype(np.float32)),
        ("a Fortran-ordered float64 ndarray", "layout", np.asfortranarray(a)),
        ("a non-contiguous float64 view (every other element of a larger buffer)", "layout", _strided(a)),
        ("a negative-stride float64 view", "layout", _negstride(a)),
        ("a read-only float64 ndarray", "read-only", _readonly(a)),
        ("a big-endian float64 ndarray", "byte-order", a.astype(">f8")),
    ]
    if thorough:
        out += [
            ("a longdouble ndarray", "longdouble", a.astype(np.longdouble)),
            ("a Fortran-ordered float32 ndarray", "float32", np.asfortranarray(a.astype(np.float32))),
            ("a non-contiguous float32 view", "float32", _strided(a.astype(np.float32))),
            ("a read-only big-endian float32 ndarray", "float32", _readonly(a.astype(">f4"))),
        ]
    return out


def int_forms(a, thorough, unsigned):
    """(label, finding class, ndarray): the int64 array ``a`` of whole numbers in every integer dtype that represents it (unsigned
    dtypes only where ``unsigned`` - pixel coordinates; scaled coordinates are signed quantities), other byte order / layouts,
    and as floats holding the same whole numbers."""
    names = ["int64", "int32", "int16", "int8"] + (["uint8", "uint16"] if unsigned else [])
    if thorough and unsigned:
        names += ["uint32", "uint64"]
    out = []
    for n in names:
        if a.size == 0 or (int(a.min()) >= np.iinfo(n).min and int(a.max()) <= np.iinfo(n).max):
            out.append(("an %s ndarray" % n, "uint-dtype" if n[0] == "u" else "int-dtype", a.astype(n)))
    out += [
        ("a big-endian int32 ndarray", "int-dtype", a.astype(">i4")),
        ("a Fortran-ordered int64 ndarray", "int-dtype", np.asfortranarray(a)),
        ("a non-contiguous int32 view (every other element of a larger buffer)", "int-dtype", _strided(a.astype(np.int32))),
        ("a float64 ndarray holding the whole numbers", "whole-float", a.astype(np.float64)),
    ]
    if thorough:
        out += [
            ("a read-only int64 ndarray", "int-dtype", _readonly(a)),
            ("a negative-stride int16 view", "int-dtype", _negstride(a.astype(np.int16))),
            ("a float32 ndarray holding the whole numbers", "float32", a.astype(np.float32)),
            ("a big-endian int64 ndarray", "int-dtype", a.astype(">i8")),
        ]
    return out


def _is32(a):
    return isinstance(a, np.ndarray) and a.dtype.kind == "f" and a.dtype.itemsize == 4


def _factor(n):
    """Carrier shape (n1, n2), n1*n2 == n, for a slim grid of n unrelated query points."""
    for k in (2, 3, 5, 7):
        if n % k == 0 and n > k:
            return n // k, k
    return n, 1


def _rows(cmp, r, want, keep, flat=False):
    g = np.asarray(_raw(r))
    if flat and g.ndim == 3 and g.shape[0] * g.shape[1] == want.shape[0]:
        g = g.reshape((-1,) + g.shape[2:])
    if g.shape != want.shape:
        return False, ":shape", "shape %s want %s" % (g.shape, want.shape)
    ok, suffix, msg = cmp(g[keep], want[keep])
    if not ok:
        msg += " [indices count the %d of %d query points outside the boundary band]" % (int(keep.sum()), len(keep))
    return ok, suffix, msg


def _flat_yx(r, want, tol):
    g = np.asarray(_raw(r), dtype=float)
    if g.ndim == 3 and g.shape[0] * g.shape[1] == want.shape[0]:
        g = g.reshape(-1, 2)
    return _cmp_yx(g, want, tol)


def _form_call(v, name, cls, label, tag, call, arg, cmp):
    """One conversion of one input form: value against the closed form, input bitwise unchanged, result owns its buffer."""
    fn = "%s:input-form:%s" % (name, cls)
    where = "%s coordinates given as %s" % (tag, label)
    pure = _Pure(arg) if not isinstance(arg, (list, tuple)) else None
    try:
        r = call(arg)
    except Exception as e:  # noqa: BLE001
        v.ok(False, fn + ":raised", "%s: raised %r" % (where, e))
        return None
    ok, suffix, msg = cmp(r)
    v.ok(ok, fn + suffix, lambda: "%s: %s" % (where, msg))
    if pure is not None:
        v.ok(not np.shares_memory(_raw(r), pure.buf), fn + ":result-aliases-input", where)
        pure.check(v, fn, where)
    return r if ok else None


def run_form(aa, v, H, W, s_in, o_in, depth):
    gu = aa.util.geometry
    thorough = depth == "t"
    s = pair(s_in)
    o = (float(o_in[0]), float(o_in[1]))
    ps_arg = s if isinstance(s_in, (list, tuple)) else float(s_in)
    tag = "shape=(%d,%d) scales=%r origin=%r" % (H, W, s_in, o)
    mag = abs(o[0]) + abs(o[1]) + H * s[0] + W * s[1]
    tol = 1e-12 * mag
    tolp = 1e-12 * (H + W + 1 + abs(o[0] / s[0]) + abs(o[1] / s[1]))
    tol32 = tol + 8 * EPS32 * mag  # float32 coordinates: the library may legitimately do its arithmetic in single precision
    y_top = o[0] + H * s[0] / 2.0
    y_bot = o[0] - H * s[0] / 2.0
    x_left = o[1] - W * s[1] / 2.0
    x_right = o[1] + W * s[1] / 2.0
    geom = aa.Mask2D(mask=np.zeros((H, W), bool), pixel_scales=ps_arg, origin=o).geometry
    ukw = dict(shape_native=(H, W), pixel_scales=s, origin=o)

    def ref_P(A):  # scaled -> continuous pixel coordinates (offset from the top-left corner of the frame)
        return np.stack([(y_top - A[..., 0]) / s[0], (A[..., 1] - x_left) / s[1]], axis=-1)

    def ref_S(P):  # continuous pixel coordinates -> scaled
        return np.stack([y_top - P[..., 0] * s[0], x_left + P[..., 1] * s[1]], axis=-1)

    def px_err32(A64):  # bound (pixels) on the rounding of single-precision arithmetic -y/s + c + 0.5
        return 8 * EPS32 * (np.abs(A64[..., 0] / s[0]) + np.abs(A64[..., 1] / s[1]) + abs(o[0] / s[0]) + abs(o[1] / s[1]) + H + W + 1.0)

    def refs(A64, f32):
        """Closed forms for the scaled coordinates A64 (N,2): continuous pixels, containing pixel, flattened index, the rows far
        enough from every pixel boundary for the index to be decided, tolerance of the continuous pixel coordinates."""
        Pr = ref_P(A64)
        Cr = np.floor(Pr).astype(int)
        fr = Pr - Cr
        margin = np.minimum(fr, 1.0 - fr).min(axis=-1)
        inside = (Pr[:, 0] > 0) & (Pr[:, 0] < H) & (Pr[:, 1] > 0) & (Pr[:, 1] < W)
        e = px_err32(A64) if f32 else np.zeros(len(A64))
        keep = inside & (margin > np.maximum(BAND, 4 * e))
        return Pr, Cr, Cr[:, 0] * W + Cr[:, 1], keep, tolp + (float(e.max()) if len(e) else 0.0)

    carriers = {}

    def carrier(n):
        if n not in carriers:
            carriers[n] = aa.Mask2D.all_false(shape_native=_factor(n), pixel_scales=1.0)
        return carriers[n]

    def as_grid(a, cls, label):
        """The Grid2D a caller builds around the coordinates ``a`` (None and a finding if that already fails)."""
        try:
            if isinstance(a, list):
                n = len(a)
                return aa.Grid2D.no_mask(values=a, shape_native=_factor(n), pixel_scales=1.0)
            if a.ndim == 3:
                return aa.Grid2D.no_mask(values=a, pixel_scales=1.0)
            return aa.Grid2D(values=a, mask=carrier(a.shape[0]))
        except Exception as e:  # noqa: BLE001
            v.ok(False, "Grid2D-of-coordinates:input-form:%s:raised" % cls, "%s Grid2D of coordinates given as %s: raised %r" % (tag, label, e))
            return None

    # ------------------------------------------------------------------------------------------------ the point sets
    yc, xc = ref_centres(H, W, s, o)
    offs = [(0.0, 0.0), (0.25, -0.45), (-0.25, 0.45), (0.45, 0.25), (-0.45, -0.25)]
    if thorough:
        offs += [(0.45, 0.45), (-0.45, -0.45), (0.45, -0.45), (-0.45, 0.45), (0.0, 0.45), (0.45, 0.0), (0.0, -0.45), (-0.45, 0.0)]
    fy = np.array([f[0] for f in offs])
    fx = np.array([f[1] for f in offs])
    Qf = np.stack([(yc[:, :, None] + fy[None, None, :] * s[0]).ravel(), (xc[:, :, None] + fx[None, None, :] * s[1]).ravel()], axis=-1)
    Qf = np.ascontiguousarray(Qf)
    # every whole-number scaled coordinate inside the extent that is not within BAND pixels of a pixel boundary
    ys = np.arange(int(np.ceil(y_bot)), int(np.floor(y_top)) + 1)
    xs = np.arange(int(np.ceil(x_left)), int(np.floor(x_right)) + 1)
    Qi = np.array(list(itertools.product(ys.tolist(), xs.tolist())), dtype=np.int64).reshape(-1, 2)
    if len(Qi):
        Qi = Qi[refs(Qi.astype(float), False)[3]]
    cap = 400 if thorough else 48
    if len(Qi) > cap:
        Qi = Qi[np.unique(np.round(np.linspace(0, len(Qi) - 1, cap)).astype(int))]
    Qi = np.ascontiguousarray(Qi)
    # pixel coordinates: the whole-number lattice 0..H x 0..W (pixel corners, frame edges included) and the continuous pixel
    # coordinates of the float query points
    Pi = np.array(list(itertools.product(range(H + 1), range(W + 1))), dtype=np.int64)
    Pf = np.ascontiguousarray(ref_P(Qf))

    Si = ref_S(Pi.astype(float))
    v.nontrivial = bool(np.any(np.abs(Si - np.round(Si)) > 1e-9))
    v.outcome = "form:%s:whole-number-scaled-points~%s" % (_oc(H, W), "0" if len(Qi) == 0 else ("1-9" if len(Qi) < 10 else "10+"))

    # ------------------------------------------------------------------------------------------------ scaled -> pixels
    def scaled_routes(what, base, forms, lists):
        n = len(base)
        if n == 0:
            return
        n1, n2 = _factor(n)
        # util level, slim (N,2) ndarrays
        for label, cls, a in forms(base):
            Pr, Cr, Ir, keep, tp = refs(np.asarray(a, dtype=np.float64), _is32(a))
            assert keep.any(), "harness: no query point outside the boundary band"
            t = "%s %s" % (tag, what)
            _form_call(v, "geometry_util.grid_pixels_2d_slim_from", cls, label, t,
                       lambda x: gu.grid_pixels_2d_slim_from(grid_scaled_2d_slim=x, **ukw), a, lambda r: _cmp_yx(r, Pr, tp))
            _form_call(v, "geometry_util.grid_pixel_centres_2d_slim_from", cls, label, t,
                       lambda x: gu.grid_pixel_centres_2d_slim_from(grid_scaled_2d_slim=x, **ukw), a, lambda r: _rows(_cmp_int_yx, r, Cr, keep))
            _form_call(v, "geometry_util.grid_pixel_indexes_2d_slim_from", cls, label, t,
                       lambda x: gu.grid_pixel_indexes_2d_slim_from(grid_scaled_2d_slim=x, **ukw), a, lambda r: _rows(_cmp_int, r, Ir, keep))
            # geometry level: the Grid2D a caller builds around the same buffer
            g = as_grid(a, cls, label)
            if g is not None:
                _form_call(v, "grid_pixels_2d_from", cls, "a Grid2D of " + label, t,
                           lambda x: geom.grid_pixels_2d_from(grid_scaled_2d=x).slim, g, lambda r: _cmp_yx(r, Pr, tp))
                _form_call(v, "grid_pixel_centres_2d_from", cls, "a Grid2D of " + label, t,
                           lambda x: geom.grid_pixel_centres_2d_from(grid_scaled_2d=x).slim, g, lambda r: _rows(_cmp_int_yx, r, Cr, keep))
                _form_call(v, "grid_pixel_indexes_2d_from", cls, "a Grid2D of " + label, t,
                           lambda x: geom.grid_pixel_indexes_2d_from(grid_scaled_2d=x).slim, g, lambda r: _rows(_cmp_int, r, Ir, keep))
        # util level, native-shaped (n1,n2,2) ndarrays
        for label, cls, a3 in forms(np.ascontiguousarray(base.reshape(n1, n2, 2))):
            Pr, Cr, Ir, keep, tp = refs(np.asarray(a3, dtype=np.float64).reshape(-1, 2), _is32(a3))
            _form_call(v, "geometry_util.grid_pixel_centres_2d_from", cls, label + " of native shape (%d,%d,2)" % (n1, n2), "%s %s" % (tag, what),
                       lambda x: gu.grid_pixel_centres_2d_from(grid_scaled_2d=x, **ukw), a3, lambda r: _rows(_cmp_int_yx, r, Cr, keep, flat=True))
        # geometry level: Grid2D built from Python lists / from native-shaped values
        for label, cls, vals in lists(base, n1, n2):
            Pr, Cr, Ir, keep, tp = refs(np.asarray(vals, dtype=np.float64).reshape(-1, 2), _is32(vals))
            assert keep.any(), "harness: no query point outside the boundary band"
            g = as_grid(vals, cls, label)
            if g is None:
                continue
            t = "%s %s" % (tag, what)
            _form_call(v, "grid_pixels_2d_from", cls, "a Grid2D built from " + label, t,
                       lambda x: geom.grid_pixels_2d_from(grid_scaled_2d=x).slim, g, lambda r: _cmp_yx(r, Pr, tp))
            _form_call(v, "grid_pixel_centres_2d_from", cls, "a Grid2D built from " + label, t,
                       lambda x: geom.grid_pixel_centres_2d_from(grid_scaled_2d=x).slim, g, lambda r: _rows(_cmp_int_yx, r, Cr, keep))
            _form_call(v, "grid_pixel_indexes_2d_from", cls, "a Grid2D built from " + label, t,
                       lambda x: geom.grid_pixel_indexes_2d_from(grid_scaled_2d=x).slim, g, lambda r: _rows(_cmp_int, r, Ir, keep))

    def list_forms(base, n1, n2):
        whole = base.dtype.kind == "i"
        out = [("a list of [y, x] lists of Python %s" % ("ints" if whole else "floats"), "python-list", base.tolist())]
        out.append(("native-shaped (%d,%d,2) %s values" % (n1, n2, base.dtype), "native-shaped", np.ascontiguousarray(base.reshape(n1, n2, 2))))
        if not whole:
            out.append(("native-shaped (%d,%d,2) float32 values" % (n1, n2), "native-shaped", base.reshape(n1, n2, 2).astype(np.float32)))
        return out

    scaled_routes("(scaled query points inside the pixels)", Qf, lambda b: float_forms(b, thorough), list_forms)
    scaled_routes("(whole-number scaled query points)", Qi, lambda b: int_forms(b, thorough, False), list_forms)

    # ------------------------------------------------------------------------------------------------ pixels -> scaled
    def pixel_routes(what, base, forms, lists):
        n = len(base)
        n1, n2 = _factor(n)
        t = "%s %s" % (tag, what)

        def both(label, cls, a, g, A64, f32):
            Sr = ref_S(A64)
            ts, tpx = (tol32, tolp + float(px_err32(Sr).max())) if f32 else (tol, tolp)
            if a is not None:
                _form_call(v, "geometry_util.grid_scaled_2d_slim_from", cls, label, t,
                           lambda x: gu.grid_scaled_2d_slim_from(grid_pixels_2d_slim=x, **ukw), a, lambda r: _cmp_yx(r, Sr, ts))
            if g is not None:
                sg = []
                ok = _form_call(v, "grid_scaled_2d_from", cls, "a Grid2D of " + label, t,
                                lambda x: sg.append(geom.grid_scaled_2d_from(grid_pixels_2d=x)) or sg[-1].slim, g, lambda r: _cmp_yx(r, Sr, ts))
                if ok is not None:
                    # the continuous conversion and its inverse compose to the identity
                    back = geom.grid_pixels_2d_from(grid_scaled_2d=sg[-1]).slim
                    ok2, suffix, msg = _cmp_yx(back, A64, tpx)
                    v.ok(ok2, "grid_pixels_2d_from(grid_scaled_2d_from):input-form:%s%s" % (cls, suffix),
                         lambda: "%s coordinates given as a Grid2D of %s: pixels -> scaled -> pixels %s" % (t, label, msg))

        for label, cls, a in forms(base):
            both(label, cls, a, as_grid(a, cls, label), np.asarray(a, dtype=np.float64), _is32(a))
        for label, cls, vals in lists(base, n1, n2):
            f32 = _is32(vals)
            A64 = np.asarray(vals, dtype=np.float64).reshape(-1, 2)
            both(label, cls, None, as_grid(vals, cls, label), A64, f32)

    pixel_routes("(whole-number pixel coordinates 0..H x 0..W)", Pi, lambda b: int_forms(b, thorough, True), list_forms)
    pixel_routes("(continuous pixel coordinates inside the pixels)", Pf, lambda b: float_forms(b, thorough), list_forms)

    # ---- the integer grids the library itself hands out, fed back into the inverse conversion: pixel (i,j) -> its top-left corner
    t = "%s (pixel grid returned by the library fed back)" % tag
    Pr, Cr, Ir, keep, tp = refs(Qf, False)
    corners = ref_S(Cr.astype(float))
    qg = aa.Grid2D(values=Qf.copy(), mask=carrier(len(Qf)))
    pcg = geom.grid_pixel_centres_2d_from(grid_scaled_2d=qg)
    if _cmp_int_yx(pcg.slim, Cr)[0]:  # (a wrong pixel grid is grid_pixel_centres_2d_from's own finding, reported by the geo cases)
        sg = []
        ok = _form_call(v, "grid_scaled_2d_from", "fed-back-pixel-centres", "the %s Grid2D returned by Geometry2D.grid_pixel_centres_2d_from" % _raw(pcg).dtype, t,
                        lambda x: sg.append(geom.grid_scaled_2d_from(grid_pixels_2d=x)) or sg[-1].slim, pcg, lambda r: _cmp_yx(r, corners, tol))
        if ok is not None:
            back = geom.grid_pixels_2d_from(grid_scaled_2d=sg[-1]).slim
            ok2, suffix, msg = _cmp_yx(back, Cr.astype(float), tolp)
            v.ok(ok2, "grid_pixels_2d_from(grid_scaled_2d_from):input-form:fed-back-pixel-centres" + suffix,
                 lambda: "%s: pixels -> scaled -> pixels %s" % (t, msg))
    pcu = gu.grid_pixel_centres_2d_slim_from(grid_scaled_2d_slim=Qf.copy(), **ukw)
    if _cmp_int_yx(pcu, Cr)[0]:
        _form_call(v, "geometry_util.grid_scaled_2d_slim_from", "fed-back-pixel-centres",
                   "the %s ndarray returned by geometry_util.grid_pixel_centres_2d_slim_from" % pcu.dtype, t,
                   lambda x: gu.grid_scaled_2d_slim_from(grid_pixels_2d_slim=x, **ukw), pcu, lambda r: _cmp_yx(r, corners, tol))
        pci = pcu.astype("int")
        _form_call(v, "geometry_util.grid_scaled_2d_slim_from", "fed-back-pixel-centres",
                   "the ndarray returned by geometry_util.grid_pixel_centres_2d_slim_from cast with .astype('int')", t,
                   lambda x: gu.grid_scaled_2d_slim_from(grid_pixels_2d_slim=x, **ukw), pci, lambda r: _cmp_yx(r, corners, tol))

    # ------------------------------------------------------------------------------------------------ scalar routes
    C = np.stack([yc, xc], axis=-1)
    skw = dict(shape_native=(H, W), pixel_scales=s, origins=o)
    s_entries = (("scaled_coordinates_2d_from", lambda c: geom.scaled_coordinates_2d_from(pixel_coordinates_2d=c)),
                 ("geometry_util.scaled_coordinates_2d_from", lambda c: gu.scaled_coordinates_2d_from(pixel_coordinates_2d=c, **skw)))
    pix_forms = [
        ("a list of Python ints", "python-list", lambda i, j: [i, j], False),
        ("a tuple of Python floats", "whole-float", lambda i, j: (float(i), float(j)), False),
        ("an int64 ndarray", "int-dtype", lambda i, j: np.array([i, j], dtype=np.int64), False),
        ("an int32 ndarray", "int-dtype", lambda i, j: np.array([i, j], dtype=np.int32), False),
        ("a uint8 ndarray", "uint-dtype", lambda i, j: np.array([i, j], dtype=np.uint8), False),
        ("a float64 ndarray", "whole-float", lambda i, j: np.array([i, j], dtype=np.float64), False),
        ("a float32 ndarray", "float32", lambda i, j: np.array([i, j], dtype=np.float32), True),
        ("a tuple of numpy int64 scalars", "int-dtype", lambda i, j: (np.int64(i), np.int64(j)), False),
        ("a tuple of numpy int16 scalars", "int-dtype", lambda i, j: (np.int16(i), np.int16(j)), False),
        ("a tuple of numpy uint8 scalars", "uint-dtype", lambda i, j: (np.uint8(i), np.uint8(j)), False),
    ]
    for name, fn in s_entries:
        for label, cls, mk, f32 in pix_forms:
            fid = "%s:input-form:%s" % (name, cls)
            got = np.zeros((H, W, 2))
            try:
                for i in range(H):
                    for j in range(W):
                        r = fn(mk(i, j))
                        got[i, j] = (float(r[0]), float(r[1]))
            except Exception as e:  # noqa: BLE001
                v.ok(False, fid + ":raised", "%s pixel (%d,%d) given as %s: raised %r" % (tag, i, j, label, e))
                continue
            _chk_yx(v, fid, got, C, tol32 if f32 else tol, "%s pixel coordinates given as %s" % (tag, label))

    p_entries = (("pixel_coordinates_2d_from", lambda c: geom.pixel_coordinates_2d_from(scaled_coordinates_2d=c)),
                 ("geometry_util.pixel_coordinates_2d_from", lambda c: gu.pixel_coordinates_2d_from(scaled_coordinates_2d=c, **skw)))
    sc_float_forms = [
        ("a list of Python floats", "python-list", lambda y, x: [float(y), float(x)], False),
        ("a tuple of Python floats inside a float64 ndarray", "ndarray", lambda y, x: np.array([y, x], dtype=np.float64), False),
        ("a float32 ndarray", "float32", lambda y, x: np.array([y, x], dtype=np.float32), True),
        ("a tuple of numpy float64 scalars", "numpy-scalars", lambda y, x: (np.float64(y), np.float64(x)), False),
        ("a tuple of numpy float32 scalars", "float32", lambda y, x: (np.float32(y), np.float32(x)), True),
    ]
    sc_int_forms = [
        ("a tuple of Python ints", "int-dtype", lambda y, x: (int(y), int(x)), False),
        ("a list of Python ints", "python-list", lambda y, x: [int(y), int(x)], False),
        ("an int64 ndarray", "int-dtype", lambda y, x: np.array([y, x], dtype=np.int64), False),
        ("an int32 ndarray", "int-dtype", lambda y, x: np.array([y, x], dtype=np.int32), False),
        ("an int16 ndarray", "int-dtype", lambda y, x: np.array([y, x], dtype=np.int16), False),
        ("a tuple of numpy int64 scalars", "int-dtype", lambda y, x: (np.int64(y), np.int64(x)), False),
        ("a float32 ndarray holding the whole numbers", "float32", lambda y, x: np.array([y, x], dtype=np.float32), True),
    ]
    for what, base, fl in (("scaled query point", Qf, sc_float_forms), ("whole-number scaled query point", Qi, sc_int_forms)):
        if len(base) == 0:
            continue
        for label, cls, mk, f32 in fl:
            A64 = base.astype(np.float32).astype(np.float64) if f32 else base.astype(np.float64)
            Pr, Cr, Ir, keep, tp = refs(A64, f32)
            rows = np.flatnonzero(keep)
            for name, fn in p_entries:
                fid = "%s:input-form:%s" % (name, cls)
                got = np.zeros((len(rows), 2), dtype=int)
                exact = True
                try:
                    for n, k in enumerate(rows):
                        k = int(k)
                        r = fn(mk(base[k, 0], base[k, 1]))
                        exact = exact and r[0] == int(r[0]) and r[1] == int(r[1])
                        got[n] = (int(r[0]), int(r[1]))
                except Exception as e:  # noqa: BLE001
                    v.ok(False, fid + ":raised", "%s %s %r given as %s: raised %r" % (tag, what, base[k].tolist(), label, e))
                    continue
                v.ok(exact, fid + ":non-integer", "%s %s given as %s" % (tag, what, label))
                ok, suffix, msg = _cmp_int_yx(got, Cr[rows])
                v.ok(ok, fid + suffix, lambda: "%s %s given as %s: %s (query %r)" % (
                    tag, what, label, msg, base[rows[int(np.flatnonzero((got != Cr[rows]).any(axis=1))[0])]].tolist()))
            # scaled coordinate -> scaled coordinate of the centre of the pixel that contains it
            fid = "scaled_coordinate_2d_to_scaled_at_pixel_centre_from:input-form:%s" % cls
            gotc = np.zeros((len(rows), 2))
            try:
                for n, k in enumerate(rows):
                    k = int(k)
                    r = geom.scaled_coordinate_2d_to_scaled_at_pixel_centre_from(scaled_coordinate_2d=mk(base[k, 0], base[k, 1]))
                    gotc[n] = (float(r[0]), float(r[1]))
            except Exception as e:  # noqa: BLE001
                v.ok(False, fid + ":raised", "%s %s %r given as %s: raised %r" % (tag, what, base[k].tolist(), label, e))
                continue
            _chk_yx(v, fid, gotc, C[Cr[rows, 0], Cr[rows, 1]], tol, "%s %s given as %s" % (tag, what, label))


def _geo1_forms(gu, v, L, s, o, xc, tol, tag):
    """1D scalar conversions with the coordinate handed over in every scalar type / container form."""
    kw = dict(shape_slim=(L,), pixel_scales=(s,), origins=(o,))
    tol32 = tol + 8 * EPS32 * (abs(o) + L * s)
    pix_forms = [
        ("a list of one Python int", "python-list", lambda k: [k], False),
        ("a tuple of one Python float", "whole-float", lambda k: (float(k),), False),
        ("an int64 ndarray", "int-dtype", lambda k: np.array([k], dtype=np.int64), False),
        ("an int32 ndarray", "int-dtype", lambda k: np.array([k], dtype=np.int32), False),
        ("a uint8 ndarray", "uint-dtype", lambda k: np.array([k], dtype=np.uint8), False),
        ("a float32 ndarray", "float32", lambda k: np.array([k], dtype=np.float32), True),
        ("a tuple of one numpy int64 scalar", "int-dtype", lambda k: (np.int64(k),), False),
        ("a tuple of one numpy uint8 scalar", "uint-dtype", lambda k: (np.uint8(k),), False),
    ]
    for label, cls, mk, f32 in pix_forms:
        fid = "scaled_coordinates_1d_from:input-form:%s" % cls
        try:
            got = np.array([float(gu.scaled_coordinates_1d_from(pixel_coordinates_1d=mk(k), **kw)[0]) for k in range(L)])
        except Exception as e:  # noqa: BLE001
            v.ok(False, fid + ":raised", "%s pixel given as %s: raised %r" % (tag, label, e))
            continue
        v.ok(bool(np.all(np.abs(got - xc) <= (tol32 if f32 else tol))), fid,
             lambda: "%s pixel given as %s: got %s want %s" % (tag, label, got.tolist(), xc.tolist()))
    # scaled -> pixel: float query points inside every pixel, and every whole-number coordinate inside the extent
    x_left = o - L * s / 2.0
    qf = (xc[:, None] + np.array([0.0, 0.25, -0.45, 0.45])[None, :] * s).ravel()
    lo, hi = int(np.ceil(x_left)), int(np.floor(o + L * s / 2.0))
    qi = np.arange(lo, hi + 1, dtype=np.int64)[:64]
    sc_forms = [
        (qf, "a list of one Python float", "python-list", lambda x: [float(x)], False),
        (qf, "a float64 ndarray", "ndarray", lambda x: np.array([x], dtype=np.float64), False),
        (qf, "a float32 ndarray", "float32", lambda x: np.array([x], dtype=np.float32), True),
        (qf, "a tuple of one numpy float32 scalar", "float32", lambda x: (np.float32(x),), True),
        (qi, "a tuple of one Python int", "int-dtype", lambda x: (int(x),), False),
        (qi, "an int64 ndarray", "int-dtype", lambda x: np.array([x], dtype=np.int64), False),
        (qi, "an int16 ndarray", "int-dtype", lambda x: np.array([x], dtype=np.int16), False),
        (qi, "a tuple of one numpy int32 scalar", "int-dtype", lambda x: (np.int32(x),), False),
    ]
    for base, label, cls, mk, f32 in sc_forms:
        fid = "pixel_coordinates_1d_from:input-form:%s" % cls
        a64 = base.astype(np.float32).astype(np.float64) if f32 else base.astype(np.float64)
        pr = (a64 - x_left) / s
        kr = np.floor(pr).astype(int)
        fr = pr - kr
        e = 8 * EPS32 * (np.abs(a64 / s) + abs(o / s) + L + 1.0) if f32 else np.zeros(len(a64))
        keep = (pr > 0) & (pr < L) & (np.minimum(fr, 1.0 - fr) > np.maximum(BAND, 4 * e))
        for k in np.flatnonzero(keep):
            k = int(k)
            try:
                pc = gu.pixel_coordinates_1d_from(scaled_coordinates_1d=mk(base[k]), **kw)
            except Exception as e2:  # noqa: BLE001
                v.ok(False, fid + ":raised", "%s x=%r given as %s: raised %r" % (tag, base[k].tolist(), label, e2))
                break
            v.ok(pc[0] == kr[k] and int(pc[0]) == kr[k], fid, lambda: "%s x=%r given as %s: got %r want %d" % (tag, base[k].tolist(), label, pc, kr[k]))


def run_geo(aa, v, H, W, s_in, o_in):
    gu = aa.util.geometry
    s = pair(s_in)
    o = (float(o_in[0]), float(o_in[1]))
    ps_arg = s if isinstance(s_in, (list, tuple)) else float(s_in)  # isotropic menu members are passed as a bare float
    v.outcome = "geo:" + _oc(H, W)
    v.nontrivial = (H != W) or (s[0] != s[1]) or (o[0] != o[1])
    tag = "shape=(%d,%d) scales=%r origin=%r" % (H, W, s_in, o)
    mag = abs(o[0]) + abs(o[1]) + H * s[0] + W * s[1]
    tol = 1e-12 * mag
    tolp = 1e-12 * (H + W + 1 + abs(o[0] / s[0]) + abs(o[1] / s[1]))

    yc, xc = ref_centres(H, W, s, o)
    C = np.stack([yc, xc], axis=-1)  # (H,W,2)
    y_top = o[0] + H * s[0] / 2.0
    y_bot = o[0] - H * s[0] / 2.0
    x_left = o[1] - W * s[1] / 2.0
    x_right = o[1] + W * s[1] / 2.0

    mask0 = aa.Mask2D(mask=np.zeros((H, W), bool), pixel_scales=ps_arg, origin=o)
    geom = mask0.geometry

    # ---- extent = union of the pixel squares
    ext = tuple(float(t) for t in geom.extent)
    want = (x_left, x_right, y_bot, y_top)
    union = (xc[0, 0] - s[1] / 2, xc[0, -1] + s[1] / 2, yc[-1, 0] - s[0] / 2, yc[0, 0] + s[0] / 2)
    for k, lab in enumerate(("x_min", "x_max", "y_min", "y_max")):
        v.ok(abs(ext[k] - want[k]) <= tol and abs(ext[k] - union[k]) <= tol, "extent:" + lab[0],
             lambda: "%s extent %r want %r (%s)" % (tag, ext, want, lab))
    cpc = geom.central_pixel_coordinates
    v.ok(tuple(cpc) == ((H - 1) / 2.0, (W - 1) / 2.0), "central_pixel_coordinates", lambda: "%s %r" % (tag, cpc))

    # ---- scalar routes: centre <-> index
    got_sc = np.zeros((H, W, 2))
    for i in range(H):
        for j in range(W):
            got_sc[i, j] = geom.scaled_coordinates_2d_from(pixel_coordinates_2d=(i, j))
    _chk_yx(v, "scaled_coordinates_2d_from", got_sc, C, tol, tag)

    # query points: every pixel x 81 in-pixel offsets, all inside the extent and >=1e-6 px away from any boundary
    fy, fx = np.meshgrid(np.array(OFFS), np.array(OFFS), indexing="ij")
    Q = np.zeros((H, W, 81, 2))
    Q[..., 0] = yc[:, :, None] + fy.ravel()[None, None, :] * s[0]
    Q[..., 1] = xc[:, :, None] + fx.ravel()[None, None, :] * s[1]
    Iref = np.zeros((H, W, 81, 2), dtype=int)
    Iref[..., 0] = np.arange(H)[:, None, None]
    Iref[..., 1] = np.arange(W)[None, :, None]
    # independent containment by floor arithmetic must agree with the construction (harness self-check)
    fl_i = np.floor((y_top - Q[..., 0]) / s[0]).astype(int)
    fl_j = np.floor((Q[..., 1] - x_left) / s[1]).astype(int)
    assert np.array_equal(fl_i, Iref[..., 0]) and np.array_equal(fl_j, Iref[..., 1]), "harness: query construction"
    assert (Q[..., 0] < y_top).all() and (Q[..., 0] > y_bot).all() and (Q[..., 1] > x_left).all() and (Q[..., 1] < x_right).all()

    got_pc = np.zeros((H, W, 81, 2), dtype=int)
    exact_int = True
    for i in range(H):
        for j in range(W):
            for k in range(81):
                pc = geom.pixel_coordinates_2d_from(scaled_coordinates_2d=(Q[i, j, k, 0], Q[i, j, k, 1]))
                if pc[0] != int(pc[0]) or pc[1] != int(pc[1]):
                    exact_int = False
                got_pc[i, j, k] = (int(pc[0]), int(pc[1]))
    v.ok(exact_int, "pixel_coordinates_2d_from:non-integer", tag)
    for ax, lab in ((0, "y"), (1, "x")):
        bad = got_pc[..., ax] != Iref[..., ax]
        v.ok(not bad.any(), "pixel_coordinates_2d_from:" + lab,
             lambda: "%s %s: query %r -> got %d want %d (n_bad=%d)" % (
                 tag, lab, Q[tuple(np.argwhere(bad)[0])].tolist(), got_pc[..., ax][tuple(np.argwhere(bad)[0])],
                 Iref[..., ax][tuple(np.argwhere(bad)[0])], int(bad.sum())))
    # centre -> index -> centre is the identity; any in-pixel point -> centre of its pixel
    rt = np.zeros((H, W, 2))
    rt2 = np.zeros((H, W, 2))
    for i in range(H):
        for j in range(W):
            pc = geom.pixel_coordinates_2d_from(scaled_coordinates_2d=(yc[i, j], xc[i, j]))
            rt[i, j] = geom.scaled_coordinates_2d_from(pixel_coordinates_2d=pc)
            k = (i * 7 + j * 3) % 81
            rt2[i, j] = geom.scaled_coordinate_2d_to_scaled_at_pixel_centre_from(scaled_coordinate_2d=(Q[i, j, k, 0], Q[i, j, k, 1]))
    _chk_yx(v, "centre-index-centre", rt, C, tol, tag)
    _chk_yx(v, "scaled_coordinate_2d_to_scaled_at_pixel_centre_from", rt2, C, tol, tag)

    # ---- grid routes (the query grid carries its own, unrelated, mask: shape (H*W, 81))
    N = H * W * 81
    Qs = Q.reshape(N, 2)
    qgrid = aa.Grid2D.no_mask(values=Qs.copy(), shape_native=(H * W, 81), pixel_scales=1.0)
    Is = Iref.reshape(N, 2)
    pure_q = _Pure(qgrid)  # every conversion must leave the caller's grid (values and mask) bitwise unchanged
    gc = _arr(geom.grid_pixel_centres_2d_from(grid_scaled_2d=qgrid).slim)
    pure_q.check(v, "grid_pixel_centres_2d_from", tag)
    for ax, lab in ((0, "y"), (1, "x")):
        okc = gc.shape == Is.shape and np.array_equal(gc[:, ax], Is[:, ax])
        v.ok(okc, "grid_pixel_centres_2d_from:" + lab, lambda: "%s %s first bad: %s" % (tag, lab, _first_bad(Qs, gc[:, ax] if gc.shape == Is.shape else None, Is[:, ax])))
    gi = _arr(geom.grid_pixel_indexes_2d_from(grid_scaled_2d=qgrid).slim)
    pure_q.check(v, "grid_pixel_indexes_2d_from", tag)
    wi = Is[:, 0] * W + Is[:, 1]
    v.ok(gi.shape == wi.shape and np.array_equal(gi, wi), "grid_pixel_indexes_2d_from",
         lambda: "%s first bad: %s" % (tag, _first_bad(Qs, gi if gi.shape == wi.shape else None, wi)))
    qnat = Q.reshape(H * W, 81, 2).copy()
    pure_n = _Pure(qnat)
    gnat = gu.grid_pixel_centres_2d_from(grid_scaled_2d=qnat, shape_native=(H, W), pixel_scales=s, origin=o)
    pure_n.check(v, "geometry_util.grid_pixel_centres_2d_from", tag)
    v.ok(np.asarray(gnat).shape == (H * W, 81, 2) and np.array_equal(np.asarray(gnat).reshape(N, 2), Is), "geometry_util.grid_pixel_centres_2d_from", tag)

    # continuous pixel coordinates: offset from the top-left corner, and the inverse
    Pref = np.stack([(y_top - Qs[:, 0]) / s[0], (Qs[:, 1] - x_left) / s[1]], axis=-1)
    gp_grid = geom.grid_pixels_2d_from(grid_scaled_2d=qgrid)
    pure_q.check(v, "grid_pixels_2d_from", tag)
    gp = _arr(gp_grid.slim)
    _chk_yx(v, "grid_pixels_2d_from", gp, Pref, tolp, tag)
    if gp.shape == Pref.shape:
        for ax, lab in ((0, "y"), (1, "x")):
            v.ok(np.array_equal(np.floor(gp[:, ax]).astype(int), Is[:, ax]), "grid_pixels_2d_from:floor-is-index:" + lab, tag)
    pure_gp = _Pure(gp_grid)
    back = _arr(geom.grid_scaled_2d_from(grid_pixels_2d=gp_grid).slim)
    pure_gp.check(v, "grid_scaled_2d_from", tag)
    _chk_yx(v, "grid_scaled_2d_from(grid_pixels_2d_from)", back, Qs, tol, tag)
    # the other composition, starting from an independent menu of continuous pixel coordinates
    pgrid = aa.Grid2D.no_mask(values=Pref.copy(), shape_native=(H * W, 81), pixel_scales=1.0)
    pure_p = _Pure(pgrid)
    sc_grid = geom.grid_scaled_2d_from(grid_pixels_2d=pgrid)
    pure_p.check(v, "grid_scaled_2d_from", tag)
    sc = _arr(sc_grid.slim)
    _chk_yx(v, "grid_scaled_2d_from", sc, Qs, tol, tag)
    pure_sc = _Pure(sc_grid)
    back2 = _arr(geom.grid_pixels_2d_from(grid_scaled_2d=sc_grid).slim)
    pure_sc.check(v, "grid_pixels_2d_from", tag)
    _chk_yx(v, "grid_pixels_2d_from(grid_scaled_2d_from)", back2, Pref, tolp, tag)

    # ---- conversion SEQUENCES on one reused float64 ndarray (util level) and one reused Grid2D (geometry level):
    # pixels -> centres -> indexes -> scaled -> pixels -> centres -> indexes -> scaled, every result against the closed form
    # (all pixels x 12 of the 81 in-pixel offsets)
    ksub = list(range(0, 81, 7))
    nsub = len(ksub)
    Qb = np.ascontiguousarray(Q[:, :, ksub, :].reshape(H * W * nsub, 2))
    Ib = Iref[:, :, ksub, :].reshape(H * W * nsub, 2)
    Pb = np.stack([(y_top - Qb[:, 0]) / s[0], (Qb[:, 1] - x_left) / s[1]], axis=-1)
    wib = Ib[:, 0] * W + Ib[:, 1]
    ukw = dict(shape_native=(H, W), pixel_scales=s, origin=o)
    qa, pa = Qb.copy(), Pb.copy()
    assert qa.dtype == np.float64 and pa.dtype == np.float64 and qa.flags.c_contiguous and qa.flags.writeable
    _sequence(v, {
        "P": ("geometry_util.grid_pixels_2d_slim_from", lambda a: gu.grid_pixels_2d_slim_from(grid_scaled_2d_slim=a, **ukw),
              qa, Qb.copy, lambda r: _cmp_yx(r, Pb, tolp)),
        "C": ("geometry_util.grid_pixel_centres_2d_slim_from", lambda a: gu.grid_pixel_centres_2d_slim_from(grid_scaled_2d_slim=a, **ukw),
              qa, Qb.copy, lambda r: _cmp_int_yx(r, Ib)),
        "I": ("geometry_util.grid_pixel_indexes_2d_slim_from", lambda a: gu.grid_pixel_indexes_2d_slim_from(grid_scaled_2d_slim=a, **ukw),
              qa, Qb.copy, lambda r: _cmp_int(r, wib)),
        "S": ("geometry_util.grid_scaled_2d_slim_from", lambda a: gu.grid_scaled_2d_slim_from(grid_pixels_2d_slim=a, **ukw),
              pa, Pb.copy, lambda r: _cmp_yx(r, Qb, tol)),
    }, "PCISPCIS", tag)

    def mk(vals):
        return lambda: aa.Grid2D.no_mask(values=vals.copy(), shape_native=(H * W, nsub), pixel_scales=1.0)

    qg, pg = mk(Qb)(), mk(Pb)()
    _sequence(v, {
        "P": ("grid_pixels_2d_from", lambda g: geom.grid_pixels_2d_from(grid_scaled_2d=g).slim, qg, mk(Qb), lambda r: _cmp_yx(r, Pb, tolp)),
        "C": ("grid_pixel_centres_2d_from", lambda g: geom.grid_pixel_centres_2d_from(grid_scaled_2d=g).slim, qg, mk(Qb), lambda r: _cmp_int_yx(r, Ib)),
        "I": ("grid_pixel_indexes_2d_from", lambda g: geom.grid_pixel_indexes_2d_from(grid_scaled_2d=g).slim, qg, mk(Qb), lambda r: _cmp_int(r, wib)),
        "S": ("grid_scaled_2d_from", lambda g: geom.grid_scaled_2d_from(grid_pixels_2d=g).slim, pg, mk(Pb), lambda r: _cmp_yx(r, Qb, tol)),
    }, "PCISPCIS", tag)

    # ---- pixel-centre grids
    Cs = C.reshape(H * W, 2)
    u = aa.Grid2D.uniform(shape_native=(H, W), pixel_scales=ps_arg, origin=o)
    _chk_yx(v, "Grid2D.uniform", _arr(u.slim), Cs, tol, tag)
    v.ok(tuple(u.mask.origin) == o and tuple(u.mask.pixel_scales) == s and tuple(u.shape_native) == (H, W),
         "Grid2D.uniform:mask-geometry", lambda: "%s origin %r scales %r" % (tag, u.mask.origin, u.mask.pixel_scales))
    for p in range(5):
        if p == 4 and (H < 3 or W < 3):
            continue
        m = pat_mask(H, W, p)
        if m.all():
            continue
        mask = aa.Mask2D(mask=m.copy(), pixel_scales=ps_arg, origin=o)
        g = aa.Grid2D.from_mask(mask=mask)
        _chk_yx(v, "Grid2D.from_mask", _arr(g.slim), C[~m], tol, tag + " pattern %d" % p)
        _chk_yx(v, "Grid2D.from_mask:native", _arr(g.native), np.where(m[:, :, None], 0.0, C), tol, tag + " pattern %d" % p)
        _chk_yx(v, "derive_grid.all_false", _arr(mask.derive_grid.all_false.slim), Cs, tol, tag + " pattern %d" % p)
        # centre -> flattened index
        pure_g = _Pure(g)
        idx = _arr(mask.geometry.grid_pixel_indexes_2d_from(grid_scaled_2d=g).slim)
        pure_g.check(v, "grid_pixel_indexes_2d_from", tag + " pattern %d (grid of the mask)" % p)
        wi = np.flatnonzero(~m.ravel())
        v.ok(idx.shape == wi.shape and np.array_equal(idx, wi), "grid_pixel_indexes_2d_from:from_mask-centres",
             lambda: "%s pattern %d got %s want %s" % (tag, p, idx.tolist(), wi.tolist()))
        e2 = tuple(float(t) for t in mask.geometry.extent)
        v.ok(all(abs(e2[k] - want[k]) <= tol for k in range(4)), "extent:masked", lambda: "%s pattern %d extent %r" % (tag, p, e2))
        # the masked pixel-centre grid itself reused through the conversions (its own mask, slim storage of unmasked pixels only)
        ij = np.argwhere(~m)
        pc_want = ij + 0.5  # a pixel centre sits half a pixel from its top-left corner
        mg = mask.geometry
        ptag = tag + " pattern %d (grid of the mask)" % p

        def fresh_g(mask=mask):
            return aa.Grid2D.from_mask(mask=mask)

        _sequence(v, {
            "P": ("grid_pixels_2d_from", lambda t: mg.grid_pixels_2d_from(grid_scaled_2d=t).slim, g, fresh_g, lambda r: _cmp_yx(r, pc_want, tolp)),
            "C": ("grid_pixel_centres_2d_from", lambda t: mg.grid_pixel_centres_2d_from(grid_scaled_2d=t).slim, g, fresh_g, lambda r: _cmp_int_yx(r, ij)),
            "I": ("grid_pixel_indexes_2d_from", lambda t: mg.grid_pixel_indexes_2d_from(grid_scaled_2d=t).slim, g, fresh_g, lambda r: _cmp_int(r, wi)),
        }, "PCIPCI", ptag)
        _chk_yx(v, "Grid2D.from_mask", _raw(g), C[~m], tol, ptag + " after the conversions")

    # ---- request histories: grid -> caller edits it IN PLACE -> identical request (-> other parameters -> identical request):
    # every answer must be the closed form and own its buffer
    gg = aa.util.grid_2d
    o_alt = (o[0] + 1.5, o[1] - 2.25)
    yca, xca = ref_centres(H, W, s, o_alt)
    Ca = np.stack([yca, xca], axis=-1)
    tol_alt = 1e-12 * (mag + 4.0)
    m = pat_mask(H, W, 2) if H * W > 1 else pat_mask(H, W, 0)  # pixel (0,0) unmasked
    m_alt = pat_mask(H, W, 3) if H * W > 1 else pat_mask(H, W, 0)
    _history(v, "Grid2D.uniform", tag,
             lambda: aa.Grid2D.uniform(shape_native=(H, W), pixel_scales=ps_arg, origin=o), Cs, tol,
             lambda: aa.Grid2D.uniform(shape_native=(H, W), pixel_scales=ps_arg, origin=o_alt), Ca.reshape(H * W, 2), tol_alt)
    mask_h = aa.Mask2D(mask=m.copy(), pixel_scales=ps_arg, origin=o)
    _history(v, "Grid2D.from_mask", tag,
             lambda: aa.Grid2D.from_mask(mask=mask_h), C[~m], tol,
             lambda: aa.Grid2D.from_mask(mask=aa.Mask2D(mask=m_alt.copy(), pixel_scales=ps_arg, origin=o_alt)), Ca[~m_alt], tol_alt)
    # derive_grid.all_false: twice from the SAME mask object, and from equal masks built anew for every request
    _history(v, "derive_grid.all_false", tag + " (same Mask2D object)",
             lambda: mask_h.derive_grid.all_false, Cs, tol,
             lambda: aa.Mask2D(mask=m_alt.copy(), pixel_scales=ps_arg, origin=o_alt).derive_grid.all_false, Ca.reshape(H * W, 2), tol_alt)
    _history(v, "derive_grid.all_false", tag + " (equal Mask2D objects)",
             lambda: aa.Mask2D(mask=m.copy(), pixel_scales=ps_arg, origin=o).derive_grid.all_false, Cs, tol)
    _history(v, "grid_2d_util.grid_2d_slim_via_shape_native_from", tag,
             lambda: gg.grid_2d_slim_via_shape_native_from(shape_native=(H, W), pixel_scales=s, origin=o), Cs, tol,
             lambda: gg.grid_2d_slim_via_shape_native_from(shape_native=(H, W), pixel_scales=s, origin=o_alt), Ca.reshape(H * W, 2), tol_alt)
    _history(v, "grid_2d_util.grid_2d_slim_via_mask_from", tag,
             lambda: gg.grid_2d_slim_via_mask_from(mask_2d=m.copy(), pixel_scales=s, origin=o), C[~m], tol,
             lambda: gg.grid_2d_slim_via_mask_from(mask_2d=m_alt.copy(), pixel_scales=s, origin=o_alt), Ca[~m_alt], tol_alt)
    _history(v, "grid_2d_util.grid_2d_via_shape_native_from", tag,
             lambda: gg.grid_2d_via_shape_native_from(shape_native=(H, W), pixel_scales=s, origin=o), C, tol)
    _history(v, "grid_2d_util.grid_2d_via_mask_from", tag,
             lambda: gg.grid_2d_via_mask_from(mask_2d=m.copy(), pixel_scales=s, origin=o), np.where(m[:, :, None], 0.0, C), tol)


def _first_bad(Qs, got, want):
    if got is None:
        return "shape mismatch"
    b = np.flatnonzero(np.asarray(got) != np.asarray(want))
    if len(b) == 0:
        return "-"
    return "query %r got %r want %r (n_bad=%d)" % (Qs[b[0]].tolist(), np.asarray(got)[b[0]].tolist(), np.asarray(want)[b[0]].tolist(), len(b))


def _mask_cmp(v, name, got_mask, want_unmasked, tag, census):
    got = np.asarray(got_mask)
    want = ~want_unmasked
    ok = got.dtype == bool and got.shape == want.shape and np.array_equal(got, want)
    v.ok(ok, name, lambda: "%s\n got unmasked=%s\nwant unmasked=%s" % (tag, (~got).astype(int).tolist(), want_unmasked.astype(int).tolist()))
    n = int(want_unmasked.sum())
    if 0 < n < want.size:
        census["nontrivial"] += 1
    census["masks"].add(want_unmasked.tobytes())


def run_masks(aa, v, kind, H, W, s_in, c_in, o_in, *rest):
    s = pair(s_in)
    ps_arg = s if isinstance(s_in, (list, tuple)) else float(s_in)
    c = (float(c_in[0]), float(c_in[1]))
    o = (float(o_in[0]), float(o_in[1]))
    # pixel centres RELATIVE TO THE MASK ORIGIN (reference computed with origin (0,0)); d = centre - requested centre
    yc, xc = ref_centres(H, W, s, (0.0, 0.0))
    dy, dx = yc - c[0], xc - c[1]
    base = "shape=(%d,%d) scales=%r centre=%r origin=%r" % (H, W, s_in, c, o)
    census = {"nontrivial": 0, "masks": set()}
    kw = dict(shape_native=(H, W), pixel_scales=ps_arg, origin=o, centre=c)

    def attrs(name, m):
        v.ok(tuple(m.origin) == o and tuple(m.pixel_scales) == s and tuple(m.shape_native) == (H, W), name + ":geometry-attributes",
             lambda: "%s origin %r scales %r shape %r" % (base, m.origin, m.pixel_scales, m.shape_native))

    if kind == "circ":
        r = np.sqrt(dy ** 2 + dx ** 2)
        st = Steps(r)
        radii = st.all()
        for n, R in enumerate(radii):
            m = aa.Mask2D.circular(radius=R, **kw)
            _mask_cmp(v, "Mask2D.circular", m, r <= R, "%s radius=%r" % (base, R), census)
            if n == len(radii) // 2:
                attrs("Mask2D.circular", m)
                mi = aa.Mask2D.circular(radius=R, invert=True, **kw)
                v.ok(np.array_equal(np.asarray(mi), r <= R), "Mask2D.circular:invert", lambda: "%s radius=%r" % (base, R))
                # end to end: the grid of the mask (absolute coordinates) lies within R of origin + centre
                g = _arr(aa.Grid2D.from_mask(mask=m).slim)
                rr = np.sqrt((g[:, 0] - o[0] - c[0]) ** 2 + (g[:, 1] - o[1] - c[1]) ** 2)
                v.ok(len(rr) == int((r <= R).sum()) and bool(np.all(rr <= R + 1e-9)), "Mask2D.circular:grid-within-radius-of-origin+centre",
                     lambda: "%s radius=%r grid radii %s" % (base, R, rr.tolist()))
        nsteps = len(st.mid)
    elif kind == "ann":
        r = np.sqrt(dy ** 2 + dx ** 2)
        st = Steps(r)
        prs = [(a, b) for a, b in itertools.combinations_with_replacement(st.mid, 2)]
        prs += [(e, st.top) for e in st.edges()] + [(st.bottom, e) for e in st.edges() if e >= st.bottom]
        for n, (Ri, Ro) in enumerate(prs):
            m = aa.Mask2D.circular_annular(inner_radius=Ri, outer_radius=Ro, **kw)
            _mask_cmp(v, "Mask2D.circular_annular", m, (r >= Ri) & (r <= Ro), "%s inner=%r outer=%r" % (base, Ri, Ro), census)
            if n == len(prs) // 2:
                attrs("Mask2D.circular_annular", m)
                mi = aa.Mask2D.circular_annular(inner_radius=Ri, outer_radius=Ro, invert=True, **kw)
                v.ok(np.array_equal(np.asarray(mi), (r >= Ri) & (r <= Ro)), "Mask2D.circular_annular:invert", base)
        nsteps = len(st.mid)
    elif kind == "anti":
        ksub = int(rest[0])
        r = np.sqrt(dy ** 2 + dx ** 2)
        st = Steps(r)
        sub = st.sub(ksub)
        trs = list(itertools.combinations_with_replacement(sub, 3))
        top2 = st.top + 1.0
        for e in st.edges():
            trs.append((e, st.top, top2))  # isolates the inner radius
            if e >= st.bottom:
                trs.append((st.bottom, e, st.top))  # isolates the first outer radius
                trs.append((st.bottom, st.bottom, e))  # isolates the second outer radius
        for n, (R1, R2, R3) in enumerate(trs):
            m = aa.Mask2D.circular_anti_annular(inner_radius=R1, outer_radius=R2, outer_radius_2=R3, **kw)
            _mask_cmp(v, "Mask2D.circular_anti_annular", m, (r <= R1) | ((r >= R2) & (r <= R3)),
                      "%s inner=%r outer=%r outer2=%r" % (base, R1, R2, R3), census)
            if n == len(trs) // 2:
                attrs("Mask2D.circular_anti_annular", m)
                mi = aa.Mask2D.circular_anti_annular(inner_radius=R1, outer_radius=R2, outer_radius_2=R3, invert=True, **kw)
                v.ok(np.array_equal(np.asarray(mi), (r <= R1) | ((r >= R2) & (r <= R3))), "Mask2D.circular_anti_annular:invert", base)
        nsteps = len(st.mid)
    elif kind == "ell":
        q, ang = float(rest[0]), float(rest[1])
        r = ref_ell_radius(dy, dx, q, ang)
        st = Steps(r)
        radii = st.all()
        for n, R in enumerate(radii):
            m = aa.Mask2D.elliptical(major_axis_radius=R, axis_ratio=q, angle=ang, **kw)
            _mask_cmp(v, "Mask2D.elliptical", m, r <= R, "%s q=%r angle=%r major_axis_radius=%r" % (base, q, ang, R), census)
            if n == len(radii) // 2:
                attrs("Mask2D.elliptical", m)
                mi = aa.Mask2D.elliptical(major_axis_radius=R, axis_ratio=q, angle=ang, invert=True, **kw)
                v.ok(np.array_equal(np.asarray(mi), r <= R), "Mask2D.elliptical:invert", base)
        nsteps = len(st.mid)
    elif kind == "ellann":
        (qi, ai, qo, ao), ksub = rest[0], int(rest[1])
        ri = ref_ell_radius(dy, dx, qi, ai)
        ro = ref_ell_radius(dy, dx, qo, ao)
        si, so = Steps(ri), Steps(ro)
        prs = list(itertools.product(si.sub(ksub), so.sub(ksub)))
        prs += [(e, so.top) for e in si.edges()] + [(si.bottom, e) for e in so.edges()]
        for n, (Ri, Ro) in enumerate(prs):
            m = aa.Mask2D.elliptical_annular(inner_major_axis_radius=Ri, inner_axis_ratio=qi, inner_phi=ai,
                                             outer_major_axis_radius=Ro, outer_axis_ratio=qo, outer_phi=ao, **kw)
            _mask_cmp(v, "Mask2D.elliptical_annular", m, (ri >= Ri) & (ro <= Ro),
                      "%s inner(q=%r,phi=%r,R=%r) outer(q=%r,phi=%r,R=%r)" % (base, qi, ai, Ri, qo, ao, Ro), census)
            if n == len(prs) // 2:
                attrs("Mask2D.elliptical_annular", m)
                mi = aa.Mask2D.elliptical_annular(inner_major_axis_radius=Ri, inner_axis_ratio=qi, inner_phi=ai,
                                                  outer_major_axis_radius=Ro, outer_axis_ratio=qo, outer_phi=ao, invert=True, **kw)
                v.ok(np.array_equal(np.asarray(mi), (ri >= Ri) & (ro <= Ro)), "Mask2D.elliptical_annular:invert", base)
        nsteps = len(si.mid) + len(so.mid)
    else:
        raise ValueError("unknown case kind %r" % (kind,))
    v.nontrivial = census["nontrivial"] > 0
    nd = len(census["masks"])
    v.outcome = "%s:%s:distinct-masks~%s" % (kind, _oc(H, W), "1" if nd <= 1 else ("2-9" if nd < 10 else ("10-99" if nd < 100 else "100+")))
