"""C01 - slim / native forms are exact, order-preserving inverses under any mask."""
import numpy as np

from mc import dom
from mc.core import V

ID = "C01"
ENGINE = "scope"
CHUNK = 256
RULE = (
    "cases = every boolean mask (>=1 unmasked pixel) of every shape HxW with H*W <= bound, plus every 1D mask "
    "of length <= bound; per mask every structure type x input form (slim/native) x storage mode x value "
    "labellings (injective signed, adversarial, garbage in masked positions); non-trivial = mask has both masked and unmasked pixels and is not a single full-width block "
    "(i.e. unmasked set is not a contiguous run of whole rows)"
)
ASSUMPTIONS = [
    "gather/scatter code is value-oblivious, so an injective signed labelling, an adversarial labelling "
    "(0, -0.0, negatives, 1e-300, 1e300) and garbage in masked positions represent all real value arrays",
]
BOUNDS = {
    "quick": "2D masks with <= 12 cells (all shapes incl. 1xN, Nx1), 1D masks of length <= 12",
    "thorough": "2D masks with <= 16 cells (all shapes), 1D masks of length <= 16",
}


def cases(tier, seed):
    n2 = 12 if tier == "quick" else 16
    n1 = 12 if tier == "quick" else 16
    for L in range(1, n1 + 1):
        for bits in range(2 ** L - 1):
            yield ["1d", L, bits]
    # longer 1D masks (not exhaustive: a menu of patterns per length; sorting / hashing shortcuts only misbehave beyond ~16 elements)
    for L in (17, 18, 23, 32, 33, 47, 64, 100):
        full = (1 << L) - 1
        pats = [0x5555555555555555555555555 & full, 0xAAAAAAAAAAAAAAAAAAAAAAAAA & full, (full >> (L // 2)), (full << (L // 2)) & full,
                0x3C3C3C3C3C3C3C3C3C3C3C3C3 & full, 1, 1 << (L - 1), (1 << (L // 3)) | (1 << (2 * L // 3))]
        r = dom.rng(seed, "c01-long-1d", L)
        pats += [int(r.randint(0, 2 ** 30)) * (2 ** 30) % full | int(r.randint(0, 2 ** 30)) for _ in range(4)]
        for bits in pats:
            if 0 <= bits < full:
                yield ["1d", L, int(bits)]
    # larger, sparse 2D masks (menu): tables built through hashing / sorting only go wrong beyond small index ranges
    for (h, w) in ((6, 7), (9, 5), (8, 8), (5, 13), (12, 11)):
        r = dom.rng(seed, "c01-large-2d", h, w)
        for k in range(6):
            keep = r.uniform(size=h * w) < (0.08 + 0.15 * k)  # fraction unmasked
            if not keep.any():
                keep[r.randint(h * w)] = True
            bits = 0
            for q in range(h * w):
                if not keep[q]:
                    bits |= 1 << q
            yield ["2d", h, w, int(bits)]
    extra = []
    for (h, w, bits) in dom.all_mask_cases(n2, extra_shapes=extra):
        yield ["2d", h, w, bits]


def labellings(n, salt):
    salt = int(salt) % 1000003
    idx = np.arange(n, dtype=float)
    sign = np.where((np.arange(n) * 7 + salt) % 3 == 0, -1.0, 1.0)
    inj = sign * (1.0 + idx)
    menu = np.array([0.0, -0.0, -2.5, 1e-300, 1e300, 3.0, -1e300, 7.25])
    adv = menu[(np.arange(n) * 3 + salt) % len(menu)]
    return [("inj", inj), ("adv", adv)]


def _arr(x):
    return np.array(x)


def run_case(case):
    import autoarray as aa

    v = V(ID)
    if case[0] == "1d":
        _, L, bits = case
        m = dom.mask_from_bits(1, L, bits)[0]
        run_1d(aa, v, m, bits)
    else:
        _, h, w, bits = case
        m = dom.mask_from_bits(h, w, bits)
        run_2d(aa, v, m, bits)
    return v.result()


def run_1d(aa, v, m, salt):
    L = m.shape[0]
    mask = aa.Mask1D(mask=m.copy(), pixel_scales=(0.7,), origin=(0.3,))
    v.nontrivial = bool(m.any())
    v.outcome = "1d:n%d" % int((~m).sum())
    for name, vals in labellings(L, salt):
        garbage = np.where(m, 99.0 + np.arange(L), vals)
        ref_slim = vals[~m]
        ref_nat0 = np.where(m, 0.0, vals)
        # slim supplied (only distinguishable from native when something is masked)
        for store_native in (False, True):
            inputs = [("native", garbage.copy())]
            if m.any():
                inputs.append(("slim", ref_slim.copy()))
            for form, inp in inputs:
                keep = inp.copy()
                a = aa.Array1D(values=inp, mask=mask, store_native=store_native)
                tag = "Array1D[%s,%s,store_native=%s]" % (name, form, store_native)
                v.ok(dom.exact(_arr(a.slim), ref_slim), "Array1D.slim", lambda: "%s slim=%s ref=%s" % (tag, _arr(a.slim), ref_slim))
                # round trips
                v.ok(dom.exact(_arr(a.slim.native.slim), ref_slim), "Array1D.slim-native-slim", tag)
                v.ok(dom.exact(_arr(a.slim.native), ref_nat0), "Array1D.slim.native", lambda: "%s %s vs %s" % (tag, _arr(a.slim.native), ref_nat0))
                v.ok(dom.exact(_arr(a.native.slim.native), ref_nat0), "Array1D.native-slim-native", tag)
                if form == "slim":
                    v.ok(dom.exact(_arr(a.native), ref_nat0), "Array1D.native", tag)
                v.ok(dom.exact(inp, keep), "Array1D.input-mutated", tag)
        # Grid1D
        for store_native in (False, True):
            inputs = [("native", garbage.copy())]
            if m.any():
                inputs.append(("slim", ref_slim.copy()))
            for form, inp in inputs:
                g = aa.Grid1D(values=inp, mask=mask, store_native=store_native)
                tag = "Grid1D[%s,%s,store_native=%s]" % (name, form, store_native)
                v.ok(dom.exact(_arr(g.slim), ref_slim), "Grid1D.slim", tag)
                v.ok(dom.exact(_arr(g.slim.native.slim), ref_slim), "Grid1D.slim-native-slim", tag)
                v.ok(dom.exact(_arr(g.slim.native), ref_nat0), "Grid1D.slim.native", tag)
    # index table
    nfs = aa.util.mask_1d.native_index_for_slim_index_1d_from(mask_1d=m)
    v.ok(dom.exact(np.asarray(nfs), np.flatnonzero(~m)), "Mask1D.native_for_slim", lambda: "%s" % nfs)
    v.ok(int(mask.pixels_in_mask) == int((~m).sum()), "Mask1D.pixels_in_mask")
    if m.any() and (~m).any():
        src = m.copy()
        lab0 = 1.0 + np.arange(L, dtype=float)
        mk_a = aa.Mask1D(mask=src, pixel_scales=(1.0,))
        arr_a = aa.Array1D(values=lab0.copy(), mask=mk_a)
        np.logical_not(src, out=src)
        v.ok(dom.exact(np.array(mk_a), m), "Mask1D:aliases-caller-array", lambda: "after the source ndarray was inverted in place the mask reads %s" % np.array(mk_a).astype(int).tolist())
        v.ok(dom.exact(_arr(arr_a.slim), lab0[~m]) and dom.exact(_arr(arr_a.native), np.where(m, 0.0, lab0)), "Array1D:after-caller-edit",
             lambda: "native=%s" % _arr(arr_a.native).tolist())
        table = np.flatnonzero(~m)
        keep_t = table.copy()
        for rep in range(2):
            n_t = aa.util.array_1d.array_1d_via_indexes_1d_from(array_1d_slim=lab0[~m].copy(), shape=L, native_index_for_slim_index_1d=table)
            v.ok(dom.exact(np.asarray(n_t), np.where(m, 0.0, lab0)) and dom.exact(table, keep_t), "array_1d_via_indexes_1d_from:table-reused", "use %d" % (rep + 1))


def run_2d(aa, v, m, salt):
    h, w = m.shape
    n = h * w
    u = ~m
    mask = aa.Mask2D(mask=m.copy(), pixel_scales=(1.0, 2.0), origin=(0.5, -1.0))
    rows_full = all((u[i].all() or not u[i].any()) for i in range(h))
    nz = np.flatnonzero(u.any(axis=1))
    contiguous = rows_full and (len(nz) == 0 or nz[-1] - nz[0] + 1 == len(nz))
    v.nontrivial = bool(m.any()) and not contiguous
    v.outcome = "2d:%dx%d:n%d" % (h, w, int(u.sum()))

    # ---- a mask owns its booleans: structures built on it must not change when the caller re-uses the ndarray it was built
    # from (scratch buffer for the next mask) or edits a second mask built from the same ndarray
    if m.any() and u.any():
        src = m.copy()
        lab0 = 1.0 + np.arange(n, dtype=float).reshape(h, w)
        mk_a = aa.Mask2D(mask=src, pixel_scales=1.0)
        arr_a = aa.Array2D(values=lab0.copy(), mask=mk_a)
        mk_b = aa.Mask2D(mask=src, pixel_scales=1.0)
        want_slim, want_nat, want_nfs = lab0[u], np.where(m, 0.0, lab0), np.argwhere(u)
        for step, edit in (("source ndarray inverted in place", lambda: np.logical_not(src, out=src)),
                           ("source ndarray rolled in place", lambda: src.__setitem__(Ellipsis, np.roll(src.ravel(), 1).reshape(h, w))),
                           ("second mask built from the same ndarray edited in place", lambda: mk_b.__setitem__((0, 0), not bool(np.array(mk_b)[0, 0])))):
            edit()
            v.ok(dom.exact(np.array(mk_a), m), "Mask2D:aliases-caller-array", lambda: "after %s the first mask reads %s, was built from %s" % (step, np.array(mk_a).astype(int).tolist(), m.astype(int).tolist()))
            v.ok(dom.exact(np.asarray(mk_a.derive_indexes.native_for_slim), want_nfs) and int(mk_a.pixels_in_mask) == int(u.sum()), "native_for_slim:after-caller-edit", step)
            v.ok(dom.exact(_arr(arr_a.slim), want_slim) and dom.exact(_arr(arr_a.native), want_nat) and dom.exact(_arr(arr_a.slim.native), want_nat),
                 "Array2D:after-caller-edit", lambda: "after %s: native=%s" % (step, _arr(arr_a.native).tolist()))

    # ---- index tables
    di = mask.derive_indexes
    nfs = np.asarray(di.native_for_slim)
    ref_nfs = np.argwhere(u)
    v.ok(dom.exact(nfs, ref_nfs), "native_for_slim", lambda: "got %s want %s" % (nfs.tolist(), ref_nfs.tolist()))
    us = np.asarray(di.unmasked_slim)
    ms = np.asarray(di.masked_slim)
    flat = m.ravel()
    v.ok(dom.exact(us, np.flatnonzero(~flat)), "unmasked_slim", lambda: "%s" % us)
    v.ok(dom.exact(ms, np.flatnonzero(flat)), "masked_slim", lambda: "%s" % ms)
    allidx = np.concatenate([us, ms]).astype(int)
    v.ok(sorted(allidx.tolist()) == list(range(n)), "index-partition")
    if nfs.shape == ref_nfs.shape and us.shape[0] == nfs.shape[0]:
        v.ok(dom.exact(nfs[:, 0] * w + nfs[:, 1], us), "native_for_slim-vs-unmasked_slim")
    v.ok(int(mask.pixels_in_mask) == int(u.sum()), "pixels_in_mask")

    # ---- a mask derived from this one (inversion, in-place edit of a copy) publishes tables for ITS OWN pixels
    if m.any():
        inv = mask.invert()
        mi = ~m
        v.ok(dom.exact(np.asarray(inv.derive_indexes.native_for_slim), np.argwhere(~mi)), "native_for_slim:derived-mask",
             lambda: "mask.invert(): got %s want %s" % (np.asarray(inv.derive_indexes.native_for_slim).tolist(), np.argwhere(~mi).tolist()))
        v.ok(dom.exact(np.asarray(inv.derive_indexes.unmasked_slim), np.flatnonzero(~mi.ravel())), "unmasked_slim:derived-mask")
        a_inv = aa.Array2D(values=(1.0 + np.arange(n, dtype=float)).reshape(h, w), mask=inv)
        v.ok(dom.exact(_arr(a_inv.slim), (1.0 + np.arange(n, dtype=float)).reshape(h, w)[~mi]), "Array2D.slim:derived-mask")
    ed = mask.copy()
    k0 = int(np.flatnonzero(~flat)[0])
    ed[k0 // w, k0 % w] = True  # mask one more pixel in place on the copy
    me = m.copy()
    me[k0 // w, k0 % w] = True
    if not me.all():
        v.ok(dom.exact(np.asarray(ed.derive_indexes.native_for_slim), np.argwhere(~me)), "native_for_slim:edited-mask",
             lambda: "copy edited in place: got %s want %s" % (np.asarray(ed.derive_indexes.native_for_slim).tolist(), np.argwhere(~me).tolist()))
        v.ok(dom.exact(np.asarray(ed.derive_indexes.masked_slim), np.flatnonzero(me.ravel())), "masked_slim:edited-mask")
    v.ok(dom.exact(np.asarray(mask.derive_indexes.native_for_slim), ref_nfs), "native_for_slim:source-changed-by-derivation")

    # ---- the mask may be handed over in any memory layout (Fortran order, transposed view, strided view)
    if h > 1 and w > 1:
        lab = (1.0 + np.arange(n, dtype=float)).reshape(h, w)
        big = np.ones((h, 2 * w), dtype=bool)
        big[:, ::2] = m
        for lname, marr in (("fortran", np.asfortranarray(m)), ("transposed-view", np.ascontiguousarray(m.T).T), ("strided-view", big[:, ::2])):
            mk = aa.Mask2D(mask=marr, pixel_scales=(1.0, 2.0), origin=(0.5, -1.0))
            v.ok(dom.exact(np.asarray(mk.derive_indexes.native_for_slim), ref_nfs), "native_for_slim:memory-layout", lambda: "%s mask" % lname)
            al = aa.Array2D(values=lab[u].copy(), mask=mk)
            v.ok(dom.exact(_arr(al.native), np.where(m, 0.0, lab)), "Array2D.native:memory-layout", lambda: "%s mask: %s" % (lname, _arr(al.native).tolist()))
            v.ok(dom.exact(_arr(aa.Array2D(values=np.asfortranarray(lab), mask=mk).slim), lab[u]), "Array2D.slim:memory-layout", lambda: "%s mask, fortran values" % lname)
            gl = aa.Grid2D(values=np.stack([lab[u], -lab[u]], axis=-1), mask=mk)
            v.ok(dom.exact(_arr(gl.native)[:, :, 0], np.where(m, 0.0, lab)), "Grid2D.native:memory-layout", lambda: "%s mask" % lname)

    for name, vals1 in labellings(n, salt):
        vals = vals1.reshape(h, w)
        garbage = np.where(m, 77.0 + np.arange(n).reshape(h, w), vals)
        ref_slim = vals[u]
        ref_nat = np.where(m, 0.0, vals)

        # ---- Array2D
        for store_native in (False, True):
            for form, inp in (("native", garbage.copy()), ("slim", ref_slim.copy())):
                keep = inp.copy()
                a = aa.Array2D(values=inp, mask=mask, store_native=store_native)
                tag = "Array2D[%s,%s,store_native=%s]" % (name, form, store_native)
                s, nt = _arr(a.slim), _arr(a.native)
                v.ok(dom.exact(s, ref_slim), "Array2D.slim", lambda: "%s slim=%s ref=%s" % (tag, s.tolist(), ref_slim.tolist()))
                v.ok(dom.exact(nt, ref_nat), "Array2D.native", lambda: "%s native=%s ref=%s" % (tag, nt.tolist(), ref_nat.tolist()))
                v.ok(dom.exact(_arr(a.slim.native.slim), ref_slim), "Array2D.slim-native-slim", tag)
                v.ok(dom.exact(_arr(a.native.slim.native), ref_nat), "Array2D.native-slim-native", tag)
                v.ok(a.native.shape == (h, w) and a.slim.shape == (int(u.sum()),), "Array2D.shapes", tag)
                v.ok(dom.exact(inp, keep), "Array2D.input-mutated", tag)
                st = _arr(a)
                v.ok(dom.exact(st, ref_nat if store_native else ref_slim), "Array2D.stored-form", tag)
                if name == "inj":
                    # a structure derived by arithmetic publishes slim/native forms of ITS OWN values, masked entries zero
                    a10 = a + 10.0
                    v.ok(dom.exact(_arr(a10.slim), ref_slim + 10.0), "Array2D.slim:after-arithmetic", tag)
                    v.ok(dom.exact(_arr(a10.native), np.where(m, 0.0, vals + 10.0)), "Array2D.native:after-arithmetic",
                         lambda: "%s (a+10).native=%s" % (tag, _arr(a10.native).tolist()))
                    v.ok(dom.exact(_arr(a.slim), ref_slim) and dom.exact(_arr(a.native), ref_nat), "Array2D:source-changed-by-arithmetic", tag)
        if name == "inj":
            ask = aa.Array2D(values=garbage.copy(), mask=mask, store_native=True, skip_mask=True)
            v.ok(dom.exact(_arr(ask.slim), ref_slim), "Array2D.slim:skip_mask", lambda: "%s" % _arr(ask.slim).tolist())
            v.ok(dom.exact(_arr(ask.native), ref_nat), "Array2D.native:skip_mask", lambda: "store_native=True, skip_mask=True: native=%s" % _arr(ask.native).tolist())
            v.ok(dom.exact(_arr(ask.slim.native), ref_nat), "Array2D.slim.native:skip_mask")

        # util-level functions (the anchored mechanisms)
        s_u = aa.util.array_2d.array_2d_slim_from(array_2d_native=garbage.copy(), mask_2d=m)
        v.ok(dom.exact(s_u, ref_slim), "array_2d_slim_from", lambda: "%s" % s_u)
        n_u = aa.util.array_2d.array_2d_native_from(array_2d_slim=ref_slim.copy(), mask_2d=m)
        v.ok(dom.exact(n_u, ref_nat), "array_2d_native_from", lambda: "%s" % n_u)

        # the scatter through a caller-held slim-to-native table: the table may be used any number of times
        if u.any():
            table = np.array(mask.derive_indexes.native_for_slim).copy()
            keep_t = table.copy()
            for rep in range(3):
                try:
                    n_t = aa.util.array_2d.array_2d_via_indexes_from(array_2d_slim=ref_slim.copy(), shape=(h, w), native_index_for_slim_index_2d=table)
                except Exception as e:  # noqa
                    v.fail("array_2d_via_indexes_from:table-reused", "use %d of one table: %r" % (rep + 1, e))
                    break
                v.ok(dom.exact(np.asarray(n_t), ref_nat), "array_2d_via_indexes_from" if rep == 0 else "array_2d_via_indexes_from:table-reused",
                     lambda: "use %d of one table: %s" % (rep + 1, np.asarray(n_t).tolist()))
                v.ok(dom.exact(table, keep_t), "array_2d_via_indexes_from:table-mutated", lambda: "after use %d: %s, was %s" % (rep + 1, table.tolist(), keep_t.tolist()))

        # ---- Grid2D / VectorYX2D : (y,x) pairs, second component an independent injective labelling
        gv = np.stack([vals, -2.0 * vals + 0.5], axis=-1)
        ggarb = np.where(m[:, :, None], 55.0, gv)
        gref_slim = gv[u]
        gref_nat = np.where(m[:, :, None], 0.0, gv)
        for store_native in (False, True):
            for form, inp in (("native", ggarb.copy()), ("slim", gref_slim.copy())):
                g = aa.Grid2D(values=inp, mask=mask, store_native=store_native)
                tag = "Grid2D[%s,%s,store_native=%s]" % (name, form, store_native)
                gs, gn = _arr(g.slim), _arr(g.native)
                v.ok(dom.exact(gs, gref_slim), "Grid2D.slim", lambda: "%s slim=%s ref=%s" % (tag, gs.tolist(), gref_slim.tolist()))
                v.ok(dom.exact(gn, gref_nat), "Grid2D.native", lambda: "%s native=%s ref=%s" % (tag, gn.tolist(), gref_nat.tolist()))
                v.ok(dom.exact(_arr(g.slim.native.slim), gref_slim), "Grid2D.slim-native-slim", tag)
                v.ok(dom.exact(_arr(g.native.slim.native), gref_nat), "Grid2D.native-slim-native", tag)
                v.ok(dom.exact(_arr(g), gref_nat if store_native else gref_slim), "Grid2D.stored-form", tag)
            for form, inp in (("native", ggarb.copy()), ("slim", gref_slim.copy())):
                grid = aa.Grid2D.from_mask(mask=mask)
                vec = aa.VectorYX2D(values=inp, grid=grid, mask=mask, store_native=store_native)
                tag = "VectorYX2D[%s,%s,store_native=%s]" % (name, form, store_native)
                vs, vn = _arr(vec.slim), _arr(vec.native)
                v.ok(dom.exact(vs, gref_slim), "VectorYX2D.slim", lambda: "%s slim=%s" % (tag, vs.tolist()))
                v.ok(dom.exact(vn, gref_nat), "VectorYX2D.native", lambda: "%s native=%s" % (tag, vn.tolist()))
                v.ok(dom.exact(_arr(vec.slim.native.slim), gref_slim), "VectorYX2D.slim-native-slim", tag)
                v.ok(dom.exact(_arr(vec.native.slim.native), gref_nat), "VectorYX2D.native-slim-native", tag)
        g_u = aa.util.grid_2d.grid_2d_slim_from(grid_2d_native=ggarb.copy(), mask=m)
        v.ok(dom.exact(g_u, gref_slim), "grid_2d_slim_from")
        g_n = aa.util.grid_2d.grid_2d_native_from(grid_2d_slim=gref_slim.copy(), mask_2d=m)
        v.ok(dom.exact(g_n, gref_nat), "grid_2d_native_from")
