"""C05 - the reconstruction is the true (non-negative) least-squares optimum."""
import itertools

import numpy as np

from mc import dom, fix_inv
from mc.core import V

ID = "C05"
ENGINE = "scope"
CHUNK = 4
RULE = (
    "solver cases = every SPD system A = R^T R + rho*I with R upper triangular over the stated integer alphabet "
    "(one case per matrix; inside it every right-hand side of the alphabet x {no warm start, sign-pattern warm "
    "start, every boolean warm start}); inversion cases = dataset x object list x formalism x solver flags x data "
    "sign kind; non-trivial = some unconstrained solution of the case has a negative entry and an optimal support "
    "that differs from its sign pattern (the situation the all-positive fixtures never produce)"
)
ASSUMPTIONS = [
    "KKT conditions are necessary and sufficient for the unique minimiser of a strictly convex QP over s>=0; "
    "additionally compared with brute force over all 2^n supports for the solver routine",
    "at inversion level the system (F+H, D) is the inversion's own (certified by C04/C07); forced-zero parameters are "
    "the ones the inversion itself lists (mapper edge pixels)",
]
BOUNDS = {
    "quick": "solver: n=2 and n=3, diag(R) in {1,2}, off-diagonal in {-1,0,1,2}, rho in {0,1e-3}, b in {-2,-1,0,1,3}^n, all 2^n warm starts; "
             "inversion: 40 masks x 6 object lists x 2 formalisms x 3 data kinds x solver flags",
    "thorough": "adds n=4 with off-diagonal in {-1,0,1}, b in {-1,1,3}^4, all 16 warm starts; inversion: all masks of the C04 quick family",
}

TOL = 1e-7


def cases(tier, seed):
    for n, offs, rhos in ((2, (-1, 0, 1, 2), (0.0, 1e-3)), (3, (-1, 0, 1, 2), (0.0, 1e-3))):
        nd = n * (n - 1) // 2
        for di, diag in enumerate(itertools.product((1, 2), repeat=n)):
            for oi, off in enumerate(itertools.product(offs, repeat=nd)):
                for rho in rhos:
                    yield ["solver", n, list(diag), list(off), rho, "b5"]
    if tier == "thorough":
        n = 4
        for diag in itertools.product((1, 2), repeat=n):
            for off in itertools.product((-1, 0, 1), repeat=6):
                yield ["solver", n, list(diag), list(off), 0.0, "b3"]
    # inversion level
    fam = []
    for bits in dom.interior_mask_cases((5, 5), (3, 3)):
        m = dom.interior_mask((5, 5), (3, 3), bits)
        npx = int((~m).sum())
        if npx >= 3 and (tier == "thorough" and bits % 4 == 0 or bits % 13 == 0):
            fam.append(bits)
    lists = [
        [["rectA"], [True]],
        [["rectB", "func"], [True, False]],
        [["del"], [True]],
        [["funcS", "rectA"], [False, True]],
        [["rectA", "del"], [True, True]],
        [["func"], [False]],
    ]
    for bits in fam:
        for li, ol in enumerate(lists):
            for dk in fix_inv.DATA_KINDS:
                yield ["inv", [5, 5], [3, 3], bits, "nonneg" if (bits + li) % 2 else "signed", 1 + bits % 2, ol, dk, seed]
    # the same datasets expressed in other units (data and noise scaled together, regularization scaled to match): the
    # system is an exact rescaling, so the solution must be the rescaled optimum
    for bi, bits in enumerate(fam):
        for li, ol in enumerate(lists):
            dk = fix_inv.DATA_KINDS[(bi + li) % 3]
            units = (1e-5, 3e3)[(bi + li) % 2]
            yield ["inv", [5, 5], [3, 3], bits, "nonneg" if (bits + li) % 2 else "signed", 1 + bits % 2, ol, dk, seed, units]


# ----------------------------------------------------------------------------- solver routine


def kkt(A, b, s, tol=TOL):
    g = A @ s - b
    scale = max(1.0, np.abs(A).max() * max(1.0, np.abs(s).max()), np.abs(b).max())
    pos = s > tol
    ok_feas = bool((s >= -tol).all())
    ok_stat = bool((np.abs(g[pos]) <= tol * scale).all())
    ok_dual = bool((g[~pos] >= -tol * scale).all())
    return ok_feas and ok_stat and ok_dual, (ok_feas, ok_stat, ok_dual)


def brute(A, b):
    n = len(b)
    best, bs = None, None
    for S in itertools.product((False, True), repeat=n):
        S = np.array(S)
        s = np.zeros(n)
        if S.any():
            s[S] = np.linalg.solve(A[S][:, S], b[S])
            if (s < -1e-12).any():
                continue
        f = 0.5 * s @ A @ s - b @ s
        if best is None or f < best - 1e-13:
            best, bs = f, s
    return bs


SOLVER_SCALES = ((1e10, 1e5), (1e-8, 1e-4), (1e6, 1e9))  # (factor on A, factor on b): systems of datasets in other units


def run_solver(v, case):
    from autoarray.util.fnnls import fnnls_cholesky
    from autoarray.inversion.inversion import inversion_util as _iu
    import autoarray as aa

    def _settings(pin):
        return aa.SettingsInversion(use_positive_only_solver=True, positive_only_uses_p_initial=pin)

    _, n, diag, off, rho, bkind = case
    R = np.zeros((n, n))
    R[np.diag_indices(n)] = diag
    R[np.triu_indices(n, 1)] = off
    A = R.T @ R + rho * np.eye(n)
    balpha = (-2, -1, 0, 1, 3) if bkind == "b5" else (-1, 1, 3)
    warm_all = [np.array(p, dtype=bool) for p in itertools.product((False, True), repeat=n)]
    classes = set()
    nontriv = False
    for bt in itertools.product(balpha, repeat=n):
        b = np.array(bt, dtype=float)
        u = np.linalg.solve(A, b)
        sref = brute(A, b)
        sup = tuple((sref > 1e-9).tolist())
        sgn = tuple((u > 0).tolist())
        classes.add((sgn, sup))
        if (u < 0).any() and sup != sgn:
            nontriv = True
        okr, _ = kkt(A, b, sref)
        if not okr:
            raise AssertionError("reference minimiser fails KKT: harness error %r %r" % (A, b))
        starts = [("cold", np.zeros(0, dtype=int)), ("sign", u > 0)] + [("warm", p) for p in warm_all]
        # the inversion-level wrapper around the routine (builds the warm start itself from the unconstrained solution)
        for pin in (False, True):
            cls = "reconstruction_positive_only_from:warm-start" if pin else "reconstruction_positive_only_from"
            try:
                sw = np.asarray(_iu.reconstruction_positive_only_from(data_vector=b.copy(), curvature_reg_matrix=A.copy(), settings=_settings(pin)), dtype=float)
            except Exception as e:
                v.fail(cls + ":exception", "A=%s b=%s: %r" % (A.tolist(), bt, e))
                continue
            okw, partsw = kkt(A, b, sw)
            v.ok(okw and sw.shape == sref.shape and np.allclose(sw, sref, rtol=1e-6, atol=1e-6 * max(1.0, np.abs(sref).max())), cls,
                 lambda: "A=%s b=%s -> s=%s, optimum=%s (feasible,stationary,dual)=%s" % (A.tolist(), bt, sw.tolist(), sref.tolist(), partsw))
        for kind, P in starts:
            cls = "fnnls:cold-start" if kind == "cold" else "fnnls:warm-start"
            try:
                s = fnnls_cholesky(A.copy(), b.copy(), P_initial=P.copy())
            except Exception as e:
                v.fail(cls + ":exception", "A=%s b=%s P=%s: %r" % (A.tolist(), bt, P.tolist(), e))
                continue
            s = np.asarray(s, dtype=float)
            ok, parts = kkt(A, b, s)
            close = s.shape == sref.shape and np.allclose(s, sref, rtol=1e-6, atol=1e-6 * max(1.0, np.abs(sref).max()))
            v.ok(ok and close, cls,
                 lambda: "A=%s b=%s P_initial=%s -> s=%s, optimum=%s (feasible,stationary,dual)=%s" % (A.tolist(), bt, P.tolist(), s.tolist(), sref.tolist(), parts))
        # the same system in other units: minimiser of (1/2) s^T (aA) s - (cb)^T s over s>=0 is (c/a) * minimiser of the original
        for a, c in SOLVER_SCALES:
            want = sref * (c / a)
            for kind, P in starts[:2]:
                cls = "fnnls:scaled-system:" + ("cold-start" if kind == "cold" else "warm-start")
                try:
                    s = np.asarray(fnnls_cholesky(A * a, b * c, P_initial=P.copy()), dtype=float)
                except Exception as e:
                    v.fail(cls + ":exception", "A=%g*%s b=%g*%s P=%s: %r" % (a, A.tolist(), c, bt, P.tolist(), e))
                    continue
                v.ok(s.shape == want.shape and np.allclose(s, want, rtol=1e-6, atol=1e-6 * max(c / a, np.abs(want).max())), cls,
                     lambda: "A=%g*%s b=%g*%s P_initial=%s -> s=%s, optimum=%s" % (a, A.tolist(), c, bt, P.tolist(), s.tolist(), want.tolist()))
            for pin in (False, True):
                cls = "reconstruction_positive_only_from:scaled-system" + (":warm-start" if pin else "")
                try:
                    sw = np.asarray(_iu.reconstruction_positive_only_from(data_vector=b * c, curvature_reg_matrix=A * a, settings=_settings(pin)), dtype=float)
                except Exception as e:
                    v.fail(cls + ":exception", "A=%g*%s b=%g*%s: %r" % (a, A.tolist(), c, bt, e))
                    continue
                v.ok(sw.shape == want.shape and np.allclose(sw, want, rtol=1e-6, atol=1e-6 * max(c / a, np.abs(want).max())), cls,
                     lambda: "A=%g*%s b=%g*%s -> s=%s, optimum=%s" % (a, A.tolist(), c, bt, sw.tolist(), want.tolist()))
    v.nontrivial = nontriv
    v.outcome = "solver:n%d:classes%d" % (n, len(classes))
    return classes


# ----------------------------------------------------------------------------- inversion level


def run_inv(v, case):
    _, frame, ks, bits, kind, sub, (kinds, regs), dk, seed = case[:9]
    units = case[9] if len(case) > 9 else 1.0
    neg_seen = False
    sup_differs = False
    n_un = int((~dom.interior_mask(tuple(frame), tuple(ks), bits)).sum())
    img_zero = [n_un // 2]  # image pixel whose source pixels the settings force to zero
    for wt in (False, True):
        for positive, p_init, force in ((False, False, False), (True, False, False), (True, True, False), (True, False, True), (True, True, True),
                                        (True, False, "image"), (True, True, "image")):
            fx = fix_inv.make_dataset(frame, ks, bits, psf_kind=kind, seed=seed, sub=sub, data_kind=dk, units=units)
            aa = fx["aa"]
            objs = [fix_inv.make_obj(fx, k, reg=r, seed=seed, coefficient=1.0 / units) for k, r in zip(kinds, regs)]
            st = fix_inv.settings(aa, wt, positive=positive, p_initial=p_init, force_edge=bool(force), diag=1e-3 / units ** 2)
            if force == "image":
                st.force_edge_image_pixels_to_zeros = True
                st.image_pixels_source_zero = list(img_zero)
            inv = aa.Inversion(dataset=fx["ds"], linear_obj_list=objs, settings=st)
            name = "%s/pos=%s/pinit=%s/force=%s%s" % ("wtilde" if wt else "mapping", positive, p_init, force, "" if units == 1.0 else "/units=%g" % units)
            # in other units the system is an exact rescaling: bring it back to units of one before certifying
            A = np.array(inv.curvature_reg_matrix, dtype=float) * units ** 2
            D = np.array(inv.data_vector, dtype=float) * units
            if units != 1.0 and np.linalg.cond(A) > 1e11:
                # two mappers that can both represent a constant source are separated only by the library's fixed 1e-8 ridge,
                # which is negligible in small units: the system is numerically singular, outside the property's quantifier
                continue
            try:
                s_raw = np.array(inv.reconstruction, dtype=float)
                s = s_raw / units
            except aa.exc.InversionException:
                # permitted outcome for the unconstrained solver on a singular system only (and, for the positive-only solver,
                # when the settings force every parameter to zero so that no system is left to solve)
                sing = np.linalg.cond(A) > 1e12
                nothing_left = bool(force) and len(_forced_zero_ids(aa, objs, force, img_zero)) == len(D)
                v.ok((sing and not positive) or (positive and nothing_left), "reconstruction:spurious-InversionException", name)
                continue
            scale = max(1.0, np.abs(A).max() * max(1.0, np.abs(s).max()), np.abs(D).max())
            if not positive:
                res = A @ s - D
                v.ok(np.abs(res).max() <= 1e-7 * scale, "unconstrained:residual", lambda: "%s |As-D|=%g" % (name, np.abs(res).max()))
                if (s < -1e-9).any():
                    neg_seen = True
                u = s
            else:
                # forced-zero parameters from each mapper's own edge list / mapping matrix and its offset in the parameter vector
                zero_ids = _forced_zero_ids(aa, objs, force, img_zero)
                if force:
                    listed = sorted(set(int(i) for i in inv.mapper_edge_pixel_list))
                    if force == "image":
                        listed = sorted(set(listed) | set(int(i) for a in inv.mapper_zero_pixel_list for i in np.atleast_1d(a)))
                    v.ok(listed == zero_ids, "positive-only:forced-zero-set", lambda: "%s inversion lists %s, objects and offsets give %s" % (name, listed, zero_ids))
                keep = np.ones(len(D), dtype=bool)
                keep[zero_ids] = False
                v.ok(bool((s[~keep] == 0.0).all()), "positive-only:forced-zero-not-zero", name)
                Ar, Dr, sr = A[keep][:, keep], D[keep], s[keep]
                ok, parts = kkt(Ar, Dr, sr)
                cls = "positive-only:warm-start:not-optimal" if p_init else "positive-only:not-optimal"
                v.ok(ok, cls, lambda: "%s (feasible,stationary,dual)=%s s=%s" % (name, parts, np.round(sr, 6).tolist()[:12]))
                if len(Dr):
                    ur = np.linalg.solve(Ar, Dr)
                    if (ur < 0).any():
                        neg_seen = True
                        if tuple(ur > 0) != tuple(sr > 1e-9):
                            sup_differs = True
            # per-object model data
            B, widths = fix_inv.reference_B(fx, objs)
            try:
                dct = inv.mapped_reconstructed_data_dict
                rd = inv.reconstruction_dict
                total = np.zeros(fx["n"])
                off = 0
                for o, wdt in zip(objs, widths):
                    part = np.array(dct[o], dtype=float)
                    want = B[:, off:off + wdt] @ s_raw[off:off + wdt]
                    v.ok(np.allclose(part, want, rtol=1e-8, atol=1e-9 * max(units, np.abs(want).max())), "mapped_reconstructed_data_dict",
                         lambda: "%s object %s maxdiff=%s" % (name, type(o).__name__, dom.maxdiff(part, want)))
                    v.ok(dom.exact(np.array(rd[o]), s_raw[off:off + wdt]), "reconstruction_dict", name)
                    total += part
                    off += wdt
                tot = np.array(inv.mapped_reconstructed_data, dtype=float)
                v.ok(np.allclose(tot, total, rtol=1e-10, atol=1e-12 * max(units, np.abs(total).max())), "mapped_reconstructed_data:sum", name)
            except Exception as e:
                v.fail("mapped_reconstructed_data:exception", "%s %r" % (name, e))
    if units != 1.0:
        v.nontrivial = neg_seen and sup_differs
        v.outcome = "inv:%s:units:neg=%s:supdiff=%s" % (dk, neg_seen, sup_differs)
        return
    # ---- history: the same linear objects used by several successive inversions (forced-zero edge pixels must be those of
    # each object as freshly built; nothing an earlier inversion did may change a later one)
    fx = fix_inv.make_dataset(frame, ks, bits, psf_kind=kind, seed=seed, sub=sub, data_kind=dk)
    aa = fx["aa"]
    shared = [fix_inv.make_obj(fx, k, reg=r, seed=seed) for k, r in zip(kinds, regs)]
    plans = [list(range(len(shared))), [0], list(range(len(shared)))]
    if len(shared) > 1:
        plans.insert(1, list(reversed(range(len(shared)))))
    for pi, idxs in enumerate(plans):
        objs = [shared[i] for i in idxs]
        fresh = [fix_inv.make_obj(fx, kinds[i], reg=regs[i], seed=seed) for i in idxs]
        st = fix_inv.settings(aa, True, positive=True, p_initial=False, force_edge=True, diag=1e-3)
        inv = aa.Inversion(dataset=fx["ds"], linear_obj_list=objs, settings=st)
        ref = aa.Inversion(dataset=fx["ds"], linear_obj_list=fresh, settings=fix_inv.settings(aa, True, positive=True, p_initial=False, force_edge=True, diag=1e-3))
        try:
            s1, s0 = np.array(inv.reconstruction, dtype=float), np.array(ref.reconstruction, dtype=float)
            z1, z0 = sorted(int(i) for i in inv.mapper_edge_pixel_list), sorted(int(i) for i in ref.mapper_edge_pixel_list)
            v.ok(z1 == z0, "positive-only:forced-zero-set:reused-objects", lambda: "use %d of shared objects %s: forced-zero ids %s, freshly built objects give %s" % (pi, idxs, z1, z0))
            v.ok(s1.shape == s0.shape and np.allclose(s1, s0, rtol=1e-7, atol=1e-9 * max(1.0, np.abs(s0).max())), "reconstruction:reused-objects",
                 lambda: "use %d of shared objects %s: reconstruction differs from freshly built objects by %s" % (pi, idxs, dom.maxdiff(s1, s0)))
        except Exception as e:
            v.fail("reconstruction:reused-objects:exception", "use %d of shared objects %s: %r" % (pi, idxs, e))
    # ---- configuration: an explicit setting always wins over the configured default, whatever that default is
    from autoconf import conf

    cfg = conf.instance["general"]["inversion"]
    saved = {k: cfg[k] for k in ("use_positive_only_solver", "positive_only_uses_p_initial", "no_regularization_add_to_curvature_diag_value")}
    try:
        for cpos, cpin, cdiag in ((True, True, 1e-3), (False, False, 1e-8), (True, False, 0.5)):
            cfg["use_positive_only_solver"], cfg["positive_only_uses_p_initial"], cfg["no_regularization_add_to_curvature_diag_value"] = cpos, cpin, cdiag
            for positive in (False, True):
                fxc = fix_inv.make_dataset(frame, ks, bits, psf_kind=kind, seed=seed, sub=sub, data_kind=dk)
                objs = [fix_inv.make_obj(fxc, k, reg=r, seed=seed) for k, r in zip(kinds, regs)]
                st = fix_inv.settings(aa, False, positive=positive, p_initial=positive, force_edge=False, diag=1e-3)
                inv = aa.Inversion(dataset=fxc["ds"], linear_obj_list=objs, settings=st)
                A = np.array(inv.curvature_reg_matrix, dtype=float)
                D = np.array(inv.data_vector, dtype=float)
                sol = np.array(inv.reconstruction, dtype=float)
                tag = "config(positive=%s,p_initial=%s,diag=%g) explicit(positive=%s,diag=1e-3)" % (cpos, cpin, cdiag, positive)
                if positive:
                    okk, parts = kkt(A, D, sol)
                    v.ok(okk, "settings-vs-config:positive-only", lambda: "%s %s" % (tag, parts))
                else:
                    scale = max(1.0, np.abs(A).max() * max(1.0, np.abs(sol).max()), np.abs(D).max())
                    v.ok(np.abs(A @ sol - D).max() <= 1e-7 * scale, "settings-vs-config:unconstrained",
                         lambda: "%s: |As-D|=%g (explicit use_positive_only_solver=False must give the unconstrained solution)" % (tag, np.abs(A @ sol - D).max()))
                Bc, widths = fix_inv.reference_B(fxc, objs)
                Fr = fix_inv.normal_equations(Bc, fxc["data"], fxc["noise"])[1]
                off = 0
                for wdt, r in zip(widths, regs):
                    if not r:
                        Fr[range(off, off + wdt), range(off, off + wdt)] += 1e-3
                    off += wdt
                Fc = np.array(inv.curvature_matrix, dtype=float)
                v.ok(Fc.shape == Fr.shape and np.allclose(Fc, Fr, rtol=1e-9, atol=1e-9 * max(1.0, np.abs(Fr).max())), "settings-vs-config:diag-value",
                     lambda: "%s: curvature differs by %s" % (tag, dom.maxdiff(Fc, Fr)))
    finally:
        for k, val in saved.items():
            cfg[k] = val
    v.nontrivial = neg_seen and sup_differs
    v.outcome = "inv:%s:neg=%s:supdiff=%s" % (dk, neg_seen, sup_differs)


def _forced_zero_ids(aa, objs, force, img_zero):
    zero_ids, offp = set(), 0
    for o in objs:
        if force and isinstance(o, aa.AbstractMapper):
            zero_ids.update(offp + int(i) for i in o.edge_pixel_list)
            if force == "image":
                mm = np.array(o.mapping_matrix, dtype=float)
                zero_ids.update(offp + int(j) for j in np.nonzero((mm[img_zero] != 0).any(axis=0))[0])
        offp += int(o.params)
    return sorted(zero_ids)


def run_case(case):
    v = V(ID)
    if case[0] == "solver":
        run_solver(v, case)
    else:
        run_inv(v, case)
    return v.result()
