"""C20 - triangle up-sampling tiles exactly; neighbourhoods and selections are faithful.

Representations under test (numpy variants only, the jax_* variants need jax which is absent):
  * ``CoordinateArrayTriangles`` ("coord"): integer lattice coordinates + side length + offsets + flip state
  * ``ArrayTriangles``           ("array"): vertex array + index triples

Reference model (numpy / plain Python, independent of autoarray): midpoint subdivision, mirror reflection of
the apex in the opposite edge, cross-product (shoelace) area, edge-function point-in-triangle test.  Triangle
sets are compared as SETS OF GEOMETRIC TRIANGLES: every vertex of every array involved is assigned a cluster
id (points closer than 1e-9 x side length are one vertex), a triangle is the sorted triple of its vertex ids.
This is the latitude the property states for coincident vertices: ``ArrayTriangles.neighborhood`` only
de-duplicates float vertices bitwise and may therefore list one geometric triangle several times.

Case kinds: coord / arrep / shape / limits (the equilateral lattice at ordinary scale), scale / refine (tiny and huge side
lengths, sets reached by repeated up-sampling), fan / strip / patch (irregular vertex-array meshes), hist (a derived set is
kept while other calls are made on its parent and on other sets of the same size, then inspected).
"""
import itertools
import math

import numpy as np

from mc import dom
from mc.core import V

ID = "C20"
ENGINE = "scope"
CHUNK = 16
REL = 1e-9  # coincident-vertex tolerance relative to the side length, and relative area tolerance
MARGIN = 1e-6  # reference points closer than this (barycentric) to an edge are not decided

RULE = (
    "cases: (coord) every non-empty subset of a 3x3 window of integer lattice coordinates x window origins of both "
    "parities x flipped x side length x (x_offset,y_offset) menu, each examined as CoordinateArrayTriangles, as the "
    "ArrayTriangles of the same set, one and two operations deep (up_sample / neighborhood chains) and after an affine "
    "with_vertices; every index selection (ordered, without repetition, size 0..3) when the set has <=6 "
    "triangles; (arrep) the same subsets written directly as ArrayTriangles(indices, vertices) on an integer vertex "
    "lattice: vertex arrays of dtype int64 / int32 / integer-valued float32 (identity and a skew integer map, so that "
    "midpoints are half-integers) under the up_sample / for_indexes / containment laws, and read-then-derive histories "
    "inside the one case (each of 10 reads of a set, then with_vertices / for_indexes, derived set and parent re-observed "
    "in rotating order; a second derivation from the derived, already read set); "
    "(shape) the same subsets x 7x7 reference-point lattice x 9 shapes, plus squares of half extents "
    "{(0.52,0.52),(0.45,0.65),(0.65,0.45)} x side centred 6% inside every vertex and (0.2,0.35) x side 6% inside every edge "
    "midpoint of every triangle (at most 9 anchor triangles per set); (limits) for_limits_and_scale menu "
    "for both representations with the same laws; "
    "(scale) every subset of at most 2 triangles and the full 3x3 window at side lengths from 1e-5 to 1e3 (without offset, with "
    "an offset proportional to the side, with the absolute offset (2,3)): all laws one operation deep and the containment rule "
    "for the 9 shapes on a 5x5 reference-point lattice plus the anchored squares; (refine) sets reached by repeated "
    "up-sampling: from every set of <=2 triangles of a 2x2 window, 18 times up_sample -> for_indexes(children not strictly "
    "outside a fixed point, decided by the reference model) -> neighborhood, in both representations, with the subdivision, "
    "selection, neighbourhood laws and the containment rule for the 9 shapes at every level (side down to 3.8e-6); "
    "(fan / strip / patch) irregular vertex-array meshes written directly as ArrayTriangles(indices, vertices): every open and "
    "closed fan over every subset of an 8-point ring about a hub (integer ring, mirrored doubled ring about another hub, seeded "
    "float ring with permuted vertex array), every non-degenerate triangle strip of 1..4 triangles whose new vertex advances by {1,2,3} with "
    "height jitter {0,1}, every 3x3-window lattice patch whose vertices were replaced through with_vertices (integer non-affine "
    "map, seeded affine map, seeded per-vertex jitter, seeded unrelated positions): neighbourhood (of the mesh, of its "
    "neighbourhood and of its up-sampled mesh) = originals + the three edge-midpoint reflections of each, compared as geometric "
    "sets, plus subdivision, selection, area and containment laws; (hist) histories inside one case, both representations: a "
    "derived set (up_sample / neighborhood / for_indexes) is kept unread or completely read, then one of {up_sample, "
    "neighborhood, for_indexes, containing_indices} is called on {its parent, another set with as many triangles as the parent, "
    "another set with as many triangles as the kept set} (12 single interleavings and all 12 in a row), then all 11-13 "
    "observables of the kept set are read in rotating order and compared bitwise with the values a twin derived from an equal "
    "fresh parent had before the other calls (the twin is compared with the reference model, and so is the kept set after the "
    "12-call history). non-trivial = the set holds triangles of both orientations and at "
    "least two that share an edge (so parity branches and de-duplication both matter); for shape / scale cases = some "
    "reference point lies strictly inside a triangle and some lies outside all of them; for refine = all levels reached with a "
    "reference point strictly inside; for meshes = at least two triangles; hist cases always"
)
ASSUMPTIONS = [
    "a shape's reference point is the 2-vector (first, second) = (Point.x, Point.y) / centre of a Square / mean of the "
    "vertices of a Triangle or Polygon, compared component-wise with triangle vertices (v[0], v[1]) - the convention "
    "used by Point.mask itself and by the callers (ArrayTriangles.for_limits_and_scale stores (y, x) pairs, "
    "CoordinateArrayTriangles (x, y) pairs; both are treated as abstract 2-vectors)",
    "the 3x3 window at origins of both parities reaches every local configuration of the parity-dependent child / "
    "neighbour offsets (each triangle's children and neighbours depend only on its own coordinate and flip state; "
    "subsets exercise the de-duplication and the normal/flipped partition ordering)",
    "edge-reflected neighbour of an equilateral triangle = mirror image of the apex in the opposite edge; of a general "
    "triangle (fan / strip / patch cases only) = its reflection in the midpoint of that edge (apex -> b + c - a), the congruent "
    "triangle on the other side of the edge: this is the reading that coincides with the mirror image on the equilateral "
    "lattice, is carried along by affine maps of a lattice (with_vertices) and needs no equilateral input",
    "the side length is an arbitrary positive float: laws are demanded unchanged from 1e-5 to 1e3 and down to 3.8e-6 (quick) / "
    "1.5e-8 (thorough) along refinement chains; in those cases the coincident-vertex tolerance is max(1e-9 x side, 32 ulp of "
    "the largest coordinate), the containment margin stays 1e-6 barycentric (relative to the triangle, so scale-free)",
    "a derived set is a value: what any observable of it returns does not depend on calls made in between on its parent or "
    "on other sets (of the same size or not); two sets derived by the same call from equal fresh parents agree bitwise",
    "ArrayTriangles may list a geometric triangle more than once (round-off distinct vertices); only the set of "
    "distinct geometric triangles is compared, duplicates are recorded in the outcome census, not flagged",
    "reference points within 1e-6 (barycentric) of a triangle edge are undecided for that triangle and skipped",
    "integer and integer-valued float32 vertex arrays are legitimate vertex arrays: all their midpoints are multiples of "
    "1/2 and exact in float32 and float64 alike, so the exact-midpoint law is demanded with the same 1e-9 tolerance",
    "a set derived with with_vertices / for_indexes is described by the vertices / selection it was given, whatever was "
    "read from its parent before (triangles, area, containing_indices, len, means, up_sample, neighborhood, for_indexes, "
    "iteration); the parent keeps describing its own vertices (with_vertices is documented to create a new set)",
    "checks that read the statement slightly generously, each under its own finding class so it can be adjudicated "
    "separately: for_indexes keeps the order of the selection (:order); a bare Point is not reported for triangles it "
    "is strictly outside of (Point:spurious); CoordinateArrayTriangles.neighborhood lists no triangle twice "
    "(coord.neighborhood:duplicates, its docstring promises uniqueness); for_limits_and_scale yields "
    "equilateral triangles of the requested side whose vertices reach the limits (for_limits_and_scale:*); duplicate rows "
    "returned by ArrayTriangles.for_limits_and_scale are outside the statement and only counted in the census (limdup)",
]
BOUNDS = {
    "quick": "coord: 511 subsets of a 3x3 window x origins {(-1,-1),(0,-1)} x flipped {F,T} x side {1,0.5} x offsets "
    "{(0,0),(0.3,-0.7),seeded}; chains of depth 2; all ordered index selections of size<=3 on sets of <=6 triangles; "
    "arrep: 511 subsets x 2 origins x {int64, int32, float32 identity map, int64 skew map} + 10 read kinds x "
    "{with_vertices, parent, second with_vertices, for_indexes}; "
    "shape: 511 subsets x 2 origins x {(unflipped, side 1, no offset), (flipped, side 0.5, seeded offsets)} x 49 reference points x 9 shapes x 2 "
    "representations + <=108 vertex/edge-anchored squares per set; limits: 12 limit boxes x 3 scales x 2 representations; "
    "scale: 46 subsets (<=2 triangles, full window) x side {1e-5,1e-4,1e-3,1e-2,1e2,1e3} x 3 (origin, flipped, offset) combos; "
    "refine: 10 start sets x 2 origins x flipped x 3 points x 18 levels; fan: 3 rings x all valid subsets of 8 rim points x "
    "{open, closed} (about 1100); strip: 6^n step codes, n<=4 (1554); patch: 511 subsets x 2 origins x 4 moves (all moves up to 4 "
    "triangles, one rotating move above: 2552); hist: 46 subsets x 2 origins x 3 kept derivations x {unread, read} x 13 "
    "interleavings x 2 representations",
    "thorough": "coord: 511 subsets of a 3x3 window x 4 origins + 4095 subsets of a 4x3 window x 2 origins, x flipped "
    "x side {1,0.5,seeded} x 4 offsets; arrep: 511 subsets x 4 origins; shape: 511 subsets x 4 origins x flipped x 4 (side,offset) combos; limits: 12 boxes x 5 scales; "
    "scale: 130 subsets (<=3 triangles, full window) x 13 sides (1e-6..1e4 and 3 seeded mantissas) x 6 combos; refine: 26 levels; "
    "strip: n<=5 x {integer, seeded affine image}; patch: 511 subsets x 4 origins x 4 moves; hist: 130 subsets x 2 origins x 2 parameter sets",
}

# --------------------------------------------------------------------------------------------- domains


def _subsets(ncell):
    return sorted(range(1, 2 ** ncell), key=lambda b: (bin(b).count("1"), b))


def cases(tier, seed):
    r = dom.rng(seed, "c20-menus")
    sx, sy = (round(float(x), 6) for x in r.uniform(-1.0, 1.0, 2))
    sside = round(float(r.uniform(0.3, 2.0)), 4)
    if tier == "quick":
        origins = [(-1, -1), (0, -1)]
        sides = [1.0, 0.5]
        offsets = [(0.0, 0.0), (0.3, -0.7), (sx, sy)]
        big = []
        shape_params = [(0, 1.0, 0.0, 0.0), (1, 0.5, sx, sy)]
        scales = [0.7, 1.0, round(0.35 + 0.3 * sside / 2.0, 4)]
    else:
        origins = [(-1, -1), (0, -1), (-4, 3), (6, 2)]
        sides = [1.0, 0.5, sside]
        offsets = [(0.0, 0.0), (0.3, -0.7), (sx, sy), (-sy * 3.0, sx * 5.0)]
        big = [(-2, -1), (1, -1)]
        shape_params = [(fl, sd, a, b) for fl in (0, 1)
                        for (sd, a, b) in [(1.0, 0.0, 0.0), (0.5, sx, sy), (sside, 0.3, -0.7), (1.0, -sy * 3.0, sx * 5.0)]]
        scales = [0.7, 1.0, round(0.35 + 0.3 * sside / 2.0, 4), 0.45, 1.6]

    # simplest first: by number of triangles; the three kinds of case of one subset are interleaved so that a run cut
    # short by a wall-clock budget has still seen every kind on all the small sets
    for bits in _subsets(9):
        for (ox, oy) in origins:
            yield ["arrep", 3, 3, ox, oy, bits, int(seed)]
            for fl in (0, 1):
                for side in sides:
                    for (xo, yo) in offsets:
                        yield ["coord", 3, 3, ox, oy, bits, fl, side, xo, yo, int(seed)]
            for (fl, side, xo, yo) in shape_params:
                yield ["shape", 3, 3, ox, oy, bits, fl, side, xo, yo, int(seed)]
    boxes = [  # (y_min, y_max, x_min, x_max)
        (-1.0, 1.0, -1.0, 1.0),
        (0.0, 1.0, 0.0, 1.0),
        (-0.3, 0.9, -1.1, 0.4),
        (0.0, 0.5, 0.0, 2.0),
        (-2.0, -1.0, 1.0, 2.0),
        (1.0, 2.2, -2.0, -0.7),
        (-1.7, -0.2, -1.9, -0.1),
        (0.25, 1.3, 0.15, 0.8),
        (-0.05, 0.05, -1.0, 1.0),
        (-1.0, 1.0, -0.05, 0.05),
        (round(sy - 0.6, 6), round(sy + 0.7, 6), round(sx - 0.8, 6), round(sx + 0.5, 6)),
        (round(3.0 * sx, 6), round(3.0 * sx + 1.1, 6), round(-2.0 * sy, 6), round(-2.0 * sy + 0.9, 6)),
    ]
    lim = [(box, sc) for box in boxes for sc in scales]
    lim.sort(key=lambda bs: ((bs[0][1] - bs[0][0] + bs[1]) * (bs[0][3] - bs[0][2] + bs[1]) / bs[1] ** 2, bs))  # fewest triangles first
    for (box, sc) in lim:
        for rep in ("array", "coord"):
            yield ["limits", rep, box[0], box[1], box[2], box[3], sc, int(seed)]
    yield from scale_cases(tier, seed, sx, sy, sside)
    yield from mesh_cases(tier, seed)
    yield from hist_cases(tier, seed, sx, sy, sside)
    for bits in _subsets(12) if big else []:
        for (ox, oy) in big:
            for fl in (0, 1):
                yield ["coord", 4, 3, ox, oy, bits, fl, 1.0, sx, sy, int(seed)]


def _small_subsets(ncell, kmax):
    full = 2 ** ncell - 1
    return [b for b in _subsets(ncell) if bin(b).count("1") <= kmax] + [full]


SCALE_SIDES = {
    "quick": [1e-5, 1e-4, 1e-3, 1e-2, 1e2, 1e3],
    "thorough": [1e-6, 1e-5, 1e-4, 1e-3, 1e-2, 1e-1, 1e1, 1e2, 1e3, 1e4],
}
REFINE_LEVELS = {"quick": 18, "thorough": 26}


def scale_cases(tier, seed, sx, sy, sside):
    """(S) the same lattice sets at tiny and huge side lengths, and sets reached by repeated up-sampling."""
    sides = list(SCALE_SIDES[tier])
    if tier != "quick":
        sides += [round(sside * 1e-5, 12), round(sside * 1e-3, 10), round(sside * 1e3, 3)]
    # (origin, flipped, offset kind): 0 = no offset, 1 = seeded offset in units of the side, 2 = absolute offset (2, 3)
    combos = [(-1, -1, 0, 0), (-1, -1, 1, 1), (0, -1, 0, 2)]
    if tier != "quick":
        combos += [(0, -1, 1, 0), (-4, 3, 0, 1), (6, 2, 1, 2)]
    for bits in _small_subsets(9, 2 if tier == "quick" else 3):
        for side in sides:
            for (ox, oy, fl, ok) in combos:
                xo, yo = [(0.0, 0.0), (sx * side, sy * side), (2.0, 3.0)][ok]
                yield ["scale", 3, 3, ox, oy, bits, fl, side, xo, yo, int(seed)]
    # refinement chains: up_sample -> triangles containing a fixed point -> neighborhood -> up_sample -> ...
    for bits in _subsets(4):
        if bin(bits).count("1") > 2:
            continue
        for (ox, oy) in [(-1, -1), (0, -1)]:
            for fl in (0, 1):
                side0, xo, yo = [(1.0, 0.0, 0.0), (sside, sx, sy)][(bits + fl) % 2]
                yield ["refine", 2, 2, ox, oy, bits, fl, side0, xo, yo, REFINE_LEVELS[tier], int(seed)]


# ring of candidate rim points around a hub, in increasing polar angle (integer, irregular radii)
FAN_RING = [(5, 1), (3, 4), (-1, 5), (-4, 2), (-3, -2), (-2, -4), (0, -2), (4, -3)]
STRIP_STEPS = [(1, 0), (2, 0), (3, 0), (1, 1), (2, 1), (3, 1)]  # (advance along the row, height jitter) of one new vertex
STRIP_MAX = {"quick": 4, "thorough": 5}
PATCH_MOVES = 4


def fan_ring(ring, seed):
    """-> (hub, rim points in increasing polar angle).  ring 0: integers; ring 1: the same integers about another hub;
    ring 2: seeded floats."""
    if ring == 0:
        return np.array([0.0, 0.0]), np.array(FAN_RING, float)
    if ring == 1:
        hub = np.array([7.0, -3.0])
        return hub, np.array(FAN_RING, float)[::-1] * np.array([1.0, -1.0]) * 2.0 + hub  # mirrored (still increasing angle), doubled
    r = dom.rng(seed, "c20-fan")
    ang = np.deg2rad(45.0 * np.arange(8) + r.uniform(-15.0, 15.0, 8))
    rad = r.uniform(1.5, 5.0, 8)
    hub = np.round(r.uniform(-2.0, 2.0, 2), 4)
    return hub, np.round(np.stack([rad * np.cos(ang), rad * np.sin(ang)], axis=1), 4) + hub


def fan_valid(ring, bits, closed, seed):
    hub, rim = fan_ring(ring, seed)
    pts = [rim[k] - hub for k in range(8) if (bits >> k) & 1]
    if len(pts) < (3 if closed else 2):
        return False
    pairs = list(zip(pts[:-1], pts[1:])) + ([(pts[-1], pts[0])] if closed else [])
    for a, b in pairs:
        if a[0] * b[1] - a[1] * b[0] <= 0.05 * math.hypot(*a) * math.hypot(*b):  # consecutive rim points turn by (0, pi)
            return False
    return True


def strip_points(n, code):
    pts = [(0, 0), (1, 3)]
    for j in range(n):
        step, jit = STRIP_STEPS[code % len(STRIP_STEPS)]
        code //= len(STRIP_STEPS)
        pts.append((pts[-2][0] + step, (0 if len(pts) % 2 == 0 else 3) + jit))
    return pts


def strip_valid(n, code):
    """No triangle (j, j+1, j+2) of the strip is degenerate (three collinear vertices)."""
    p = strip_points(n, code)
    for j in range(n):
        (ax, ay), (bx, by), (cx, cy) = p[j], p[j + 1], p[j + 2]
        if (bx - ax) * (cy - ay) - (by - ay) * (cx - ax) == 0:
            return False
    return True


def mesh_cases(tier, seed):
    """(M) irregular vertex-array meshes: every fan on the rings, every strip, every moved lattice patch."""
    for ring in (0, 1, 2):
        for bits in _subsets(8):
            for closed in (0, 1):
                if fan_valid(ring, bits, closed, seed):
                    yield ["fan", ring, bits, closed, int(seed)]
    for n in range(1, STRIP_MAX[tier] + 1):
        for code in range(len(STRIP_STEPS) ** n):
            if not strip_valid(n, code):
                continue
            for variant in ((0,) if tier == "quick" else (0, 1)):
                yield ["strip", n, code, variant, int(seed)]
    origins = [(-1, -1), (0, -1)] if tier == "quick" else [(-1, -1), (0, -1), (-4, 3), (6, 2)]
    for bits in _subsets(9):
        for k, (ox, oy) in enumerate(origins):
            for move in range(PATCH_MOVES):
                if tier == "quick" and move != (bits + k) % PATCH_MOVES and bin(bits).count("1") > 4:
                    continue  # quick: every move on the small patches, one move (rotating) on the larger ones
                yield ["patch", 3, 3, ox, oy, bits, move, int(seed)]


def hist_cases(tier, seed, sx, sy, sside):
    """(H) histories inside one case: a derived set is kept while other calls are made, then inspected."""
    params = [(0, 1.0, 0.0, 0.0), (1, 0.5, sx, sy)]
    for bits in _small_subsets(9, 2 if tier == "quick" else 3):
        for k, (ox, oy) in enumerate([(-1, -1), (0, -1)]):
            for q, (fl, side, xo, yo) in enumerate(params):
                if tier == "quick" and q != (bits + k) % 2:
                    continue
                yield ["hist", 3, 3, ox, oy, bits, fl, side, xo, yo, int(seed)]


def window_coords(w, h, ox, oy, bits):
    out = []
    for k in range(w * h):
        if (bits >> k) & 1:
            out.append([ox + k % w, oy + k // w])
    return np.array(out, dtype=int)


def affine_menu(seed):
    r = dom.rng(seed, "c20-affine")
    while True:
        m = r.uniform(-1.5, 1.5, (2, 2))
        if abs(np.linalg.det(m)) > 0.5 and np.linalg.cond(m) < 6.0:
            break
    return [
        (np.array([[1.3, 0.4], [-0.2, 0.9]]), np.array([0.1, -0.25])),
        (np.round(m, 4), np.round(r.uniform(-1.0, 1.0, 2), 4)),
    ]


# --------------------------------------------------------------------------------------------- reference model


def shoelace(t):
    """Areas of an (N,3,2) stack of triangles by the cross product of two edge vectors."""
    t = np.asarray(t, float).reshape(-1, 3, 2)
    u = t[:, 1] - t[:, 0]
    w = t[:, 2] - t[:, 0]
    return 0.5 * np.abs(u[:, 0] * w[:, 1] - u[:, 1] * w[:, 0])


def ref_children(t):
    """Midpoint subdivision: rows 4k..4k+3 are the children of parent k (corner a, corner b, corner c, centre)."""
    out = []
    for a, b, c in np.asarray(t, float):
        mab, mbc, mca = 0.5 * (a + b), 0.5 * (b + c), 0.5 * (c + a)
        out += [[a, mab, mca], [b, mbc, mab], [c, mca, mbc], [mab, mbc, mca]]
    return np.array(out, float).reshape(-1, 3, 2)


def _mirror(p, q0, q1):
    d = q1 - q0
    f = q0 + (np.dot(p - q0, d) / np.dot(d, d)) * d  # foot of the perpendicular from p on the line q0 q1
    return 2.0 * f - p


def ref_reflections(t):
    """Rows 3k..3k+2: parent k with one vertex mirrored in the opposite edge."""
    out = []
    for a, b, c in np.asarray(t, float):
        out += [[_mirror(a, b, c), b, c], [a, _mirror(b, c, a), c], [a, b, _mirror(c, a, b)]]
    return np.array(out, float).reshape(-1, 3, 2)


def ref_reflections_mid(t):
    """Rows 3k..3k+2: parent k with one vertex reflected in the midpoint of the opposite edge (apex -> b + c - a): the
    congruent triangle on the other side of that edge.  For an equilateral triangle this is the mirror image."""
    out = []
    for a, b, c in np.asarray(t, float):
        out += [[b + c - a, b, c], [a, a + c - b, c], [a, b, a + b - c]]
    return np.array(out, float).reshape(-1, 3, 2)


def vtol(length, *arrs):
    """Coincident-vertex tolerance REL x length, but never below 32 ulp of the largest coordinate involved (used by the
    scale / irregular-mesh cases, where the side length can approach the resolution of the coordinates)."""
    m = max([float(np.abs(np.asarray(a, float)).max()) for a in arrs if np.size(a)] + [0.0])
    return max(REL * float(length), 32.0 * np.finfo(float).eps * m)


def min_bary(points, tris):
    """(P,N) smallest barycentric coordinate of every point in every triangle, via edge functions."""
    p = np.asarray(points, float)[:, None, :]
    t = np.asarray(tris, float)
    a, b, c = t[None, :, 0], t[None, :, 1], t[None, :, 2]

    def cr(u, w):
        return u[..., 0] * w[..., 1] - u[..., 1] * w[..., 0]

    area2 = cr(b - a, c - a)
    lc = cr(b - a, p - a) / area2
    la = cr(c - b, p - b) / area2
    lb = cr(a - c, p - c) / area2
    return np.minimum(np.minimum(la, lb), lc)


def cluster_ids(arrs, tol):
    """One integer id per cluster of coincident points (Chebyshev distance <= tol) over all arrays; None if non-finite."""
    from scipy.sparse import coo_matrix
    from scipy.sparse.csgraph import connected_components
    from scipy.spatial import cKDTree

    flat = [np.asarray(a, float).reshape(-1, 2) for a in arrs]
    P = np.concatenate(flat) if flat else np.zeros((0, 2))
    if not np.isfinite(P).all():
        return None
    n = len(P)
    if n == 0:
        return [np.zeros((0,), int) for _ in flat]
    pairs = cKDTree(P).query_pairs(tol, p=np.inf, output_type="ndarray")
    g = coo_matrix((np.ones(len(pairs)), (pairs[:, 0], pairs[:, 1])), shape=(n, n))
    _, lab = connected_components(g, directed=False)
    out, k = [], 0
    for f in flat:
        out.append(lab[k : k + len(f)])
        k += len(f)
    return out


def tri_keys(ids):
    return [tuple(r) for r in np.sort(np.asarray(ids).reshape(-1, 3), axis=1).tolist()]


def orientation(t, axis=1):
    """'up' if the apex (the vertex whose `axis` coordinate is alone) lies above the base, else 'down'."""
    y = np.asarray(t, float)[:, axis]
    o = np.argsort(y)
    return "up" if (y[o[2]] - y[o[1]]) > (y[o[1]] - y[o[0]]) else "down"


def rel_close(a, b, rel=REL):
    a, b = float(a), float(b)
    return math.isfinite(a) and math.isfinite(b) and abs(a - b) <= rel * max(abs(a), abs(b), 1e-300)


def area_rel(tris):
    """Relative tolerance of an area comparison: REL, but never below the resolution of the shoelace formula itself on these
    triangles, 256 eps x (largest coordinate) x (longest edge) / (smallest area).  The floor stays below REL on every set of
    ordinary scale (coord / arrep / shape / limits cases); it only takes over when the side length approaches the resolution
    of the coordinates (scale / refine cases) or a triangle is very thin (irregular meshes)."""
    t = np.asarray(tris, float).reshape(-1, 3, 2)
    if not len(t) or not np.isfinite(t).all():
        return REL
    a = float(shoelace(t).min())
    if a <= 0.0:
        return REL
    e = np.concatenate([t[:, 0] - t[:, 1], t[:, 1] - t[:, 2], t[:, 2] - t[:, 0]])
    return max(REL, 256.0 * np.finfo(float).eps * float(np.abs(t).max()) * float(np.sqrt((e ** 2).sum(axis=1)).max()) / a)


def tris_of(obj):
    t = np.asarray(obj.triangles, float)
    return t.reshape(-1, 3, 2) if t.size else np.zeros((0, 3, 2))


def min_edge(t):
    t = np.asarray(t, float).reshape(-1, 3, 2)
    e = np.concatenate([t[:, 0] - t[:, 1], t[:, 1] - t[:, 2], t[:, 2] - t[:, 0]])
    return float(np.sqrt((e ** 2).sum(axis=1)).min())


# --------------------------------------------------------------------------------------------- laws


def check_area_property(v, rep, obj, tris):
    """The object's own .area agrees with the sum of the shoelace areas of its own triangles."""
    want = float(shoelace(tris).sum())
    got = float(obj.area)
    v.ok(rel_close(got, want, area_rel(tris)) or (want == 0.0 and got == 0.0), "%s.area" % rep,
         lambda: "%s.area=%r but sum of shoelace areas of its %d triangles=%r" % (rep, got, len(tris), want))


def check_up_sample(v, rep, parents, up, tol, lattice, sfx=""):
    """up = parent.up_sample(); parents = (N,3,2) triangles of the parent object; sfx = input-class suffix of the
    finding ids (e.g. ':int-dtype')."""
    N = len(parents)
    up_tr = tris_of(up)
    up_vx = np.asarray(up.vertices, float).reshape(-1, 2)
    ref = ref_children(parents)
    ids = cluster_ids([parents, ref, up_tr, up_vx], tol)
    if ids is None:
        v.fail("%s.up_sample:non-finite%s" % (rep, sfx), "non-finite vertex in up-sampled set")
        return None
    pk, ek, okk = tri_keys(ids[0]), tri_keys(ids[1]), tri_keys(ids[2])
    P, E, O = set(pk), set(ek), set(okk)
    dup = len(okk) != len(O)

    if rep == "coord":
        v.ok(len(up) == 4 * N and up_tr.shape[0] == 4 * N, "coord.up_sample:count",
             lambda: "len(parent)=%d len(up_sample)=%d rows=%d" % (N, len(up), up_tr.shape[0]))
    v.ok(len(O) == 4 * len(P), "%s.up_sample:count%s" % (rep, sfx),
         lambda: "%d distinct parents -> %d distinct children (want %d)" % (len(P), len(O), 4 * len(P)))

    missing = [i for i, k in enumerate(ek) if k not in O]
    extra = [i for i, k in enumerate(okk) if k not in E]
    if missing:
        i = missing[0]
        cls = "%s.up_sample:children%s" % (rep, sfx)
        if lattice:
            cls += ":%s-parent" % orientation(parents[i // 4])
        v.fail(cls, "parent %s: expected child %s (kind %s) absent; %d expected children missing, %d unexpected present e.g. %s"
               % (np.round(parents[i // 4], 6).tolist(), np.round(ref[i], 6).tolist(),
                  ["corner0", "corner1", "corner2", "centre"][i % 4], len(missing), len(extra),
                  np.round(up_tr[extra[0]], 6).tolist() if extra else None))
    elif extra:
        v.fail("%s.up_sample:children:extra%s" % (rep, sfx), "%d triangles that are no midpoint child of any parent, e.g. %s"
               % (len(extra), np.round(up_tr[extra[0]], 6).tolist()))
    else:
        v.ok(True, "%s.up_sample:children%s" % (rep, sfx))

    pa, ca = shoelace(parents), shoelace(up_tr)
    arel = area_rel(parents)
    if not dup and len(pk) == len(P):
        v.ok(rel_close(ca.sum(), pa.sum(), arel), "%s.up_sample:area%s" % (rep, sfx),
             lambda: "total area %r -> %r" % (float(pa.sum()), float(ca.sum())))
        if len(ca) == 4 * N:
            want = np.sort(np.repeat(pa / 4.0, 4))
            v.ok(bool(np.allclose(np.sort(ca), want, rtol=arel, atol=0.0)), "%s.up_sample:area%s" % (rep, sfx),
                 lambda: "child areas %s are not a quarter of the parent areas %s" % (np.sort(ca)[:8].tolist(), pa[:2].tolist()))
    else:  # duplicates in the array form: compare the distinct geometric triangles only
        first_p = {k: i for i, k in reversed(list(enumerate(pk)))}
        first_c = {k: i for i, k in reversed(list(enumerate(okk)))}
        sp = float(sum(pa[i] for i in first_p.values()))
        sc = float(sum(ca[i] for i in first_c.values()))
        v.ok(rel_close(sc, sp, arel), "%s.up_sample:area%s" % (rep, sfx), lambda: "distinct-triangle area %r -> %r" % (sp, sc))
    check_area_property(v, rep, up, up_tr)

    pv = set(np.asarray(ids[0]).ravel().tolist())
    uv = set(np.asarray(ids[3]).ravel().tolist())
    v.ok(pv <= uv, "%s.up_sample:vertices%s" % (rep, sfx),
         lambda: "%d of %d parent vertices are no longer in .vertices" % (len(pv - uv), len(pv)))
    tv = set(np.asarray(ids[2]).ravel().tolist())
    v.ok(tv <= uv, "%s.up_sample:vertices%s" % (rep, sfx), lambda: "triangle corners missing from .vertices")
    return dup


def is_equilateral(t):
    t = np.asarray(t, float).reshape(-1, 3, 2)
    e = np.concatenate([t[:, 0] - t[:, 1], t[:, 1] - t[:, 2], t[:, 2] - t[:, 0]])
    el = np.sqrt((e ** 2).sum(axis=1))
    return bool(len(el) and np.isfinite(el).all() and np.allclose(el, el.mean(), rtol=1e-6, atol=0.0))


def check_neighborhood(v, rep, parents, nb, tol, lattice, sfx="", midpoint=False):
    """midpoint=False: equilateral sets, neighbour = mirror image in the edge.  midpoint=True: general triangles, neighbour =
    reflection in the midpoint of the edge.  sfx = input-class suffix of the finding ids."""
    if not midpoint and not is_equilateral(parents):
        return None  # only reachable behind an up_sample defect: the mirror law is stated for the equilateral lattice only
    N = len(parents)
    nb_tr = tris_of(nb)
    ref = ref_reflections_mid(parents) if midpoint else ref_reflections(parents)
    ids = cluster_ids([parents, ref, nb_tr], tol)
    if ids is None:
        v.fail("%s.neighborhood:non-finite%s" % (rep, sfx), "non-finite vertex in neighbourhood")
        return None
    pk, rk, okk = tri_keys(ids[0]), tri_keys(ids[1]), tri_keys(ids[2])
    P, R, O = set(pk), set(rk), set(okk)
    dup = len(okk) != len(O)
    miss_o = [i for i, k in enumerate(pk) if k not in O]
    miss_n = [i for i, k in enumerate(rk) if k not in O]
    extra = [i for i, k in enumerate(okk) if k not in P and k not in R]
    v.ok(not miss_o, "%s.neighborhood:missing-original%s" % (rep, sfx),
         lambda: "original triangle %s absent from its own neighbourhood (%d missing)" % (np.round(parents[miss_o[0]], 6).tolist(), len(miss_o)))
    if miss_n:
        i = miss_n[0]
        cls = "%s.neighborhood:missing-neighbour%s" % (rep, sfx)
        if lattice:
            cls += ":%s-parent" % orientation(parents[i // 3])
        v.fail(cls, "parent %s: neighbour across edge opposite vertex %d, %s, absent; %d neighbours missing, %d unexpected present e.g. %s"
               % (np.round(parents[i // 3], 6).tolist(), i % 3, np.round(ref[i], 6).tolist(), len(miss_n), len(extra),
                  np.round(nb_tr[extra[0]], 6).tolist() if extra else None))
    elif extra:
        v.fail("%s.neighborhood:extra%s" % (rep, sfx), "%d triangles that are neither original nor edge neighbour, e.g. %s"
               % (len(extra), nb_tr[extra[0]].tolist()))
    else:
        v.ok(True, "%s.neighborhood%s" % (rep, sfx))
    if rep == "coord":
        v.ok(not dup and len(nb) == len(O), "coord.neighborhood:duplicates" + sfx,
             lambda: "len=%d rows=%d distinct geometric triangles=%d" % (len(nb), len(okk), len(O)))
    check_area_property(v, rep, nb, nb_tr)
    return dup


def check_for_indexes(v, rep, obj, tris, selections, tol, sfx=""):
    N = len(tris)
    rep = "%s.for_indexes%s" % (rep, sfx)
    for sel in selections:
        idx = np.array(sel, dtype=int)
        got = tris_of(obj.for_indexes(idx))
        want = tris[idx] if len(idx) else np.zeros((0, 3, 2))
        if got.shape == want.shape and np.array_equal(got, want):
            v.ok(True, rep)
            continue
        if got.shape != want.shape:
            v.fail(rep, "selection %s of %d: got %d triangles, want %d" % (list(sel), N, len(got), len(want)))
            continue
        ids = cluster_ids([want, got], tol)
        if ids is None:
            v.fail(rep, "selection %s: non-finite vertices" % (list(sel),))
            continue
        wk, gk = tri_keys(ids[0]), tri_keys(ids[1])
        if sorted(wk) != sorted(gk):
            v.fail(rep, "selection %s of %d: returned %s, selected %s"
                   % (list(sel), N, np.round(got, 6).tolist()[:3], np.round(want, 6).tolist()[:3]))
        else:
            v.ok(wk == gk, rep + ":order", "selection %s: right triangles, different order" % (list(sel),))


def selections_small(N):
    out = [()]
    for k in (1, 2, 3):
        out += list(itertools.permutations(range(N), k))
    return out


def selections_large(N):
    out = [()] + [(i,) for i in range(N)]
    M = min(N, 40)
    out += [(i, j) for i in range(M) for j in range(M) if i != j and (N <= 24 or abs(i - j) <= 3)]
    out += [(i, i + 1, i + 2) for i in range(N - 2)] + [(i + 2, i, i + 1) for i in range(N - 2)]
    out.append(tuple(range(N - 1, -1, -1)))
    return out


def check_with_vertices(v, rep, obj, tris, aff):
    """obj.with_vertices(M.vertices + s) is the ArrayTriangles whose k-th triangle is the image of the k-th triangle."""
    m, s = aff
    vx = np.asarray(obj.vertices, float)
    new_vx = vx @ m.T + s
    out = obj.with_vertices(new_vx)
    want = tris @ m.T + s
    got = tris_of(out)
    scale = max(1.0, float(np.abs(want).max()) if want.size else 1.0)
    v.ok(got.shape == want.shape and bool(np.allclose(got, want, rtol=0.0, atol=1e-12 * scale)), "%s.with_vertices" % rep,
         lambda: "triangles after with_vertices differ from the mapped triangles by %s" % dom.maxdiff(got, want))
    v.ok(type(out).__name__ == "ArrayTriangles", "%s.with_vertices" % rep, lambda: "returned %s" % type(out).__name__)
    return out, want


# --------------------------------------------------------------------------------------------- shapes


def shape_menu(S, px, py, r, big):
    """(name, shape, independent reference point). Every shape is asymmetric about its reference point (px, py)."""
    a = 3.0 * r if big else 0.02 * r
    tri = [(-0.3, -0.2), (0.5, -0.1), (-0.2, 0.3)]
    quad = [(-0.4, -0.3), (0.5, -0.2), (0.3, 0.4), (-0.4, 0.1)]
    pent = [(-0.3, -0.4), (0.4, -0.3), (0.5, 0.2), (-0.1, 0.5), (-0.5, 0.0)]
    tv = [(px + a * dx, py + a * dy) for dx, dy in tri]
    qv = [(px + a * dx, py + a * dy) for dx, dy in quad]
    pv = [(px + a * dx, py + a * dy) for dx, dy in pent]

    def mean(vs):
        return (sum(x for x, _ in vs) / len(vs), sum(y for _, y in vs) / len(vs))

    return [
        ("Point", S.Point(px, py), (px, py)),
        ("Circle", S.Circle(px, py, 1e-3 * r), (px, py)),
        ("Circle", S.Circle(px, py, 0.25 * r), (px, py)),
        ("Circle", S.Circle(px, py, 2.0 * r), (px, py)),
        ("Square", S.Square(top=py - 0.7 * a, bottom=py + 0.7 * a, left=px - 0.4 * a, right=px + 0.4 * a), (px, py)),
        ("Square", S.Square(top=py - 0.1 * a, bottom=py + 0.5 * a, left=px - 0.6 * a, right=px + 0.2 * a),
         (px - 0.2 * a, py + 0.2 * a)),
        ("Triangle", S.Triangle(*tv), mean(tv)),
        ("Polygon", S.Polygon(qv), mean(qv)),
        ("Polygon", S.Polygon(pv), mean(pv)),
    ]


def check_one_shape(v, S, arr, coord, tris, name, shp, ref, sfx=""):
    """One shape against one set.  -> (must, outside): indices of the triangles the reference point is strictly inside /
    strictly outside of, by the reference model."""
    N = len(tris)
    mb = min_bary([ref], tris)[0]
    must = set(np.flatnonzero(mb > MARGIN).tolist())
    outside = set(np.flatnonzero(mb < -MARGIN).tolist())
    got = np.asarray(arr.containing_indices(shp))
    good = got.ndim == 1 and got.dtype.kind in "iu" and (len(got) == 0 or (
        got.min() >= 0 and got.max() < N and len(set(got.tolist())) == len(got)))
    v.ok(good, "containing_indices:%s:index-range%s" % (name, sfx), lambda: "indices %s for %d triangles" % (got, N))
    if not good:
        return must, outside
    gs = set(got.tolist())
    cls = name
    if name != "Point" and not must <= gs:
        # every shape ORs in Point.mask at its reference point: blame Point if a bare Point misses it too
        gp = np.asarray(arr.containing_indices(S.Point(ref[0], ref[1])))
        if not must <= set(gp.tolist()):
            cls = "Point"
    v.ok(must <= gs, "containing_indices:%s%s" % (cls, sfx),
         lambda: "reference point %s strictly inside triangle(s) %s = %s but reported %s"
         % (ref, sorted(must - gs), tris[sorted(must - gs)[0]].tolist(), sorted(gs)))
    if name == "Point":
        v.ok(not (gs & outside), "containing_indices:Point:spurious" + sfx,
             lambda: "point %s reported inside triangle(s) %s it is strictly outside of" % (ref, sorted(gs & outside)))
    if coord is not None:
        gc = np.asarray(coord.containing_indices(shp))
        v.ok(gc.shape == got.shape and np.array_equal(gc, got), "coord.containing_indices:differs-from-array" + sfx,
             lambda: "%s at %s: coordinate representation reports %s, vertex-array representation %s" % (name, ref, gc, got))
    return must, outside


def check_shapes(v, arr, coord, tris, side, seed, n=7, sfx=""):
    """arr: ArrayTriangles of the set; coord: CoordinateArrayTriangles of the same set or None.  n x n reference points."""
    from autoarray.structures.triangles import shape as S

    N = len(tris)
    lo = tris.reshape(-1, 2).min(axis=0) - 0.3 * side
    hi = tris.reshape(-1, 2).max(axis=0) + 0.3 * side
    jit = dom.rng(seed, "c20-jitter").uniform(-0.03, 0.03, (7, 7, 2)) * side
    n_in = n_out = n_undecided = 0
    for i in range(n):
        for j in range(n):
            px = float(lo[0] + (hi[0] - lo[0]) * i / (n - 1.0) + jit[i, j, 0])
            py = float(lo[1] + (hi[1] - lo[1]) * j / (n - 1.0) + jit[i, j, 1])
            for name, shp, ref in shape_menu(S, px, py, side, big=bool((i + j) % 2)):
                must, outside = check_one_shape(v, S, arr, coord, tris, name, shp, ref, sfx)
                if name == "Point":
                    n_in += bool(must)
                    n_out += len(outside) == N
                    n_undecided += N - len(must) - len(outside)
    check_anchored_squares(v, S, arr, coord, tris, side, sfx)
    return n_in, n_out, n_undecided


# half extents (first component, second component) in units of the side length: comparable to the triangle size, so that
# the centroid of the containing triangle may lie outside the square while centroids of its neighbours lie inside
SQUARE_HALF = [(0.52, 0.52), (0.45, 0.65), (0.65, 0.45)]
EDGE_HALF = (0.2, 0.35)
MAX_ANCHORS = 9


def anchored_squares(tris, side):
    """(centre, half extents, kind) of squares whose centre lies strictly inside an anchor triangle (smallest barycentric
    coordinate 0.02 >> MARGIN), close to one of its vertices or to the middle of one of its edges."""
    N = len(tris)
    anchors = list(range(N)) if N <= MAX_ANCHORS else sorted({int(round(q * (N - 1) / (MAX_ANCHORS - 1.0))) for q in range(MAX_ANCHORS)})
    out = []
    for k in anchors:
        t = np.asarray(tris[k], float)
        g = t.mean(axis=0)
        for j in range(3):
            p = t[j] + 0.06 * (g - t[j])
            for (h0, h1) in SQUARE_HALF:
                out.append(((float(p[0]), float(p[1])), (h0 * side, h1 * side), "near-vertex"))
            m = 0.5 * (t[j] + t[(j + 1) % 3])
            p = m + 0.06 * (g - m)
            h0, h1 = EDGE_HALF if j % 2 == 0 else EDGE_HALF[::-1]
            out.append(((float(p[0]), float(p[1])), (h0 * side, h1 * side), "near-edge"))
    return out


def check_anchored_squares(v, S, arr, coord, tris, side, sfx=""):
    N = len(tris)
    sq = anchored_squares(tris, side)
    if not sq:
        return
    mbs = min_bary([c for c, _, _ in sq], tris)
    for q, ((px, py), (h0, h1), kind) in enumerate(sq):
        mb = mbs[q]
        must = set(np.flatnonzero(mb > MARGIN).tolist())
        shp = S.Square(top=py - h1, bottom=py + h1, left=px - h0, right=px + h0)
        got = np.asarray(arr.containing_indices(shp))
        good = got.ndim == 1 and got.dtype.kind in "iu" and (len(got) == 0 or (
            got.min() >= 0 and got.max() < N and len(set(got.tolist())) == len(got)))
        v.ok(good, "containing_indices:Square:index-range" + sfx, lambda: "indices %s for %d triangles" % (got, N))
        if not good:
            continue
        gs = set(got.tolist())
        cls = "Square"
        if not must <= gs:
            gp = np.asarray(arr.containing_indices(S.Point(px, py)))
            if not must <= set(gp.tolist()):
                cls = "Point"
        v.ok(must <= gs, "containing_indices:%s%s" % (cls, sfx),
             lambda: "square centre %s (%s, half extents %s) strictly inside triangle(s) %s = %s but reported %s"
             % ((px, py), kind, (h0, h1), sorted(must - gs), tris[sorted(must - gs)[0]].tolist(), sorted(gs)))
        if coord is not None and q % 4 == 0:
            gc = np.asarray(coord.containing_indices(shp))
            v.ok(gc.shape == got.shape and np.array_equal(gc, got), "coord.containing_indices:differs-from-array" + sfx,
                 lambda: "Square at %s: coordinate representation reports %s, vertex-array representation %s" % ((px, py), gc, got))


# --------------------------------------------------------------------------------------------- case runners


def examine_coord(v, T, side, seed, depth, small_sel, tol=None):
    """All laws on one CoordinateArrayTriangles object T and on the ArrayTriangles of the same set."""
    from autoarray.structures.triangles.array import ArrayTriangles

    tr = tris_of(T)
    N = len(tr)
    tol = REL * side if tol is None else tol
    v.ok(len(T) == N == np.asarray(T.coordinates).shape[0], "coord.len", lambda: "len=%d rows=%d" % (len(T), N))
    e = np.concatenate([tr[:, 0] - tr[:, 1], tr[:, 1] - tr[:, 2], tr[:, 2] - tr[:, 0]])
    el = np.sqrt((e ** 2).sum(axis=1))
    v.ok(bool(np.allclose(el, side, rtol=REL, atol=0.0)), "coord.triangles:side_length",
         lambda: "edge lengths in [%r, %r], side_length=%r" % (float(el.min()), float(el.max()), side))
    check_area_property(v, "coord", T, tr)
    vx, ix = np.asarray(T.vertices, float), np.asarray(T.indices)
    v.ok(ix.shape == (N, 3) and np.array_equal(vx[ix], tr), "coord.vertices-indices", "vertices[indices] != triangles")

    # the vertex-array representation of the same set
    A = T.with_vertices(T.vertices)
    a_tr = tris_of(A)
    v.ok(a_tr.shape == tr.shape and np.array_equal(a_tr, tr), "representations-differ:triangles",
         lambda: "with_vertices(vertices).triangles differs from .triangles by %s" % dom.maxdiff(a_tr, tr))
    arel = area_rel(tr)
    v.ok(rel_close(A.area, T.area, arel), "representations-differ:area", lambda: "array %r coord %r" % (A.area, T.area))
    v.ok(len(A) == len(T), "representations-differ:len", lambda: "array %d coord %d" % (len(A), len(T)))
    A2 = ArrayTriangles(indices=T.indices, vertices=T.vertices)
    v.ok(np.array_equal(tris_of(A2), tr), "representations-differ:triangles", "ArrayTriangles(indices, vertices)")
    check_area_property(v, "array", A, a_tr)

    dups = 0
    up = T.up_sample()
    check_up_sample(v, "coord", tr, up, tol, True)
    v.ok(rel_close(up.area, T.area, arel), "coord.up_sample:area", lambda: "reported area %r -> %r" % (T.area, up.area))
    nb = T.neighborhood()
    check_neighborhood(v, "coord", tr, nb, tol, True)
    upA = A.up_sample()
    dups += bool(check_up_sample(v, "array", tr, upA, tol, False))
    v.ok(rel_close(upA.area, A.area, arel), "array.up_sample:area", lambda: "reported area %r -> %r" % (A.area, upA.area))
    nbA = A.neighborhood()
    dupn = bool(check_neighborhood(v, "array", tr, nbA, tol, False))

    if depth >= 2:
        up_tr, nb_tr = tris_of(up), tris_of(nb)
        check_up_sample(v, "coord", up_tr, up.up_sample(), tol / 2, True)
        check_neighborhood(v, "coord", up_tr, up.neighborhood(), tol / 2, True)
        check_up_sample(v, "coord", nb_tr, nb.up_sample(), tol, True)
        check_neighborhood(v, "coord", nb_tr, nb.neighborhood(), tol, True)
        upA_tr, nbA_tr = tris_of(upA), tris_of(nbA)
        check_up_sample(v, "array", upA_tr, upA.up_sample(), tol / 2, False)
        check_neighborhood(v, "array", upA_tr, upA.neighborhood(), tol / 2, False)
        check_up_sample(v, "array", nbA_tr, nbA.up_sample(), tol, False)
        check_neighborhood(v, "array", nbA_tr, nbA.neighborhood(), tol, False)
        # selections / representations of derived coordinate objects (float coordinates, flipped=True)
        v.ok(np.array_equal(tris_of(up.with_vertices(up.vertices)), up_tr), "representations-differ:triangles", "after up_sample")
        v.ok(np.array_equal(tris_of(nb.with_vertices(nb.vertices)), nb_tr), "representations-differ:triangles", "after neighborhood")
        check_for_indexes(v, "coord", up, up_tr, [(0,), (len(up_tr) - 1, 1), (2, 0, 3)], tol)
        check_for_indexes(v, "array", upA, upA_tr, [(0,), (len(upA_tr) - 1, 1), (2, 0, 3)], tol)

    # with_vertices: arbitrary (affine) vertex replacement, then the subdivision law on general triangles
    for aff in affine_menu(seed):
        B, b_tr = check_with_vertices(v, "coord", T, tr, aff)
        check_with_vertices(v, "array", A, tr, aff)
        if tris_of(B).shape == b_tr.shape:
            check_up_sample(v, "array", b_tr, B.up_sample(), REL * min_edge(b_tr), False)

    if small_sel and N <= 6:
        sels = selections_small(N)
    else:
        sels = selections_large(N)
    check_for_indexes(v, "coord", T, tr, sels, tol)
    check_for_indexes(v, "array", A, tr, sels, tol)
    return N, len(tris_of(nb)), dupn, dups


# --------------------------------------------------------------------------------------------- array representation


def int_lattice_set(w, h, ox, oy, bits):
    """The window's triangle set on an integer vertex lattice (first unit = half a side, second unit = half a height),
    written out directly: -> (vertices (V,2) int64, indices (N,3)).  Vertices are listed in reverse sorted order so that
    the set is not already in the order np.unique would produce."""
    rows = []
    for (cx, cy) in window_coords(w, h, ox, oy, bits).tolist():
        f = 1 if (cx + cy) % 2 == 0 else -1
        rows += [(cx, 2 * cy + f), (cx + f, 2 * cy - f), (cx - f, 2 * cy - f)]
    uniq = sorted(set(rows), reverse=True)
    pos = {p: i for i, p in enumerate(uniq)}
    return np.array(uniq, dtype=np.int64).reshape(-1, 2), np.array([pos[p] for p in rows], dtype=np.int64).reshape(-1, 3)


INT_MAPS = [  # integer linear map + integer shift of the vertex lattice (both keep many odd coordinate sums)
    (np.array([[1, 0], [0, 1]]), np.array([0, 0])),
    (np.array([[3, 1], [-1, 2]]), np.array([-5, 7])),
]
DTYPES = [("int64", np.int64, 0), ("int32", np.int32, 0), ("float32", np.float32, 0), ("int64", np.int64, 1)]


def gather(vx, ix):
    """(N,3,2) float triangles of an index table, by explicit loops."""
    return np.array([[[float(vx[i][0]), float(vx[i][1])] for i in row] for row in ix], float).reshape(-1, 3, 2)


def children_match(parents, up, tol):
    ids = cluster_ids([ref_children(parents), tris_of(up)], tol)
    return ids is not None and set(tri_keys(ids[0])) == set(tri_keys(ids[1]))


def check_dtypes(v, ArrayTriangles, S, vx, ix):
    """(D) vertex arrays of integer dtype (and integer-valued float32: every midpoint is exact in float32 as well)."""
    N = len(ix)
    nv0 = len(v.violations)
    for dname, dt, mi in DTYPES:
        m, sh = INT_MAPS[mi]
        vi = vx @ m.T + sh  # int64
        parents = gather(vi, ix)
        tol = REL * min_edge(parents)
        sfx = ":int-dtype" if dname.startswith("int") else ":float32"
        A = ArrayTriangles(indices=ix.copy(), vertices=vi.astype(dt))
        t = np.asarray(A.triangles)
        v.ok(t.shape == parents.shape and np.array_equal(t.astype(float), parents), "array.triangles" + sfx,
             lambda: "%s vertices: .triangles differs from vertices[indices]" % dname)
        check_area_property(v, "array", A, parents)
        up = A.up_sample()
        check_up_sample(v, "array", parents, up, tol, False, sfx)
        v.ok(rel_close(up.area, shoelace(parents).sum()), "array.up_sample:area" + sfx,
             lambda: "%s vertices: reported area %r -> %r" % (dname, float(shoelace(parents).sum()), up.area))
        check_for_indexes(v, "array", A, parents, [(N - 1,), (0, N - 1)[: min(N, 2)]], tol, sfx)
        g = parents.mean(axis=1)
        for k in (0, N - 1):
            got = np.asarray(A.containing_indices(S.Point(float(g[k, 0]), float(g[k, 1]))))
            v.ok(k in set(got.tolist()), "containing_indices:Point" + sfx,
                 lambda: "%s vertices: centroid of triangle %d %s reported in %s" % (dname, k, parents[k].tolist(), got))
    if len(v.violations) > nv0:
        # control, only after a failure: the same sets as float64 vertex arrays.  If those fail too the defect is not
        # about the dtype: re-file under the plain ids
        nv1 = len(v.violations)
        for mi in (0, 1):
            m, sh = INT_MAPS[mi]
            vi = vx @ m.T + sh
            parents = gather(vi, ix)
            check_up_sample(v, "array", parents, ArrayTriangles(indices=ix.copy(), vertices=vi.astype(float)).up_sample(),
                            REL * min_edge(parents), False)
        if len(v.violations) > nv1:
            for d in v.violations[nv0:nv1]:
                d["finding"] = d["finding"].replace(":int-dtype", "").replace(":float32", "")


READS = ["triangles", "area", "containing_indices", "len", "means", "up_sample", "neighborhood", "for_indexes", "iter", "all"]


def do_read(A, S, name, pt):
    if name in ("triangles", "all"):
        A.triangles
    if name in ("area", "all"):
        A.area
    if name in ("containing_indices", "all"):
        A.containing_indices(S.Point(pt[0], pt[1]))
        A.containing_indices(S.Square(top=pt[1] - 0.5, bottom=pt[1] + 0.5, left=pt[0] - 0.5, right=pt[0] + 0.5))
    if name in ("len", "all"):
        len(A)
    if name in ("means", "all"):
        A.means
    if name in ("up_sample", "all"):
        A.up_sample()
    if name in ("neighborhood", "all"):
        A.neighborhood()
    if name in ("for_indexes", "all"):
        A.for_indexes(np.array([0]))
    if name in ("iter", "all"):
        list(A)
        str(A)


def describes(v, S, B, vx, ix, fid, what, start, deep):
    """Every observable of the set B describes the triangles vx[ix]; observables are visited starting from `start`.
    deep: None = triangles and area only; False = + containing_indices, len, means; True = + up_sample."""
    want = gather(vx, ix)
    N = len(ix)
    g = want.mean(axis=1)
    tol = REL * min_edge(want)
    ok = True

    def o_tri():
        t = np.asarray(B.triangles, float)
        return v.ok(t.shape == want.shape and np.array_equal(t, want), fid,
                    lambda: "%s: .triangles differs from vertices[indices] of the vertices it was given by %s" % (what, dom.maxdiff(t, want)))

    def o_area():
        a, w_ = float(B.area), float(shoelace(want).sum())
        return v.ok(rel_close(a, w_), fid, lambda: "%s: .area=%r, triangles of the vertices it was given have area %r" % (what, a, w_))

    def o_cont():
        good = True
        for k in (0, N - 1):
            got = np.asarray(B.containing_indices(S.Point(float(g[k, 0]), float(g[k, 1]))))
            good &= v.ok(k in set(got.tolist()), fid,
                         lambda: "%s: centroid of its triangle %d = %s not contained, containing_indices -> %s" % (what, k, want[k].tolist(), got))
        return good

    def o_len():
        m = np.asarray(B.means, float)
        return v.ok(len(B) == N and m.shape == g.shape and bool(np.allclose(m, g, rtol=0.0, atol=1e-12 * max(1.0, float(np.abs(g).max())))), fid,
                    lambda: "%s: len=%d (want %d) or .means differ by %s" % (what, len(B), N, dom.maxdiff(m, g)))

    def o_up():
        return v.ok(children_match(want, B.up_sample(), tol), fid, lambda: "%s: up_sample() is not the midpoint subdivision of its triangles" % what)

    obs = [o_tri, o_area] if deep is None else [o_tri, o_area, o_cont, o_len] + ([o_up] if deep else [])
    for q in range(len(obs)):
        ok &= bool(obs[(start + q) % len(obs)]())
    return ok


def check_read_then_derive(v, ArrayTriangles, S, vx, ix, seed):
    """(E) histories on ONE ArrayTriangles: read an observable, then derive (with_vertices / for_indexes); the derived set
    must describe the vertices it was given, the parent must still describe its own."""
    N = len(ix)
    v1 = vx.astype(float) * np.array([0.5, 0.5 * 3 ** 0.5 / 2])  # the unit equilateral lattice
    m, sh = affine_menu(seed)[1]
    v2 = v1 @ m.T + sh
    v3 = v1 @ np.array([[0.7, -1.1], [0.9, 0.4]]).T + np.array([2.0, -3.0])
    t1 = gather(v1, ix)
    pt = t1[0].mean(axis=0)
    sel = np.array([N - 1, 0][: min(N, 2)])
    fid = "array.with_vertices:after-reads"
    nv0 = len(v.violations)
    for r, name in enumerate(READS):
        A = ArrayTriangles(indices=ix.copy(), vertices=v1.copy())
        do_read(A, S, name, pt)
        deep = name in ("triangles", "up_sample", "all")
        B = A.with_vertices(v2.copy())
        describes(v, S, B, v2, ix, fid, "with_vertices after reading %s" % name, r, deep)
        describes(v, S, A, v1, ix, fid + ":parent", "the parent set after with_vertices (read before: %s)" % name, r + 1, None)
        # B has now been read: derive again from it
        C = B.with_vertices(v3.copy())
        describes(v, S, C, v3, ix, fid, "with_vertices on a set that was itself derived and read (first read: %s)" % name, r + 2, False)
        D = B.for_indexes(sel)
        want = gather(v2, ix)[sel]
        got = tris_of(D)
        v.ok(got.shape == want.shape and np.array_equal(got, want), "array.for_indexes:after-reads",
             lambda: "for_indexes(%s) on a derived and read set (first read: %s): differs by %s" % (sel.tolist(), name, dom.maxdiff(got, want)))
        if name == "all":
            check_for_indexes(v, "array", A, t1, [(0,), tuple(sel.tolist()), tuple(range(N))], REL, ":after-reads")
    if len(v.violations) > nv0:
        # control, only after a failure: no read before deriving.  If that fails as well, history is not the cause
        nv1 = len(v.violations)
        A = ArrayTriangles(indices=ix.copy(), vertices=v1.copy())
        B = A.with_vertices(v2.copy())
        describes(v, S, B, v2, ix, "array.with_vertices", "with_vertices on a fresh set", 0, True)
        got = tris_of(ArrayTriangles(indices=ix.copy(), vertices=v2.copy()).for_indexes(sel))
        v.ok(np.array_equal(got, gather(v2, ix)[sel]), "array.for_indexes", "for_indexes on a fresh set")
        bad = {d["finding"] for d in v.violations[nv1:]}
        for d in v.violations[nv0:nv1]:
            for plain in ("array.with_vertices", "array.for_indexes"):
                if ID + ":" + plain in bad and d["finding"].startswith(ID + ":" + plain + ":after-reads"):
                    d["finding"] = ID + ":" + plain


# --------------------------------------------------------------------------------------------- (S) scale


REFINE_WEIGHTS = [(0.5, 0.3, 0.2), (0.12, 0.23, 0.65)]


def run_refine(v, S, T0, side0, levels, seed):
    """Repeated refinement about a fixed point, in both representations: up_sample, keep the children that (by the reference
    model) are not strictly outside the point, take their neighbourhood, repeat.  At every level the subdivision law, the
    neighbourhood law and the containment rule for every shape are demanded of the sets reached."""
    tr0 = tris_of(T0)
    r = dom.rng(seed, "c20-refine")
    w3 = r.uniform(0.1, 1.0, 3)
    weights = REFINE_WEIGHTS + [tuple((w3 / w3.sum()).tolist())]
    deepest, n_in = side0, 0
    for q, w in enumerate(weights):
        k = (q * (len(tr0) - 1)) // max(1, len(weights) - 1) if len(tr0) > 1 else 0
        p = np.asarray(w) @ tr0[k]
        px, py = float(p[0]), float(p[1])
        cur, acur, side = T0, T0.with_vertices(T0.vertices), side0
        for lev in range(1, levels + 1):
            side = side / 2.0
            menu = shape_menu(S, px, py, side, big=bool((lev + q) % 2))
            # coordinate representation
            ptr = tris_of(cur)
            up = cur.up_sample()
            utr = tris_of(up)
            tol = vtol(side, utr)
            check_up_sample(v, "coord", ptr, up, tol, True, ":scale")
            v.ok(rel_close(up.side_length, side), "coord.up_sample:side_length:scale",
                 lambda: "level %d: side_length %r, want %r" % (lev, up.side_length, side))
            ua = up.with_vertices(up.vertices)
            for name, shp, ref in menu:
                must, _ = check_one_shape(v, S, ua, up, utr, name, shp, ref, ":scale")
                n_in += bool(must)
            keep = np.flatnonzero(min_bary([p], utr)[0] > -MARGIN)
            v.ok(len(keep) > 0, "coord.up_sample:children:scale",
                 lambda: "level %d: the point %s lay in the parent set but in none of its children" % (lev, (px, py)))
            # vertex-array representation
            aptr = tris_of(acur)
            aup = acur.up_sample()
            autr = tris_of(aup)
            atol = vtol(side, autr)
            check_up_sample(v, "array", aptr, aup, atol, False, ":scale")
            for name, shp, ref in menu:
                check_one_shape(v, S, aup, None, autr, name, shp, ref, ":scale")
            akeep = np.flatnonzero(min_bary([p], autr)[0] > -MARGIN)
            v.ok(len(akeep) > 0, "array.up_sample:children:scale",
                 lambda: "level %d: the point %s lay in the parent set but in none of its children" % (lev, (px, py)))
            if not len(keep) or not len(akeep) or len(v.violations) >= 20:
                break
            sel = up.for_indexes(keep)
            check_for_indexes(v, "coord", up, utr, [tuple(keep.tolist())], tol, ":scale")
            cur = sel.neighborhood()
            check_neighborhood(v, "coord", utr[keep], cur, tol, True, ":scale")
            asel = aup.for_indexes(akeep)
            check_for_indexes(v, "array", aup, autr, [tuple(akeep.tolist())], atol, ":scale")
            acur = asel.neighborhood()
            check_neighborhood(v, "array", autr[akeep], acur, atol, False, ":scale")
            deepest = min(deepest, side)
    return deepest, n_in


# --------------------------------------------------------------------------------------------- (M) irregular meshes


def fan_mesh(ring, bits, closed, seed):
    hub, rim = fan_ring(ring, seed)
    pts = [rim[k] for k in range(8) if (bits >> k) & 1]
    vx = np.array([hub] + pts, float)
    n = len(pts)
    ix = [[0, 1 + i, 2 + i] for i in range(n - 1)] + ([[0, n, 1]] if closed else [])
    if ring == 2:  # the vertex array in another order than hub, rim
        perm = dom.rng(seed, "c20-fan-perm", bits).permutation(len(vx))
        inv = np.argsort(perm)
        return vx[perm], inv[np.array(ix, dtype=np.int64)]
    return vx, np.array(ix, dtype=np.int64)


def strip_mesh(n, code, variant, seed):
    """Triangle strip (j, j+1, j+2), j < n: vertices alternate between a lower and an upper row, each row advancing by an
    irregular step; no three consecutive vertices collinear; variant 1 maps the integer strip by the seeded affine map."""
    vx = np.array(strip_points(n, code), float)
    if variant:
        m, sh = affine_menu(seed)[1]
        vx = vx @ m.T + sh
    return vx, np.array([[j, j + 1, j + 2] for j in range(n)], dtype=np.int64)


def patch_moved(vx_int, move, seed, salt=0):
    """New positions of the vertices of a lattice patch (vx_int: integer lattice ids, first unit half a side, second unit
    half a height)."""
    x, y = vx_int[:, 0].astype(np.int64), vx_int[:, 1].astype(np.int64)
    if move == 0:  # integer, not affine: five times the skew map plus a position-dependent integer displacement in {0,1,2}
        return np.stack([5 * (3 * x + y) + (x * y) % 3, 5 * (-x + 2 * y) + (x + y * y) % 3], axis=1).astype(float)
    v1 = vx_int.astype(float) * np.array([0.5, 0.5 * 3 ** 0.5 / 2])  # the unit equilateral lattice
    if move == 1:  # seeded affine image
        m, sh = affine_menu(seed)[1]
        return v1 @ m.T + sh
    if move == 2:  # every vertex moved on its own by less than a fifth of a side: the mesh stays a triangulation
        jit = dom.rng(seed, "c20-patch-jitter").uniform(-0.2, 0.2, (64, 2))
        key = ((x - x.min()) * 7 + (y - y.min())) % 64
        return v1 + jit[key]
    # every vertex sent to an unrelated position (a mesh traced through a strongly non-linear map: triangles may fold over
    # each other, only the connectivity is kept); generic positions, so no two vertices or midpoints coincide
    return np.round(dom.rng(seed, "c20-patch-scramble", salt).uniform(-4.0, 4.0, (len(vx_int), 2)), 4)


def examine_mesh(v, S, A, vx, ix, sfx=":irregular"):
    """All laws on one general ArrayTriangles A whose triangles are vx[ix] (by construction, not by the library)."""
    tr = gather(vx, ix)
    N = len(tr)
    L = min_edge(tr)
    tol = vtol(L, tr)
    t = np.asarray(A.triangles, float)
    v.ok(t.shape == tr.shape and np.array_equal(t, tr), "array.triangles" + sfx, ".triangles differs from vertices[indices]")
    check_area_property(v, "array", A, tr)
    nb = A.neighborhood()
    dupn = bool(check_neighborhood(v, "array", tr, nb, tol, False, sfx, midpoint=True))
    nb_tr = tris_of(nb)
    if len(nb_tr) <= 48:
        check_neighborhood(v, "array", nb_tr, nb.neighborhood(), vtol(L, nb_tr), False, sfx, midpoint=True)
    up = A.up_sample()
    dups = bool(check_up_sample(v, "array", tr, up, tol, False, sfx))
    v.ok(rel_close(up.area, shoelace(tr).sum(), area_rel(tr)), "array.up_sample:area" + sfx,
         lambda: "reported area %r -> %r" % (float(shoelace(tr).sum()), up.area))
    up_tr = tris_of(up)
    if len(up_tr) <= 48:
        check_neighborhood(v, "array", up_tr, up.neighborhood(), tol / 2, False, sfx, midpoint=True)
    sels = selections_small(N) if N <= 3 else [(), (N - 1,), (0, N - 1), (2, 0, 1), tuple(range(N - 1, -1, -1))]
    check_for_indexes(v, "array", A, tr, sels, tol, sfx)
    n_in = 0
    for k in (range(N) if N <= 6 else sorted({0, 1, N // 2, N - 2, N - 1})):
        w = np.roll(np.array(REFINE_WEIGHTS[k % 2]), k)
        p = w @ tr[k]
        tl = min_edge(tr[k : k + 1])
        for name, shp, ref in shape_menu(S, float(p[0]), float(p[1]), tl, big=bool(k % 2)):
            must, _ = check_one_shape(v, S, A, None, tr, name, shp, ref, sfx)
            n_in += bool(must)
    return N, len(nb_tr), dupn, dups, n_in


# --------------------------------------------------------------------------------------------- (H) histories

HIST_KEPT = ["up_sample", "neighborhood", "for_indexes"]
HIST_OPS = ["up_sample", "neighborhood", "for_indexes", "contain"]
HIST_TARGETS = ["parent", "other", "other-of-kept-size"]
HIST_INTERLEAVINGS = [(t, o) for t in HIST_TARGETS for o in HIST_OPS] + [("all", "all")]


def hist_derive(X, kept, sel):
    if kept == "up_sample":
        return X.up_sample()
    if kept == "neighborhood":
        return X.neighborhood()
    return X.for_indexes(sel)


def hist_call(obj, op, S, pt, h):
    if op == "up_sample":
        obj.up_sample()
    elif op == "neighborhood":
        obj.neighborhood()
    elif op == "for_indexes":
        obj.for_indexes(np.arange(len(np.asarray(obj.indices)))[::-1])
    else:
        obj.containing_indices(S.Point(pt[0], pt[1]))
        obj.containing_indices(S.Square(top=pt[1] - h, bottom=pt[1] + h, left=pt[0] - h, right=pt[0] + h))


def hist_observe(D, S, rep, pt, sel, start):
    """Copies of every observable of the set D, visited cyclically from `start`."""
    out = {}

    def put(name, fn):
        out[name] = np.array(fn())

    obs = [
        ("triangles", lambda: np.asarray(D.triangles, float)),
        ("vertices", lambda: np.asarray(D.vertices, float)),
        ("indices", lambda: np.asarray(D.indices)),
        ("area", lambda: float(D.area)),
        ("len", lambda: len(D)),
        ("means", lambda: np.asarray(D.means, float)),
        ("up_sample", lambda: np.asarray(D.up_sample().triangles, float)),
        ("neighborhood", lambda: np.asarray(D.neighborhood().triangles, float)),
        ("for_indexes", lambda: np.asarray(D.for_indexes(sel).triangles, float)),
        ("containing_indices", lambda: np.asarray(D.containing_indices(S.Point(pt[0], pt[1])))),
        ("with_vertices", lambda: np.asarray(D.with_vertices(np.asarray(D.vertices, float) * 2.0 + 1.0).triangles, float)),
    ]
    if rep == "coord":
        obs += [("coordinates", lambda: np.asarray(D.coordinates, float)),
                ("parameters", lambda: [float(D.side_length), float(D.x_offset), float(D.y_offset), float(bool(D.flipped))])]
    for q in range(len(obs)):
        put(*obs[(start + q) % len(obs)])
    return out


def check_histories(v, S, rep, mk_parent, mk_other, ptr, tol, lattice):
    """rep 'coord' / 'array'; mk_parent() / mk_other() build fresh, equal copies of the parent set and of another set with the
    same number of triangles; ptr = (N,3,2) triangles of the parent by the reference construction."""
    N = len(ptr)
    selK = np.array([N - 1, 0][: min(N, 2)])

    def against_model(D, kept, sfx):
        if kept == "up_sample":
            check_up_sample(v, rep, ptr, D, tol, lattice, sfx)
        elif kept == "neighborhood":
            check_neighborhood(v, rep, ptr, D, tol, lattice, sfx)
        else:
            got = tris_of(D)
            ids = cluster_ids([ptr[selK], got], tol) if got.shape == ptr[selK].shape else None
            v.ok(ids is not None and tri_keys(ids[0]) == tri_keys(ids[1]), "%s.for_indexes%s" % (rep, sfx),
                 lambda: "selection %s: returned %s, selected %s" % (selK.tolist(), got.tolist()[:3], ptr[selK].tolist()[:3]))

    combo = 0
    for kept in HIST_KEPT:
        fid = "%s.%s:history" % (rep, kept)
        # the value computed before any other call: a twin derived from an equal, fresh parent and read completely at once
        twin = hist_derive(mk_parent(), kept, selK)
        ttr = tris_of(twin)
        if len(ttr) == 0:
            v.fail("%s.%s" % (rep, kept), "empty result")
            continue
        pt = ttr[0].mean(axis=0)
        h = 0.4 * min_edge(ttr[:1])
        selD = np.array([len(ttr) - 1, 0][: min(len(ttr), 2)])
        S0 = hist_observe(twin, S, rep, pt, selD, 0)
        against_model(twin, kept, "")

        def same(Sx, what):
            good = True
            for name, val in S0.items():
                got = Sx[name]
                good &= v.ok(got.shape == val.shape and np.array_equal(got, val), fid,
                             lambda: "%s: .%s of the kept %s() result differs from the value computed before the other calls by %s"
                             % (what, name, kept, dom.maxdiff(got, val)))
                if not good:
                    break
            return good

        for read in (0, 1):
            for (target, op) in HIST_INTERLEAVINGS:
                combo += 1
                X = mk_parent()
                D = hist_derive(X, kept, selK)
                if read:
                    same(hist_observe(D, S, rep, pt, selD, combo), "read at once")
                calls = [(t, o) for t in HIST_TARGETS for o in HIST_OPS] if target == "all" else [(target, op)]
                others = {}
                for (t, o) in calls:
                    if t == "parent":
                        obj = X
                    elif t == "other":
                        obj = others.get(t) or others.setdefault(t, mk_other())
                    else:
                        obj = others.get(t) or others.setdefault(t, hist_derive(mk_other(), kept, selK))
                    hist_call(obj, o, S, pt, h)
                what = "%s %s, then %s on %s" % ("read" if read else "unread", kept, op, target)
                good = same(hist_observe(D, S, rep, pt, selD, combo + 3), what)
                if target == "all" or not good:
                    against_model(D, kept, ":history")
                if len(v.violations) >= 20:
                    return


def is_nontrivial(tr, tol, axis=1):
    if len(tr) < 2:
        return False
    orients = {orientation(t, axis) for t in tr}
    ids = cluster_ids([tr], tol)[0].reshape(-1, 3)
    shared = False
    for i in range(len(ids)):
        for j in range(i + 1, len(ids)):
            if len(set(ids[i]) & set(ids[j])) == 2:
                shared = True
    return len(orients) == 2 and shared


def run_case(case):
    from autoarray.structures.triangles.array import ArrayTriangles
    from autoarray.structures.triangles.coordinate_array import CoordinateArrayTriangles

    v = V(ID)
    kind = case[0]
    if kind == "coord":
        _, w, h, ox, oy, bits, fl, side, xo, yo, seed = case
        T = CoordinateArrayTriangles(coordinates=window_coords(w, h, ox, oy, bits), side_length=side,
                                     x_offset=xo, y_offset=yo, flipped=bool(fl))
        N, K, dupn, dups = examine_coord(v, T, side, seed, depth=2, small_sel=True)
        v.nontrivial = is_nontrivial(tris_of(T), REL * side)
        v.outcome = "coord:N%d:nb%d:arraydup%d%d" % (N, K, dupn, dups)
    elif kind == "arrep":
        from autoarray.structures.triangles import shape as S

        _, w, h, ox, oy, bits, seed = case
        vx, ix = int_lattice_set(w, h, ox, oy, bits)
        check_dtypes(v, ArrayTriangles, S, vx, ix)
        check_read_then_derive(v, ArrayTriangles, S, vx, ix, seed)
        tr = gather(vx, ix)
        v.nontrivial = is_nontrivial(tr, 1e-9)
        v.outcome = "arrep:N%d:V%d" % (len(ix), len(vx))
    elif kind == "shape":
        _, w, h, ox, oy, bits, fl, side, xo, yo, seed = case
        T = CoordinateArrayTriangles(coordinates=window_coords(w, h, ox, oy, bits), side_length=side,
                                     x_offset=xo, y_offset=yo, flipped=bool(fl))
        tr = tris_of(T)
        A = T.with_vertices(T.vertices)
        v.ok(np.array_equal(tris_of(A), tr), "representations-differ:triangles", "with_vertices(vertices)")
        n_in, n_out, n_und = check_shapes(v, A, T, tr, side, seed)
        v.nontrivial = n_in > 0 and n_out > 0
        v.outcome = "shape:N%d:in%d:und%d" % (len(tr), n_in, min(n_und, 1))
    elif kind == "limits":
        _, rep, y0, y1, x0, x1, sc, seed = case
        tol = REL * sc
        if rep == "coord":
            T = CoordinateArrayTriangles.for_limits_and_scale(x_min=x0, x_max=x1, y_min=y0, y_max=y1, scale=sc)
            tr = tris_of(T)
            first, second = (x0, x1), (y0, y1)
            v.ok(T.side_length == sc, "coord.for_limits_and_scale:side_length", lambda: "%r" % T.side_length)
            N, K, dupn, dups = examine_coord(v, T, sc, seed, depth=2 if len(tr) <= 40 else 1, small_sel=False)
            A = T.with_vertices(T.vertices)
            n_in, n_out, n_und = check_shapes(v, A, T, tr, sc, seed)
        else:
            A = ArrayTriangles.for_limits_and_scale(y_min=y0, y_max=y1, x_min=x0, x_max=x1, scale=sc)
            tr = tris_of(A)
            first, second = (y0, y1), (x0, x1)
            N = len(tr)
            e = np.concatenate([tr[:, 0] - tr[:, 1], tr[:, 1] - tr[:, 2], tr[:, 2] - tr[:, 0]])
            el = np.sqrt((e ** 2).sum(axis=1))
            v.ok(bool(np.allclose(el, sc, rtol=REL, atol=0.0)), "array.for_limits_and_scale:side_length",
                 lambda: "edge lengths in [%r, %r], scale=%r" % (float(el.min()), float(el.max()), sc))
            check_area_property(v, "array", A, tr)
            up = A.up_sample()
            dups = bool(check_up_sample(v, "array", tr, up, tol, False))
            v.ok(rel_close(up.area, A.area), "array.up_sample:area", lambda: "reported area %r -> %r" % (A.area, up.area))
            nb = A.neighborhood()
            dupn = bool(check_neighborhood(v, "array", tr, nb, tol, False))
            K = len(tris_of(nb))
            if N <= 40:
                up_tr, nb_tr = tris_of(up), tris_of(nb)
                check_up_sample(v, "array", up_tr, up.up_sample(), tol / 2, False)
                check_neighborhood(v, "array", up_tr, up.neighborhood(), tol / 2, False)
                check_up_sample(v, "array", nb_tr, nb.up_sample(), tol, False)
                check_neighborhood(v, "array", nb_tr, nb.neighborhood(), tol, False)
            for aff in affine_menu(seed):
                B, b_tr = check_with_vertices(v, "array", A, tr, aff)
                if tris_of(B).shape == b_tr.shape:
                    check_up_sample(v, "array", b_tr, B.up_sample(), REL * min_edge(b_tr), False)
            check_for_indexes(v, "array", A, tr, selections_large(N), tol)
            n_in, n_out, n_und = check_shapes(v, A, None, tr, sc, seed)
        # the produced set is a set of distinct triangles whose vertices reach the requested limits
        ids = cluster_ids([tr], tol)
        keys = tri_keys(ids[0])
        # NOT a violation: the statement only uses for_limits_and_scale as a producer of input sets. Exact duplicate
        # rows (ArrayTriangles lists every odd-row triangle twice, abstract.py:153/163) are recorded in the census only.
        limdup = int(len(set(keys)) != len(keys))
        pts = tr.reshape(-1, 2)
        slack = 1e-9 * sc
        cover = (pts[:, 0].min() <= first[0] + slack and pts[:, 0].max() >= first[1] - slack
                 and pts[:, 1].min() <= second[0] + slack and pts[:, 1].max() >= second[1] - slack)
        v.ok(cover, "%s.for_limits_and_scale:covers-limits" % rep,
             lambda: "vertex ranges [%r,%r]x[%r,%r] do not reach limits %s x %s"
             % (pts[:, 0].min(), pts[:, 0].max(), pts[:, 1].min(), pts[:, 1].max(), first, second))
        v.nontrivial = is_nontrivial(tr, tol, 1 if rep == "coord" else 0) and n_in > 0
        v.outcome = "limits:%s:N%d:nb%d:arraydup%d%d:limdup%d" % (rep, N, K, dupn, dups, limdup)
    elif kind == "scale":
        _, w, h, ox, oy, bits, fl, side, xo, yo, seed = case
        T = CoordinateArrayTriangles(coordinates=window_coords(w, h, ox, oy, bits), side_length=side,
                                     x_offset=xo, y_offset=yo, flipped=bool(fl))
        tr = tris_of(T)
        tol = vtol(side, tr)
        N, K, dupn, dups = examine_coord(v, T, side, seed, depth=1, small_sel=True, tol=tol)
        A = T.with_vertices(T.vertices)
        n_in, n_out, n_und = check_shapes(v, A, T, tr, side, seed, n=5, sfx=":scale")
        v.nontrivial = n_in > 0 and n_out > 0
        v.outcome = "scale:1e%d:N%d:in%d" % (int(math.floor(math.log10(side) + 1e-9)), N, min(n_in, 1))
    elif kind == "refine":
        from autoarray.structures.triangles import shape as S

        _, w, h, ox, oy, bits, fl, side0, xo, yo, levels, seed = case
        T = CoordinateArrayTriangles(coordinates=window_coords(w, h, ox, oy, bits), side_length=side0,
                                     x_offset=xo, y_offset=yo, flipped=bool(fl))
        deepest, n_in = run_refine(v, S, T, side0, levels, seed)
        v.nontrivial = n_in > 0 and deepest <= side0 * 2.0 ** -(levels - 1)
        v.outcome = "refine:N%d:deepest1e%d" % (len(tris_of(T)), int(math.floor(math.log10(deepest))))
    elif kind in ("fan", "strip", "patch"):
        from autoarray.structures.triangles import shape as S

        if kind == "fan":
            _, ring, bits, closed, seed = case
            vx, ix = fan_mesh(ring, bits, closed, seed)
            A = ArrayTriangles(indices=ix.copy(), vertices=vx.copy())
        elif kind == "strip":
            _, n, code, variant, seed = case
            vx, ix = strip_mesh(n, code, variant, seed)
            A = ArrayTriangles(indices=ix.copy(), vertices=vx.copy())
        else:
            _, w, h, ox, oy, bits, move, seed = case
            vi, ix = int_lattice_set(w, h, ox, oy, bits)
            v1 = vi.astype(float) * np.array([0.5, 0.5 * 3 ** 0.5 / 2])
            vx = patch_moved(vi, move, seed, salt=(ox, oy, bits))
            A = ArrayTriangles(indices=ix.copy(), vertices=v1).with_vertices(vx.copy())
        N, K, dupn, dups, n_in = examine_mesh(v, S, A, vx, ix)
        v.nontrivial = N >= 2 and n_in > 0
        v.outcome = "%s:N%d:nb%d:arraydup%d%d" % (kind, N, K, dupn, dups)
    elif kind == "hist":
        from autoarray.structures.triangles import shape as S

        _, w, h, ox, oy, bits, fl, side, xo, yo, seed = case
        co = window_coords(w, h, ox, oy, bits)
        oth = co + np.array([5, 2])  # parity of every coordinate sum changes and so does `flipped`: the same orientation pattern

        def mk_parent():
            return CoordinateArrayTriangles(coordinates=co.copy(), side_length=side, x_offset=xo, y_offset=yo, flipped=bool(fl))

        def mk_other():
            return CoordinateArrayTriangles(coordinates=oth.copy(), side_length=2.0 * side, x_offset=yo - 0.25, y_offset=xo + 0.5,
                                            flipped=not bool(fl))

        T = mk_parent()
        ptr = np.array(tris_of(T))
        tol = REL * side
        check_histories(v, S, "coord", mk_parent, mk_other, ptr, tol, True)
        pvx, pix = np.array(T.vertices, float), np.array(T.indices)
        O = mk_other()
        ovx, oix = np.array(O.vertices, float), np.array(O.indices)
        check_histories(v, S, "array", lambda: ArrayTriangles(indices=pix.copy(), vertices=pvx.copy()),
                        lambda: ArrayTriangles(indices=oix.copy(), vertices=ovx.copy()), pvx[pix], tol, False)
        v.nontrivial = True
        v.outcome = "hist:N%d" % len(ptr)
    else:
        raise ValueError("unknown case kind %r" % (kind,))
    return v.result()
