"""C15 - preloaded and cached intermediate results never change inversion outputs (histex engine)."""
import itertools

import numpy as np

from mc import dom, fix_inv, histex
from mc.core import V

ID = "C15"
ENGINE = "histex"
CHUNK = 2
RULE = (
    "one case = one object graph (dataset, ordered linear-object list, formalism setting, one assignment of the public "
    "preload slots {w_tilde, use_w_tilde in {absent,True,False}, curvature_matrix, regularization_matrix+log-det, "
    "operated_mapping_matrix} filled from an identical independent inversion); on it all histories of successive "
    "inversions sharing the Preloads object and the dataset are explored breadth-first with state de-duplication "
    "(events: inversion read in one of 3 orders x fresh or reused linear objects); non-trivial = at least one slot "
    "is filled"
)
ASSUMPTIONS = [
    "state = contents of the Preloads object, the dataset (incl. cached convolver / w-tilde / grids) and the reused "
    "linear objects; two histories reaching the same contents have the same futures",
    "reference outputs come from an inversion without preloads on an identical, separately built dataset; cross-"
    "formalism agreement of the reference itself is C04's subject (tolerance here 1e-8 relative)",
]
BOUNDS = {
    "quick": "2 masks x PSF kind alternating x 6 object lists (one of function objects only) x 2 formalism settings x 48 slot assignments; 9 events (4 read orders x "
             "fresh/reused objects + interleaved pair) + with the w-tilde slot: a second image sharing the tables, tables from a noise-map scaled by 1+4e-6 and by 3 "
             "(must be rejected or transparent); histories to depth 3; plus every slot subset on the dataset in units of 1e-9 (depth 2)",
    "thorough": "6 masks x both PSF kinds x 8 object lists x 2 formalism settings x 48 slot assignments; histories to depth 4",
}

OUT = ["data_vector", "curvature_matrix", "regularization_matrix", "reconstruction", "mapped_reconstructed_data",
       "regularization_term", "log_det_curvature_reg_matrix_term", "log_det_regularization_matrix_term", "curvature_reg_matrix"]
ORDERS = {
    "natural": list(OUT),
    "reg-sum-first": ["curvature_reg_matrix", "reconstruction", "data_vector", "regularization_matrix", "mapped_reconstructed_data",
                      "log_det_regularization_matrix_term", "log_det_curvature_reg_matrix_term", "regularization_term", "curvature_matrix"],
    "lazy-last-first": list(reversed(OUT)),
    # curvature_matrix re-read between the in-place F+H sum and its later consumers
    "curvature-between-consumers": ["reconstruction", "curvature_matrix", "log_det_curvature_reg_matrix_term", "curvature_reg_matrix",
                                    "regularization_matrix", "data_vector", "mapped_reconstructed_data", "regularization_term",
                                    "log_det_regularization_matrix_term"],
}
# two live inversions sharing the Preloads object, read alternately
PAIR_ORDER = ["curvature_matrix", "reconstruction", "curvature_reg_matrix", "log_det_curvature_reg_matrix_term", "data_vector",
              "regularization_matrix", "mapped_reconstructed_data", "regularization_term", "log_det_regularization_matrix_term"]
SLOTS = ["w_tilde", "curvature_matrix", "regularization_matrix", "operated_mapping_matrix"]

LISTS = [
    [["rectA"], [True]],
    [["rectA", "func"], [True, False]],
    [["rectA", "rectB"], [True, True]],
    [["del"], [True]],
    [["funcS", "rectB"], [False, True]],
    [["del", "rectA"], [True, False]],
    [["rectB", "func", "del"], [True, False, True]],
    [["func", "rectA"], [True, True]],
    [["funcS", "rectA", "func"], [False, True, False]],
    # lists holding linear function objects only: the factory must fall back to the mapping formalism whatever the preloads say
    [["func", "funcB"], [False, False]],
    [["funcS"], [False]],
]
# dimension of each output in powers of the data units (data and noise scaled together): floors of the absolute tolerances
DIM = {"data_vector": -1, "curvature_matrix": -2, "regularization_matrix": -2, "curvature_reg_matrix": -2, "reconstruction": 1,
       "mapped_reconstructed_data": 1}
SMALL_UNITS = 1e-9


def cases(tier, seed):
    masks = [0b111111111, 0b101110111] if tier == "quick" else [0b111111111, 0b101110111, 0b000111010, 0b110011001, 0b010111010, 0b111101111]
    lists = [LISTS[i] for i in (0, 1, 3, 4, 8, 9)] if tier == "quick" else LISTS
    depth = 3 if tier == "quick" else 4
    for mi, bits in enumerate(masks):
        for li, ol in enumerate(lists):
            kinds = ["nonneg", "signed"] if tier == "thorough" else [("nonneg", "signed")[(mi + li) % 2]]
            for kind in kinds:
                for wt in (False, True):
                    for uw in (None, True, False):
                        for r in range(len(SLOTS) + 1):
                            for sub in itertools.combinations(SLOTS, r):
                                yield [[5, 5], [3, 3], bits, kind, 1 + (bits + li) % 2, ol, wt, uw, list(sub), depth, seed]
                    # the regularization matrix preloaded WITHOUT its log-determinant, and the per-object dictionaries the w-tilde
                    # formalism accepts for lists that contain linear function objects
                    extra = [["regularization_matrix_only"], ["regularization_matrix_only", "curvature_matrix"]]
                    if wt and any(k.startswith("func") for k in ol[0]) and not all(k.startswith("func") for k in ol[0]):
                        extra += [["mapper_operated_mapping_matrix_dict"], ["linear_func_operated_mapping_matrix_dict"], ["data_linear_func_matrix_dict"],
                                  ["mapper_operated_mapping_matrix_dict", "linear_func_operated_mapping_matrix_dict", "data_linear_func_matrix_dict", "w_tilde"]]
                    for sub in extra:
                        yield [[5, 5], [3, 3], bits, kind, 1 + (bits + li) % 2, ol, wt, None, list(sub), depth, seed]
                    # the same dataset in very small units (noise-map ~1e-9): every slot subset and the dictionary slots
                    if mi == 0 or tier == "thorough":
                        subs = [list(sub) for r in range(len(SLOTS) + 1) for sub in itertools.combinations(SLOTS, r)] + [list(e) for e in extra]
                        for sub in subs:
                            yield [[5, 5], [3, 3], bits, kind, 1 + (bits + li) % 2, ol, wt, None, sub, depth - 1, seed, SMALL_UNITS]


class Graph:
    def __init__(self, case):
        self.case = case
        frame, ks, bits, kind, sub, (kinds, regs), wt, uw, slots, depth, seed = case[:11]
        self.units = case[11] if len(case) > 11 else 1.0
        self.all_func = all(k.startswith("func") for k in kinds)
        self.name = "C15-graph"
        self.wt, self.uw, self.slots, self.depth = wt, uw, slots, depth
        self.events = []
        for oname in ORDERS:
            for reuse in (False, True):
                self.events.append(("inv[%s,%s]" % (oname, "reused-objs" if reuse else "fresh-objs"), self._mk(oname, reuse)))
        self.events.append(("inv-pair[interleaved reads,fresh-objs]", self._mk_pair()))
        if "regularization_matrix_only" in slots:
            self.events.append(("two Preloads in succession, the second array re-using the freed address of the first", self._mk_addr()))
        if "w_tilde" in slots:
            self.events.append(("inv on a second image (same noise-map, PSF, mask) sharing the Preloads", self._mk_second_image()))
            for fac in (1.0 + 4e-6, 3.0):
                self.events.append(("inv with w_tilde tables preloaded from a noise-map scaled by %r: rejected or transparent" % fac, self._mk_mismatch(fac)))
        # reference without preloads, on an independent identical dataset
        fx, objs = self._fresh()
        # the formalism the factory will actually pick: the preload slot can only switch w-tilde OFF
        self.eff = bool(wt and (uw is None or uw)) and not self.all_func
        st = self._st(fx["aa"], self.eff)
        inv = fx["aa"].Inversion(dataset=fx["ds"], linear_obj_list=objs, settings=st)
        self.ref = {k: np.array(getattr(inv, k), dtype=float).copy() for k in OUT}
        # the solution inherits round-off of F, D amplified by the conditioning of F+H (unregularized objects only carry
        # the 1e-3 ridge): tolerance on the reconstruction (and what is derived from it) is condition-aware
        A = self.ref["curvature_matrix"] + self.ref["regularization_matrix"]
        self.cond = float(np.linalg.cond(A))
        self.tol = {k: 1e-8 for k in OUT}
        for k in ("reconstruction", "mapped_reconstructed_data", "regularization_term"):
            self.tol[k] = max(1e-8, 1e-13 * self.cond)
        # "the factory's choice changes only performance": loose cross-formalism reference (exact agreement of the two
        # formalisms is C04's subject; the solution of an ill-conditioned system may differ at the 1e-7 level)
        self.ref_other = None
        if self.eff != bool(wt):
            fx2, objs2 = self._fresh()
            inv2 = fx2["aa"].Inversion(dataset=fx2["ds"], linear_obj_list=objs2, settings=self._st(fx2["aa"], wt))
            self.ref_other = {k: np.array(getattr(inv2, k), dtype=float).copy() for k in OUT}

    def _st(self, aa, wt):
        return fix_inv.settings(aa, wt, diag=1e-3 / self.units ** 2)

    def _objs(self, fx, coefficient=1.0):
        frame, ks, bits, kind, sub, (kinds, regs), wt, uw, slots, depth, seed = self.case[:11]
        if self.units == 1.0:
            return [fix_inv.make_obj(fx, k, reg=r, seed=seed, coefficient=coefficient) for k, r in zip(kinds, regs)]
        # the regularization matrix goes with the coefficient squared: scaled with the units the system is an exact rescaling.
        # The Constant scheme's fixed 1e-8 ridge is lost in round-off at such coefficients (numerically singular matrix, no
        # defined log-determinant), so the other-units family uses the scheme that is positive definite by itself.
        aa = fx["aa"]
        c = coefficient / self.units
        return [fix_inv.make_obj(fx, k, reg=r, seed=seed, regularization=aa.reg.ConstantZeroth(coefficient_neighbor=c, coefficient_zeroth=c) if r else None)
                for k, r in zip(kinds, regs)]

    def _fresh(self, noise_factor=1.0):
        frame, ks, bits, kind, sub, (kinds, regs), wt, uw, slots, depth, seed = self.case[:11]
        fx = fix_inv.make_dataset(frame, ks, bits, psf_kind=kind, seed=seed, sub=sub, units=self.units, noise_factor=noise_factor)
        return fx, self._objs(fx)

    def _floor(self, k):
        return self.units ** DIM.get(k, 0)

    def _differs(self, k, val, ref):
        """0.0 if val equals ref within the tolerance of output k, else the largest difference."""
        scale = max(self._floor(k), float(np.abs(ref).max()) if ref.size else 0.0)
        if val.shape == ref.shape and np.allclose(val, ref, rtol=self.tol[k], atol=self.tol[k] * scale):
            return 0.0
        return float(np.abs(val - ref).max()) if val.shape == ref.shape else float("inf")

    def build(self):
        fx, objs = self._fresh()
        aa = fx["aa"]
        # source of the preloaded quantities: an identical, separately built dataset and objects
        fxs, objs_s = self._fresh()
        src = aa.Inversion(dataset=fxs["ds"], linear_obj_list=objs_s, settings=self._st(aa, self.wt))
        kw = {}
        if "curvature_matrix" in self.slots:
            kw["curvature_matrix"] = np.array(src.curvature_matrix).copy()
        if "regularization_matrix" in self.slots:
            kw["regularization_matrix"] = np.array(src.regularization_matrix).copy()
            kw["log_det_regularization_matrix_term"] = float(src.log_det_regularization_matrix_term)
        if "regularization_matrix_only" in self.slots:
            kw["regularization_matrix"] = np.array(src.regularization_matrix).copy()
        for dslot in ("mapper_operated_mapping_matrix_dict", "linear_func_operated_mapping_matrix_dict", "data_linear_func_matrix_dict"):
            if dslot in self.slots:
                kw[dslot] = {k: np.array(val).copy() for k, val in getattr(src, dslot).items()}
        if "operated_mapping_matrix" in self.slots:
            kw["operated_mapping_matrix"] = np.array(src.operated_mapping_matrix).copy()
        if "w_tilde" in self.slots:
            kw["w_tilde"] = fxs["ds"].w_tilde
        if self.uw is not None:
            kw["use_w_tilde"] = self.uw
        pre = aa.Preloads(**kw)
        return {"aa": aa, "fx": fx, "ds": fx["ds"], "objs": objs, "pre": pre, "kw": kw}

    def roots(self, ctx):
        return {"pre": ctx["pre"], "ds": ctx["ds"], "objs": ctx["objs"]}

    def inputs(self, ctx):
        d = {}
        for k, val in ctx["kw"].items():
            d["Preloads.%s" % k] = val
        return d

    def _mk(self, oname, reuse):
        def fn(ctx):
            aa = ctx["aa"]
            objs = ctx["objs"] if reuse else self._objs(ctx["fx"])
            st = self._st(aa, self.wt)
            inv = aa.Inversion(dataset=ctx["ds"], linear_obj_list=objs, settings=st, preloads=ctx["pre"])
            got = {}
            for k in ORDERS[oname]:
                val = getattr(inv, k)
                if k in OUT:
                    got[k] = np.array(val, dtype=float).copy()
            return [got[k] for k in OUT]

        return fn

    def _mk_pair(self):
        def fn(ctx):
            aa = ctx["aa"]
            invs = []
            for _ in range(2):
                invs.append(aa.Inversion(dataset=ctx["ds"], linear_obj_list=self._objs(ctx["fx"]), settings=self._st(aa, self.wt), preloads=ctx["pre"]))
            got = [{}, {}]
            for k in PAIR_ORDER:
                for i, inv in enumerate(invs):  # A.k, B.k, then the next quantity
                    got[i][k] = np.array(getattr(inv, k), dtype=float).copy()
            return [got[0][k] for k in OUT] + [got[1][k] for k in OUT]

        return fn

    def _mk_addr(self):
        """
        A preloaded matrix is identified by its CONTENT: preload H (coefficient 1), use it, free it, then preload a different matrix
        H' (coefficient 3) that occupies the same address (CPython hands a freed ndarray header straight back to the next same-size
        allocation) and check the outputs are those of H'. Returns the outputs of the second inversion followed by a marker.
        """
        def fn(ctx):
            aa = ctx["aa"]

            def objs_with(c):
                return self._objs(ctx["fx"], coefficient=c)

            st = lambda: self._st(aa, self.wt)  # noqa: E731
            H1 = np.array(aa.Inversion(dataset=ctx["ds"], linear_obj_list=objs_with(1.0), settings=st()).regularization_matrix).copy()
            H3 = np.array(aa.Inversion(dataset=ctx["ds"], linear_obj_list=objs_with(3.0), settings=st()).regularization_matrix)
            want = float(aa.Inversion(dataset=ctx["ds"], linear_obj_list=objs_with(3.0), settings=st()).log_det_regularization_matrix_term)
            a = H1.copy()
            addr = id(a)
            first = float(aa.Inversion(dataset=ctx["ds"], linear_obj_list=objs_with(1.0), settings=st(), preloads=aa.Preloads(regularization_matrix=a)).log_det_regularization_matrix_term)
            del a
            got, reused = None, False
            for _ in range(8):
                b = H3.copy()
                reused = id(b) == addr
                got = float(aa.Inversion(dataset=ctx["ds"], linear_obj_list=objs_with(3.0), settings=st(), preloads=aa.Preloads(regularization_matrix=b)).log_det_regularization_matrix_term)
                if reused or abs(got - want) > 1e-8 * max(1.0, abs(want)):
                    break
                del b
            return [np.array([got - want]), np.array([0.0 * first])]

        return fn

    def _mk_second_image(self):
        """
        The w-tilde tables depend on noise-map, PSF and mask only: a dataset with ANOTHER image and the same noise-map, PSF and mask
        that shares the Preloads object must give the values of its own no-preload inversion (or be rejected). Returns, per output,
        0.0 or the difference from that reference.
        """
        def fn(ctx):
            aa, fx = ctx["aa"], ctx["fx"]
            ds = ctx["ds"]

            def second():
                shape = ds.data.native.shape
                new = np.array(ds.data.native) * 1.7 + 0.3 * self.units * (np.arange(shape[0] * shape[1]) % 3).reshape(shape)
                return aa.Imaging(data=aa.Array2D(values=new, mask=fx["mask"]), noise_map=aa.Array2D(values=np.array(ds.noise_map.native).copy(), mask=fx["mask"]),
                                  psf=aa.Kernel2D.no_mask(values=fx["kernel"].copy(), pixel_scales=fx["mask"].pixel_scales), over_sampling=ds.over_sampling,
                                  use_normalized_psf=False)

            want_inv = aa.Inversion(dataset=second(), linear_obj_list=self._objs(fx), settings=self._st(aa, self.eff))
            want = {k: np.array(getattr(want_inv, k), dtype=float).copy() for k in OUT}
            try:
                inv = aa.Inversion(dataset=second(), linear_obj_list=self._objs(fx), settings=self._st(aa, self.wt), preloads=self._pre_for_second(ctx))
                got = {k: np.array(getattr(inv, k), dtype=float).copy() for k in ORDERS["natural"]}
            except aa.exc.InversionException:
                return [np.array([0.0]) for _ in OUT]
            return [np.array([self._differs(k, got[k], want[k])]) for k in OUT]

        return fn

    def _pre_for_second(self, ctx):
        # only the slots that do not depend on the image: the w-tilde tables (and the formalism switch) of the shared Preloads
        kw = {"w_tilde": ctx["pre"].w_tilde}
        if self.uw is not None:
            kw["use_w_tilde"] = self.uw
        return ctx["aa"].Preloads(**kw)

    def _mk_mismatch(self, fac):
        """
        Tables preloaded from a dataset whose noise-map differs by the factor `fac` were NOT computed from an identical dataset; the
        library's consistency check exists to reject them. Accepted outcomes: InversionException, or values equal to the no-preload ones.
        """
        def fn(ctx):
            aa = ctx["aa"]
            fxo, _ = self._fresh(noise_factor=fac)
            kw = {"w_tilde": fxo["ds"].w_tilde}
            if self.uw is not None:
                kw["use_w_tilde"] = self.uw
            try:
                inv = aa.Inversion(dataset=ctx["ds"], linear_obj_list=self._objs(ctx["fx"]), settings=self._st(aa, self.wt), preloads=aa.Preloads(**kw))
                got = {k: np.array(getattr(inv, k), dtype=float).copy() for k in ORDERS["natural"]}
            except aa.exc.InversionException:
                return [np.array([0.0]) for _ in OUT]
            return [np.array([self._differs(k, got[k], self.ref[k])]) for k in OUT]

        return fn

    def check(self, ctx, idx, res, hist_labels):
        label0 = self.events[idx][0]
        if label0.startswith("inv on a second image") or label0.startswith("inv with w_tilde tables preloaded from a noise-map scaled"):
            if res[0] != "ok":
                return [{"finding": "inversion-with-preloads:exception", "msg": "%s after %s: %s" % (label0, hist_labels, res[1:])}]
            viol = []
            for k, d in zip(OUT, res[1]):
                if float(d[0]) != 0.0:
                    what = "second-image-sharing-w-tilde-preload" if label0.startswith("inv on a second image") else "mismatched-w-tilde-tables-accepted"
                    viol.append({"finding": "not-transparent:%s:%s" % (k, what),
                                 "msg": "slots=%s use_w_tilde slot=%s setting w_tilde=%s units=%g; %s after %s: %s differs from the no-preload value by %g"
                                        % (self.slots, self.uw, self.wt, self.units, label0, hist_labels, k, float(d[0]))})
            return viol
        if self.events[idx][0].startswith("two Preloads in succession"):
            if res[0] != "ok":
                return [{"finding": "inversion-with-preloads:exception", "msg": "%s: %s" % (self.events[idx][0], res[1:])}]
            d = float(res[1][0][0])
            if abs(d) > 1e-8 * max(1.0, abs(float(self.ref["log_det_regularization_matrix_term"]))):
                return [{"finding": "not-transparent:log_det_regularization_matrix_term:second-preloads-object",
                         "msg": "a second Preloads(regularization_matrix=H') whose array re-uses the address of an earlier, freed preload gives a log-determinant off by %g" % d}]
            return []
        viol = []
        label = self.events[idx][0]
        if res[0] != "ok":
            viol.append({"finding": "inversion-with-preloads:exception", "msg": "%s after %s: %s" % (label, hist_labels, res[1:])})
            return viol
        for k, val in zip(OUT * (len(res[1]) // len(OUT)), res[1]):
            ref = self.ref[k]
            scale = max(self._floor(k), float(np.abs(ref).max()) if ref.size else 0.0)
            if val.shape != ref.shape or not np.allclose(val, ref, rtol=self.tol[k], atol=self.tol[k] * scale):
                which = "first-inversion" if not hist_labels else "reuse"
                viol.append({"finding": "not-transparent:%s:%s" % (k, which),
                             "msg": "slots=%s use_w_tilde slot=%s setting w_tilde=%s %s after %s: %s differs from the no-preload value by %s"
                                    % (self.slots, self.uw, self.wt, label, hist_labels, k, dom.maxdiff(val, ref))})
            if self.ref_other is not None:
                ro = self.ref_other[k]
                tol = 1e-5 if k == "reconstruction" else 1e-6
                if val.shape != ro.shape or not np.allclose(val, ro, rtol=tol, atol=tol * max(self._floor(k), float(np.abs(ro).max()) if ro.size else 0.0)):
                    viol.append({"finding": "factory-choice-changes-values:%s" % k,
                                 "msg": "use_w_tilde slot=%s vs setting %s: %s differs by %s" % (self.uw, self.wt, k, dom.maxdiff(val, ro))})
        return viol


_G = {}


def graph_for(key):
    k = repr(key)
    if k not in _G:
        _G.clear()
        _G[k] = Graph(key)
    return _G[k]


def run_case(case):
    v = V(ID)
    g = graph_for(case)
    st = histex.bfs(g, g.depth)
    v.checks = st["transitions"]
    v.nontrivial = bool(case[8]) or case[7] is not None
    v.outcome = "states=%d:transitions=%d" % (st["states"], st["transitions"])
    seenf = set()
    for hist, ev, finding, msg in st["violations"]:
        # finding classes name the law, not the particular pair of event labels
        if finding.startswith("mutates:"):
            finding = finding.split("<-")[0]
        elif finding.startswith("order-dependence:"):
            finding = "outputs-change-between-successive-inversions"
        elif finding.startswith("exception-differs:"):
            finding = "exception-on-reuse"
        if finding in seenf:
            continue
        seenf.add(finding)
        v.violations.append({"finding": "%s:%s" % (ID, finding), "msg": "history=%s event=%s :: %s" % (hist, ev, msg)})
    return v.result()
