"""C16 - FITS output followed by input reproduces values, orientation and pixel scale.

Every case works in its own fresh scratch directory (removed in a ``finally``), sets the DS9 flip option
explicitly in the loaded configuration (restored in a ``finally``) and drives the REAL writers / readers.
Expected values are the plain numpy arrays the objects were built from (masked pixels -> 0, masks -> the
same booleans); the overwrite clause is checked against a 3-state reference model {absent, A, B} by
replaying every event history from a fresh directory, started from every state of the output directory
(existing, 1..3 missing levels, bare file name). Configuration histories switch the DS9 flip option inside
the running process between round trips; the reference model reads the option at every single call.
"""
import hashlib
import itertools
import os
import shutil
import tempfile
import traceback
from pathlib import Path

import numpy as np

from mc import dom
from mc.core import V

ID = "C16"
ENGINE = "scope"
CHUNK = 16
RULE = (
    "cases = (a) every 1D mask of length <= L x scales x flip for Array1D / Mask1D, (b) every 2D mask of every "
    "shape with <= N cells (plus fixed asymmetric masks on the larger frames) x 3 pixel scales (one isotropic, two "
    "anisotropic) x flip_for_ds9 in {F,T} for Array2D (masked pixels must read back as 0) and Mask2D (incl. invert "
    "and resized_mask_shape), (c) every kernel shape x scales x flip for Kernel2D, (d) Imaging triples, each through "
    "all routes: file, file->from_primary_hdu, hdu_for_output->from_primary_hdu, hdu_for_output->file->from_fits, "
    "hdu index 0/1 of a two-HDU file; (e) every writer (2D arrays, masked arrays, masks, kernels, 1D arrays, 1D masks, "
    "util-level 2D / 1D writers, Imaging.output_to_fits) x target kind = state of the output directory path "
    "{0,1,2 levels already existing} x {0,1,2,3 levels missing} x spelling {absolute str, relative str, ./-prefixed, "
    "pathlib absolute, pathlib relative} incl. the bare file name in a scratch cwd (23 kinds, table TARGET_SPEC) x "
    "overwrite x flip: the write must succeed, the content must sit at the absolute and at the given path, the "
    "directories below the scratch directory must afterwards be exactly the chain named by the path, no stray files, "
    "and the overwrite / no-overwrite semantics must hold for that spelling; (f) every event history up to the "
    "stated depth over {write A, write B} x {overwrite F,T} + delete per writer x flip, replayed from a fresh "
    "directory and compared after every event with the 3-state file model; after every successful write of a history "
    "the path is also read back through the LIBRARY reader (from_fits of the writer's class, Imaging.from_fits, "
    "util *_via_fits_from + header_obj_from) inside the same process, and values, shape and the header objects "
    "(NAXIS, NAXIS1/2, PIXSCALE*) must be those of the content just written (A and B differ in shape and pixel scale); "
    "(f') the same file model extended by the state of the output directory: state = (missing directory levels, "
    "absent|A|B), initial states {directory exists, 1, 2, 3 missing levels, bare file name in the cwd}, events as in "
    "(f) + rmtree (the harness removes the directories the writer had created, putting the directory back into its "
    "initial state); a write that the model does not reject must succeed whatever levels are missing and leaves exactly "
    "the directory chain of the path; every shorter history from every initial state x writer x flip, "
    "(h) CONFIGURATION HISTORIES inside one process: for every binary sequence s_0..s_k of settings of "
    "general.fits.flip_for_ds9 (constant sequences, both switch directions, switch and switch back) the option is "
    "switched in the running process (item assignment on the loaded configuration section, or conf.instance.push of a "
    "configuration directory holding the other value) and after every switch fresh content that differs from its "
    "vertical flip goes through hdu_for_output->from_primary_hdu, output_to_fits->from_fits, file->from_primary_hdu "
    "and hdu_for_output->file->from_fits for Array2D, masked Array2D, Mask2D, Kernel2D, the util-level 2D functions, "
    "Array1D, Mask1D, the util-level 1D functions and Imaging; reference model = the option is read at every call: "
    "each round trip is the identity and the stored data are flipud(native) iff the option is on at the time of the write, "
    "(g) DERIVED masked arrays: every mask with >= 1 masked and >= 1 unmasked pixel x flip, the array built with "
    "store_native in {F,T} and then changed by arithmetic (+100, *2+1), with_new_array, item assignment at a masked "
    "pixel, or built with skip_mask=True from a buffer that is non-zero at masked pixels, written through the file and "
    "HDU routes: read-back must be where(mask, 0, values). non-trivial = content is "
    "orientation-sensitive (first axis >= 2 with injective values), or target is not a plain existing directory, or "
    "the history writes onto an existing file at least once or creates directories from a non-default directory state "
    "/ after an rmtree / for a bare name, or the configuration history contains at least one switch, or (derived) the "
    "stored buffer really holds non-zero values at masked pixels; "
    "(i) RE-USED HEADER-DATA UNITS: one unit is obtained in every way a caller obtains one - the library writer's file "
    "(Array2D, masked Array2D, Kernel2D, Mask2D, Array1D, masked Array1D, Mask1D) opened with astropy.io.fits.open (each "
    "listed combination of mode / memmap; the data arrive big-endian), the writer's HDU stored as image extension 1 of a "
    "two-HDU file, hdu_for_output (in memory, native), a PrimaryHDU / ImageHDU the caller builds from an array of each "
    "listed dtype and byte order (big- and little-endian float64, float32, int32, int16, int64; exactly representable "
    "injective signed values) - and is then read by EVERY sequence of the stated length over the from_primary_hdu "
    "readers of its dimension (2D: Array2D, Kernel2D, Mask2D; 1D: Array1D, Mask1D; real-valued content: the value "
    "readers only, 0/1 content: all readers), with and without the caller looking at hdu.data before the first read, "
    "x flip. Reference model: a reader is a pure function of the unit, so read k returns the written content (value "
    "readers: native values as float64; mask readers: the booleans) and pixel scale whatever was read before; after "
    "every read the caller's hdu.data (values, shape, dtype incl. byte order), its PIXSCALE / NAXIS / BITPIX cards and "
    "the array the caller built the unit from are unchanged, objects returned by earlier reads keep their values and "
    "the file on disk keeps its bytes after the caller closes it; non-trivial (i) = at least two reads of content "
    "that differs from its vertical flip / reversal"
)
ASSUMPTIONS = [
    "I/O code is value-oblivious: injective, non-symmetric, signed float64 labellings that include 5e-30 and -6e30 "
    "(instantiated from VERIF_SEED) represent all real value arrays; FITS stores float64 so equality is exact",
    "pixel scales come from a fixed menu of short decimals {0.7, (0.5,2.0), (2.0,0.5)} / {0.7, 2.0} (FITS header "
    "cards hold 16 significant digits, so arbitrary doubles need not survive a header bit-for-bit); compared at 1e-12 relative",
    "Mask2D.from_fits(resized_mask_shape=s) is compared with Mask2D.resized_from(s) of the original mask (the "
    "resize law itself is property C14); Imaging re-normalises its PSF on construction, so the PSF of an Imaging "
    "round trip is compared at 1e-12 relative, everything else exactly",
    "flip_for_ds9 is switched per case by mutating conf.instance['general']['fits'] (same mechanism the library reads); "
    "configuration histories additionally switch it by conf.instance.push of a directory whose general.yaml holds only "
    "fits.flip_for_ds9 (the pushed stack is restored in a finally block); they use the isotropic scale 0.7 only and "
    "judge round trips made entirely under one setting (a file written under one setting and read under the other is "
    "not a round trip of the property and is not judged)",
    "directory levels are plain ASCII names without symlinks on the local file system; the rmtree event removes only "
    "levels the writer itself had to create",
    "derived arrays use the isotropic scale only (the pixel scale is orthogonal to the masked-pixels-are-zero clause and is "
    "covered by the plain routes); in the overwrite histories the library read-back accepts values up to the DS9 flip "
    "(orientation belongs to the round-trip routes, A and B differ in shape so stale content cannot hide) and, for an "
    "anisotropic content, also the header form PIXSCALE=<y scale> that is already reported as pixel_scale_header:anisotropic",
    "re-used header-data units use the isotropic scale 0.7 (the header cards are checked to be untouched by every read) and, "
    "for mask readers, 0/1 content only (what a mask reader makes of other real values is not stated by the property); "
    "in-memory units of float32 / integer dtype hold values those dtypes represent exactly, unsigned / scaled (BZERO, BSCALE) "
    "units are astropy's pseudo-unsigned machinery and are not enumerated; a change of the caller's unit is attributed to "
    "the read after which it is first seen",
]
BOUNDS = {
    "quick": "1D length <= 6 (all masks); 2D all masks of all shapes with <= 6 cells (1xN, Nx1, 2x2, 2x3, 3x2) + 4 fixed "
    "masks on 3x3, 4x3, 3x4, 2x5; kernels: all shapes <= 6 cells + 3x3, 4x3, 3x4, 5x5; 3 scales x 2 flips; Imaging: 5 frames x "
    "4 psf shapes (incl. none) x 2 mask modes; targets: 9 writers x 23 target kinds (existing levels <= 2, missing levels <= 3, "
    "5 spellings) x overwrite x flip; overwrite histories: "
    "all sequences of depth 1..3 over 5 events (155) x 8 writers x 2 flips (library read-back after every successful write) from "
    "the 1-missing-level state + all sequences of depth 1..2 over 5 (+ rmtree = 6) events from the states {exists, 2 missing, "
    "3 missing, bare file name} and those with an rmtree from the 1-missing-level state (156) x 8 writers x 2 flips; "
    "configuration histories: all binary setting sequences of length 2..3 (12) x {assignment: 2D classes x frames 2x1, 2x3, 3x2; "
    "1D classes x lengths 2, 3; Imaging 2x3 with a 3x1 psf | pushed configuration: frame 2x3 / length 3 per class} x 9 classes; "
    "derived arrays: 1D all mixed masks of length <= 5, 2D all mixed masks of all shapes with <= 4 cells and of 2x3, 3x2 + fixed "
    "masks on 1x5, 5x1, 1x6, 6x1, 3x3, 4x3, 3x4, 2x5; 5 (1D) / 6 (2D) derivations x {file, hdu} x 2 flips; "
    "re-used units: sources = 7 writers x {file, extension 1 of a two-HDU file} x open {default (memmap), memmap=False} + "
    "hdu_for_output per writer + PrimaryHDU from 8 dtypes / byte orders + ImageHDU from >f8; all read sequences of length 2 on "
    "frames 2x1, 2x3, 3x2 / lengths 2, 3 and of length 3 on 2x3 / length 3 (2D real 4+8, 2D mask 9+27, 1D real 1+1, 1D mask "
    "4+8 sequences) x caller inspects first {F,T} x 2 flips (6068 cases)",
    "thorough": "1D length <= 9 (all masks); 2D all masks of all shapes with <= 9 cells + all masks of 4x3 and 3x4; kernels as "
    "quick + 7x1, 1x7, 5x3; Imaging as quick; targets as quick; overwrite histories: all sequences of depth 1..4 (780) x 8 writers x 2 flips "
    "+ all sequences of depth 1..3 from the other directory states (929); configuration histories: all binary sequences of length "
    "2..4 (28) x both mechanisms x 2D frames 2x1, 2x3, 3x2, 2x2, 3x3, 4x3, 5x1, 1D lengths 2, 3, 5, 4 Imaging frame/psf pairs; "
    "derived arrays: 1D all mixed masks of length <= 7, 2D all mixed masks of all shapes with <= 6 cells + fixed masks on the 4 larger frames; "
    "re-used units: open modes {default, memmap=False, memmap=True, update x memmap F/T}, ImageHDU from all 8 dtypes; all read "
    "sequences of length 2 on 2x1, 2x2, 5x1 / lengths 2, 4, of length 3 on 3x2, 3x3, 4x3 / length 5, of length 4 on 2x3 / length 3 "
    "(34668 cases)",
}

SCALES2 = [0.7, (0.5, 2.0), (2.0, 0.5)]
SCALES1 = [0.7, 2.0]
EVENTS = ["wA0", "wA1", "wB0", "wB1", "del"]
OW_WRITERS = ["Array2D", "Mask2D", "Kernel2D", "Array1D", "Mask1D", "util2d", "util1d", "Imaging"]
TG_WRITERS = OW_WRITERS + ["Array2D.masked"]
# target kind -> (spelling of the path handed to the writer, directory levels that already exist below the scratch
# directory, directory levels that are missing when the writer is called). Spellings: abs = absolute str, rel = str
# relative to the scratch cwd, dot = "./"-prefixed relative str, path / relpath = pathlib.Path (absolute / relative).
TARGET_SPEC = {
    "plain": ("abs", 0, 0),
    "dirs1": ("abs", 0, 1),
    "dirs2": ("abs", 0, 2),
    "dirs3": ("abs", 0, 3),
    "exist1": ("abs", 1, 0),
    "exist2": ("abs", 2, 0),
    "exist1-dirs1": ("abs", 1, 1),
    "exist1-dirs2": ("abs", 1, 2),
    "bare": ("rel", 0, 0),
    "dot": ("dot", 0, 0),
    "reldirs1": ("rel", 0, 1),
    "reldirs": ("rel", 0, 2),
    "reldirs3": ("rel", 0, 3),
    "rel-exist1": ("rel", 1, 0),
    "rel-exist1-dirs2": ("rel", 1, 2),
    "dot-dirs2": ("dot", 0, 2),
    "pathobj": ("path", 0, 0),
    "pathobj-dirs1": ("path", 0, 1),
    "pathobj-dirs": ("path", 0, 2),
    "pathobj-dirs3": ("path", 0, 3),
    "pathobj-exist1-dirs2": ("path", 1, 2),
    "bare-pathobj": ("relpath", 0, 0),
    "rel-pathobj-dirs": ("relpath", 0, 2),
}
TARGETS = list(TARGET_SPEC)
LEVELS = ["a", "b", "c", "d", "e"]
# initial directory states of the overwrite histories: (spelling, existing levels, missing levels); "dirs1" is the
# state every depth-3 (depth-4) history starts from, the others are swept with the shorter histories
OW_DIRSTATES = {
    "exist": ("abs", 0, 0),
    "dirs1": ("abs", 0, 1),
    "dirs2": ("abs", 0, 2),
    "dirs3": ("abs", 0, 3),
    "bare": ("rel", 0, 0),
}
EVENTS_DIR = EVENTS + ["rmtree"]  # rmtree: the harness removes the directories the writer had to create
# configuration histories (flip_for_ds9 switched inside one process)
CFG_CLASSES_2D = ["Array2D", "Array2D.masked", "Mask2D", "Kernel2D", "util2d"]
CFG_CLASSES_1D = ["Array1D", "Mask1D", "util1d"]
CFG_MECHS = ["assign", "push"]
FAMILY = {
    "Array2D": "numpy_array_2d_to_fits",
    "Array2D.masked": "numpy_array_2d_to_fits",
    "Mask2D": "numpy_array_2d_to_fits",
    "Kernel2D": "numpy_array_2d_to_fits",
    "Imaging": "numpy_array_2d_to_fits",
    "util2d": "numpy_array_2d_to_fits",
    "Array1D": "numpy_array_1d_to_fits",
    "Mask1D": "numpy_array_1d_to_fits",
    "util1d": "numpy_array_1d_to_fits",
}
BIG_FRAMES = [(3, 3), (4, 3), (3, 4), (2, 5)]
# (i) header-data units that are read more than once / by several classes / inspected by the caller afterwards
HR_READERS = {2: ["Array2D", "Kernel2D", "Mask2D"], 1: ["Array1D", "Mask1D"]}
HR_VALUE_READERS = ("Array2D", "Kernel2D", "Array1D")
HR_WRITERS = {
    (2, "real"): ["Array2D", "Array2D.masked", "Kernel2D"],
    (2, "mask"): ["Mask2D"],
    (1, "real"): ["Array1D", "Array1D.masked"],
    (1, "mask"): ["Mask1D"],
}
# how the caller opens the file: keyword arguments of astropy.io.fits.open
HR_OPEN = {
    "default": {},
    "memmap0": {"memmap": False},
    "memmap1": {"memmap": True},
    "update-memmap0": {"mode": "update", "memmap": False},
    "update-memmap1": {"mode": "update", "memmap": True},
}
# dtypes (explicit byte order) of the arrays in-memory header-data units are built from
HR_DTYPES = [">f8", "<f8", ">f4", "<f4", ">i4", "<i4", ">i2", "<i8"]
IMG_FRAMES = [(1, 3), (3, 1), (2, 3), (3, 3), (4, 3)]
IMG_PSFS = [None, (1, 3), (3, 1), (3, 3)]


# ----------------------------------------------------------------------------- enumeration


def _fixed_masks(h, w):
    """Four fixed, non-symmetric masks for frames too large to enumerate in the quick tier."""
    n = h * w
    out = [0, 1]
    b = 0
    for k in range(n):
        if k % 3 == 1:
            b |= 1 << k
    out.append(b)
    b = 0
    for i in range(h):
        for j in range(w):
            if i == 0 or j == w - 1:
                b |= 1 << (i * w + j)
    b &= ~(1 << (n - w))  # keep the lower-left pixel unmasked
    out.append(b)
    return out


def cases(tier, seed):
    quick = tier == "quick"
    seed = int(seed)
    L = 6 if quick else 9
    N = 6 if quick else 9
    flips = (0, 1)
    # (a) 1D
    for n in range(1, L + 1):
        for bits in range(2 ** n - 1):
            for si in range(len(SCALES1)):
                for f in flips:
                    yield ["arr1d", seed, f, n, bits, si]
    for n in range(1, L + 1):
        for bits in range(2 ** n):
            for si in range(len(SCALES1)):
                for f in flips:
                    yield ["mask1d", seed, f, n, bits, si]
    # (g) derived 1D arrays
    for n in range(2, (5 if quick else 7) + 1):
        for bits in range(1, 2 ** n - 1):
            for f in flips:
                yield ["deriv1d", seed, f, n, bits]
    # (c) kernels
    kshapes = dom.shapes_cells(6) + [(3, 3), (4, 3), (3, 4), (5, 5)]
    if not quick:
        kshapes += [(7, 1), (1, 7), (5, 3)]
    for (h, w) in kshapes:
        for si in range(len(SCALES2)):
            for f in flips:
                yield ["kern2d", seed, f, h, w, si]
    # (i) one header-data unit read several times / by several classes, shortest histories and smallest frames first
    for c in _hdureuse_cases(quick, seed):
        yield c
    # (e) targets
    for wr in TG_WRITERS:
        for tk in TARGETS:
            for ow in (0, 1):
                for f in flips:
                    yield ["target", seed, f, wr, tk, ow]
    # (h) configuration histories inside one process, shortest first
    cdepth = 3 if quick else 4
    cshapes = [(2, 1), (2, 3), (3, 2)] + ([] if quick else [(2, 2), (3, 3), (4, 3), (5, 1)])
    clens = [2, 3] + ([] if quick else [5])
    cimg = [((2, 3), 2)] + ([] if quick else [((3, 1), 3), ((4, 3), 0), ((3, 3), 1)])
    for d in range(2, cdepth + 1):
        for hist in itertools.product((0, 1), repeat=d):
            for mech in CFG_MECHS:
                # a pushed configuration costs ~50 ms per switch: quick tier = one frame per class for that mechanism
                one = quick and mech == "push"
                for cl in CFG_CLASSES_2D:
                    for (h, w) in (cshapes[1:2] if one else cshapes):
                        yield ["cfghist", seed, hist[0], cl, mech, list(hist), [h, w]]
                for cl in CFG_CLASSES_1D:
                    for n in (clens[1:2] if one else clens):
                        yield ["cfghist", seed, hist[0], cl, mech, list(hist), [n]]
                for (h, w), pi in cimg:
                    yield ["cfghist", seed, hist[0], "Imaging", mech, list(hist), [h, w, pi]]
    # (d) imaging
    for (h, w) in IMG_FRAMES:
        for pi in range(len(IMG_PSFS)):
            for mm in (0, 1):
                for si in range(len(SCALES2)):
                    for f in flips:
                        yield ["imaging", seed, f, h, w, pi, mm, si]
    # (f) overwrite histories, shortest first
    depth = 3 if quick else 4
    for d in range(1, depth + 1):
        for hist in itertools.product(range(len(EVENTS)), repeat=d):
            for wr in OW_WRITERS:
                for f in flips:
                    yield ["overwrite", seed, f, wr, [EVENTS[e] for e in hist]]
    # (f') the same file model started from every other state of the output directory (+ the rmtree event, which
    # puts the directory back into its initial state), shorter histories
    for d in range(1, depth):
        for ds, (_, _, n_missing) in OW_DIRSTATES.items():
            for hist in itertools.product(EVENTS_DIR if n_missing else EVENTS, repeat=d):
                if ds == "dirs1" and "rmtree" not in hist:
                    continue  # part of the sweep above
                for wr in OW_WRITERS:
                    for f in flips:
                        yield ["overwrite", seed, f, wr, list(hist), ds]
    # (b) 2D arrays and masks, fewest cells first
    shapes = dom.shapes_cells(N)
    for (h, w) in shapes:
        n = h * w
        for bits in range(2 ** n):
            for si in range(len(SCALES2)):
                for f in flips:
                    if bits != 2 ** n - 1:
                        yield ["arr2d", seed, f, h, w, bits, si]
                    yield ["mask2d", seed, f, h, w, bits, si]
    for (h, w) in BIG_FRAMES:
        n = h * w
        if (h, w) in shapes:
            continue
        if (not quick) and (h, w) in ((4, 3), (3, 4)):
            menu = range(2 ** n)
        else:
            menu = _fixed_masks(h, w)
        for bits in menu:
            for si in range(len(SCALES2)):
                for f in flips:
                    if bits != 2 ** n - 1:
                        yield ["arr2d", seed, f, h, w, bits, si]
                    yield ["mask2d", seed, f, h, w, bits, si]
    # (g) derived 2D arrays, fewest cells first
    full = dom.shapes_cells(4) + [(2, 3), (3, 2)] if quick else dom.shapes_cells(6)
    for (h, w) in dom.shapes_cells(6) + BIG_FRAMES:
        n = h * w
        menu = range(2 ** n) if (h, w) in full else _fixed_masks(h, w)
        for bits in menu:
            if bits == 0 or bits == 2 ** n - 1:
                continue
            for f in flips:
                yield ["deriv2d", seed, f, h, w, bits]


def hr_sources(dim, content, quick):
    """Every way the header-data unit of a case comes about: 'file:<writer>:<open>' = the library writer's file opened
    by the caller with astropy (primary HDU), 'ext:<writer>:<open>' = the writer's HDU stored as image extension 1 of a
    two-HDU file, 'out:<writer>' = hdu_for_output (in memory), 'mem:<dtype>' / 'memext:<dtype>' = a PrimaryHDU / ImageHDU
    the caller builds from an array of that dtype and byte order."""
    opens = ["default", "memmap0"] if quick else list(HR_OPEN)
    out = []
    for wr in HR_WRITERS[(dim, content)]:
        for o in opens:
            out.append("file:%s:%s" % (wr, o))
    for wr in HR_WRITERS[(dim, content)]:
        for o in opens:
            out.append("ext:%s:%s" % (wr, o))
    for wr in HR_WRITERS[(dim, content)]:
        out.append("out:%s" % wr)
    for dt in HR_DTYPES:
        out.append("mem:%s" % dt)
    for dt in (HR_DTYPES[:1] if quick else HR_DTYPES):
        out.append("memext:%s" % dt)
    return out


def _hdureuse_cases(quick, seed):
    # (history length, frames): every sequence of that length over the readers of the dimension
    if quick:
        plan = {2: [(2, [(2, 1), (2, 3), (3, 2)]), (3, [(2, 3)])], 1: [(2, [(2,), (3,)]), (3, [(3,)])]}
    else:
        plan = {2: [(2, [(2, 1), (2, 2), (5, 1)]), (3, [(3, 2), (3, 3), (4, 3)]), (4, [(2, 3)])],
                1: [(2, [(2,), (4,)]), (3, [(5,)]), (4, [(3,)])]}
    for dim in (1, 2):
        for depth, shapes in plan[dim]:
            for shape in shapes:
                for content in ("real", "mask"):
                    readers = HR_READERS[dim] if content == "mask" else [r for r in HR_READERS[dim] if r in HR_VALUE_READERS]
                    for src in hr_sources(dim, content, quick):
                        for seq in itertools.product(readers, repeat=depth):
                            for pre in (0, 1):
                                for f in (0, 1):
                                    yield ["hdureuse", seed, f, dim, list(shape), content, src, pre, list(seq)]


# ----------------------------------------------------------------------------- value menus / reference helpers


def vals_for(seed, n, *salt):
    """Injective (strictly increasing magnitude), signed, non-symmetric labelling with a tiny and a huge entry."""
    r = dom.rng(seed, "c16", n, *salt)
    mag = np.arange(1, n + 1) + r.uniform(0.05, 0.95, n)
    sign = np.where(r.randint(0, 2, n) == 1, -1.0, 1.0)
    a = sign * mag
    if n >= 2:
        i = int(r.randint(0, n))
        a[i] = 5e-30
        if n >= 3:
            j = int(r.randint(0, n - 1))
            j = j if j < i else j + 1
            a[j] = -6e30
        else:
            a[1 - i] = -abs(a[1 - i])
    return a


def norm_scales(ps, ndim):
    if isinstance(ps, (int, float)):
        return (float(ps),) * ndim
    return tuple(float(x) for x in ps)


def _tuple(x):
    try:
        return tuple(float(t) for t in x)
    except TypeError:
        return (float(x),)


def _sclose(g, e):
    return len(g) == len(e) and all(abs(a - b) <= 1e-12 * abs(b) for a, b in zip(g, e))


def chk_scale(v, route, got, exp):
    g = _tuple(got)
    ok = _sclose(g, exp)
    cls = route + ":pixel_scale"
    if not ok and len(exp) == 2 and exp[0] != exp[1] and len(g) == 2:
        if _sclose(g, (exp[0], exp[0])):
            cls = "pixel_scale_header:anisotropic"  # only the first scale survived
        elif _sclose(g, (exp[1], exp[0])):
            cls = route + ":pixel_scale:swapped"
    v.ok(ok, cls, lambda: "%s pixel scales read back %s, written %s" % (route, g, exp))


def header_scales(hdr, ndim):
    if "PIXSCALEY" in hdr and "PIXSCALEX" in hdr:
        return (float(hdr["PIXSCALEY"]), float(hdr["PIXSCALEX"]))
    if "PIXSCALE" in hdr:
        return (float(hdr["PIXSCALE"]),) * ndim
    return None


def chk_header(v, route, hdr, exp):
    g = header_scales(hdr, len(exp))
    if g is None:
        v.ok(False, route + ":header:no-pixel-scale", lambda: "%s header keys %s" % (route, list(hdr.keys())))
    else:
        chk_scale(v, route + ":header", g, exp)


def mismatch(got, exp):
    got = np.asarray(got)
    if got.shape != exp.shape:
        return "shape"
    if np.array_equal(got, exp):
        return None
    if exp.ndim == 2 and np.array_equal(got, np.flipud(exp)):
        return "orientation"
    if exp.ndim == 1 and np.array_equal(got, exp[::-1]):
        return "orientation"
    return "values"


def chk_vals(v, route, got, exp, dtype=None, flip_special=None):
    got = np.asarray(got)
    kind = mismatch(got, exp)
    cls = "%s:%s" % (route, kind or "values")
    if kind == "orientation" and flip_special:
        cls = flip_special
    ok = v.ok(kind is None, cls, lambda: "%s read back %s, written %s" % (route, got.tolist(), exp.tolist()))
    if ok and dtype is not None:
        v.ok(got.dtype == np.dtype(dtype), route + ":dtype", lambda: "%s dtype %s" % (route, got.dtype))
    return ok


def attempt(v, route, fn, aniso=False):
    """Run one route; an exception of the library is a violation of that route (other routes still run)."""
    try:
        fn()
        return True
    except Exception as e:  # noqa: BLE001
        cls = "%s:exception:%s" % (route, type(e).__name__)
        if aniso and isinstance(e, KeyError) and "PIXSCALE" in str(e):
            cls = "pixel_scale_header:anisotropic:reader-KeyError"
        tb = traceback.extract_tb(e.__traceback__)
        where = " <- ".join("%s:%d" % (os.path.basename(f.filename), f.lineno) for f in reversed(tb[-3:]))
        v.fail(cls, "%s raised %s: %s | %s" % (route, type(e).__name__, str(e)[:200], where))
        return False


def raw_hdus(path):
    from astropy.io import fits

    with fits.open(str(path), memmap=False) as hl:
        return [(None if h.data is None else np.array(h.data), h.header.copy()) for h in hl]


def pix_cards(header):
    from astropy.io import fits

    out = fits.Header()
    for k in header.keys():
        if k.startswith("PIXSCALE"):
            out[k] = header[k]
    return out


def two_hdu_file(path, hdu_a, hdu_b):
    """A two-HDU file whose HDUs are the library's own output HDUs (B re-wrapped as an image extension)."""
    from astropy.io import fits

    hl = fits.HDUList([fits.PrimaryHDU(np.array(hdu_a.data), header=pix_cards(hdu_a.header)),
                       fits.ImageHDU(np.array(hdu_b.data), header=pix_cards(hdu_b.header))])
    hl.writeto(path)


def raw_expected(exp, flip):
    return np.flipud(exp) if flip else exp


# ----------------------------------------------------------------------------- flip switch


def set_flip(flip):
    from autoconf import conf

    sec = conf.instance["general"]["fits"]
    old = sec["flip_for_ds9"]
    sec["flip_for_ds9"] = bool(flip)
    if bool(conf.instance["general"]["fits"]["flip_for_ds9"]) != bool(flip):
        raise RuntimeError("harness: cannot switch flip_for_ds9")
    return old


# ----------------------------------------------------------------------------- runners


def run_case(case):
    v = V(ID)
    kind, seed, flip = case[0], int(case[1]), int(case[2])
    base = os.environ.get("VERIF_OUT", "/tmp")
    os.makedirs(base, exist_ok=True)
    cwd0 = os.getcwd()
    td = tempfile.mkdtemp(prefix="c16_", dir=base)
    old = set_flip(flip)
    try:
        RUNNERS[kind](v, td, seed, flip, *case[3:])
    finally:
        try:
            set_flip(old)
        finally:
            os.chdir(cwd0)
            shutil.rmtree(td, ignore_errors=True)
    return v.result()


def _tag(flip, exp_ps):
    return "flip%d:%s" % (flip, "aniso" if len(exp_ps) == 2 and exp_ps[0] != exp_ps[1] else "iso")


def run_arr2d(v, td, seed, flip, h, w, bits, si):
    import autoarray as aa
    from astropy.io import fits

    m = dom.mask_from_bits(h, w, bits)
    ps = SCALES2[si]
    eps = norm_scales(ps, 2)
    aniso = eps[0] != eps[1]
    vals = vals_for(seed, h * w, "a2", h, w).reshape(h, w)
    exp0 = exp = np.where(m, 0.0, vals)
    v.nontrivial = h >= 2
    v.outcome = "arr2d:%s:%s" % (_tag(flip, eps), "masked" if m.any() else "unmasked")
    mask = aa.Mask2D(mask=m.copy(), pixel_scales=ps)
    P = lambda name: os.path.join(td, name)  # noqa: E731

    for store_native in (False, True):
        a = aa.Array2D(values=vals.copy(), mask=mask, store_native=store_native)
        p = P("a_%d.fits" % store_native)
        exp = exp0
        nat = np.array(a.native)
        if m.any() and nat.shape == exp0.shape and not np.array_equal(nat, exp0) and np.array_equal(nat[~m], exp0[~m]):
            # constructor (not I/O) left non-zero values at masked pixels: own class, I/O then held to a.native
            v.ok(False, "Array2D.native:masked-not-zeroed[store_native=%s]" % store_native,
                 lambda: "Array2D(store_native=%s).native = %s for mask %s" % (store_native, nat.tolist(), m.tolist()))
            exp = nat

        def file_route():
            a.output_to_fits(file_path=p)
            b = aa.Array2D.from_fits(file_path=p, pixel_scales=ps)
            chk_vals(v, "Array2D.file", b.native, exp, "float64")
            v.ok(tuple(b.shape_native) == (h, w), "Array2D.file:shape", lambda: "shape_native %s" % (b.shape_native,))
            chk_scale(v, "Array2D.file:arg", b.pixel_scales, eps)
            raw = raw_hdus(p)
            v.ok(len(raw) == 1, "Array2D.file:n-hdus", lambda: "%d HDUs" % len(raw))
            kind = mismatch(raw[0][0], raw_expected(exp, flip))
            v.ok(kind is None, "Array2D.file:raw-%s" % (kind or "values"),
                 lambda: "on-disk data %s, expected %s (flip=%s)" % (raw[0][0].tolist(), raw_expected(exp, flip).tolist(), flip))
            chk_header(v, "Array2D.file", raw[0][1], eps)
            if b.header is not None and b.header.header_sci_obj is not None:
                chk_header(v, "Array2D.file:header_sci_obj", b.header.header_sci_obj, eps)
            else:
                v.ok(False, "Array2D.file:header-missing", "from_fits returned no header object")

        attempt(v, "Array2D.file", file_route)

        def file_hdu_route():
            with fits.open(p, memmap=False) as hl:
                c = aa.Array2D.from_primary_hdu(primary_hdu=hl[0])
            chk_vals(v, "Array2D.file-hdu", c.native, exp, "float64")
            chk_scale(v, "Array2D.file-hdu", c.pixel_scales, eps)

        if os.path.exists(p):
            attempt(v, "Array2D.file-hdu", file_hdu_route, aniso)

    a = aa.Array2D(values=vals.copy(), mask=mask)
    exp = exp0

    def hdu_route():
        hd = a.hdu_for_output
        kind = mismatch(hd.data, raw_expected(exp, flip))
        v.ok(kind is None, "Array2D.hdu:raw-%s" % (kind or "values"), lambda: "hdu data %s" % np.asarray(hd.data).tolist())
        chk_header(v, "Array2D.hdu", hd.header, eps)
        c = aa.Array2D.from_primary_hdu(primary_hdu=hd)
        chk_vals(v, "Array2D.hdu", c.native, exp, "float64")
        chk_scale(v, "Array2D.hdu", c.pixel_scales, eps)

    attempt(v, "Array2D.hdu", hdu_route, aniso)

    def hdu_file_route():
        p2 = P("a_hdu.fits")
        a.hdu_for_output.writeto(p2)
        b = aa.Array2D.from_fits(file_path=p2, pixel_scales=ps)
        chk_vals(v, "Array2D.hdu-file", b.native, exp, "float64")

    attempt(v, "Array2D.hdu-file", hdu_file_route)

    # two-HDU file: A in hdu 0, an unrelated B (other shape, other scale) in hdu 1
    hb, wb = w + 1, h
    bvals = vals_for(seed, hb * wb, "a2B", hb, wb).reshape(hb, wb)
    bobj = aa.Array2D.no_mask(values=bvals.copy(), pixel_scales=1.3)

    def multi_route():
        p3 = P("a_multi.fits")
        two_hdu_file(p3, a.hdu_for_output, bobj.hdu_for_output)
        r0 = aa.Array2D.from_fits(file_path=p3, pixel_scales=ps, hdu=0)
        r1 = aa.Array2D.from_fits(file_path=p3, pixel_scales=1.3, hdu=1)
        chk_vals(v, "Array2D.file:hdu0-of-2", r0.native, exp, "float64")
        chk_vals(v, "Array2D.file:hdu1-of-2", r1.native, bvals, "float64")
        chk_header(v, "Array2D.file:hdu1-of-2:header_hdu_obj", r1.header.header_hdu_obj, (1.3, 1.3))
        chk_header(v, "Array2D.file:hdu1-of-2:header_sci_obj", r1.header.header_sci_obj, eps)

    attempt(v, "Array2D.file:two-hdu", multi_route)


def run_mask2d(v, td, seed, flip, h, w, bits, si):
    import autoarray as aa
    from astropy.io import fits

    m = dom.mask_from_bits(h, w, bits)
    ps = SCALES2[si]
    eps = norm_scales(ps, 2)
    aniso = eps[0] != eps[1]
    v.nontrivial = h >= 2 and bool(m.any()) and not bool(m.all())
    v.outcome = "mask2d:%s" % _tag(flip, eps)
    mo = aa.Mask2D(mask=m.copy(), pixel_scales=ps)
    p = os.path.join(td, "m.fits")
    expf = m.astype(float)

    def file_route():
        mo.output_to_fits(file_path=p)
        b = aa.Mask2D.from_fits(file_path=p, pixel_scales=ps)
        chk_vals(v, "Mask2D.file", np.array(b), m, "bool")
        chk_scale(v, "Mask2D.file:arg", b.pixel_scales, eps)
        raw = raw_hdus(p)
        v.ok(len(raw) == 1, "Mask2D.file:n-hdus", lambda: "%d HDUs" % len(raw))
        kind = mismatch(raw[0][0], raw_expected(expf, flip))
        v.ok(kind is None, "Mask2D.file:raw-%s" % (kind or "values"), lambda: "on-disk %s" % raw[0][0].tolist())
        chk_header(v, "Mask2D.file", raw[0][1], eps)
        bi = aa.Mask2D.from_fits(file_path=p, pixel_scales=ps, invert=True)
        chk_vals(v, "Mask2D.file:invert", np.array(bi), ~m, "bool")

    attempt(v, "Mask2D.file", file_route)

    def resized_route():
        shapes = []
        for s in [(h + 2, w + 2), (h + 1, w), (h, w + 3), (h + 1, w + 2), (max(1, h - 1), max(1, w - 1)), (max(1, h - 2), w)]:
            if s != (h, w) and s not in shapes:
                shapes.append(s)
        for s in shapes:
            for inv in (False, True):
                src = aa.Mask2D(mask=(~m if inv else m).copy(), pixel_scales=ps)
                try:
                    ref = np.array(src.resized_from(new_shape=s))
                except Exception:  # noqa: BLE001  (resize law is C14's business)
                    continue
                b = aa.Mask2D.from_fits(file_path=p, pixel_scales=ps, resized_mask_shape=s, invert=inv)
                chk_vals(v, "Mask2D.file:resized", np.array(b), ref, "bool")
                chk_scale(v, "Mask2D.file:resized:arg", b.pixel_scales, eps)

    if os.path.exists(p):
        attempt(v, "Mask2D.file:resized", resized_route)

    def file_hdu_route():
        with fits.open(p, memmap=False) as hl:
            c = aa.Mask2D.from_primary_hdu(primary_hdu=hl[0])
        chk_vals(v, "Mask2D.file-hdu", np.array(c), m, "bool")
        chk_scale(v, "Mask2D.file-hdu", c.pixel_scales, eps)

    if os.path.exists(p):
        attempt(v, "Mask2D.file-hdu", file_hdu_route, aniso)

    def hdu_route():
        hd = mo.hdu_for_output
        kind = mismatch(hd.data, raw_expected(expf, flip))
        v.ok(kind is None, "Mask2D.hdu:raw-%s" % (kind or "values"), lambda: "hdu data %s" % np.asarray(hd.data).tolist())
        chk_header(v, "Mask2D.hdu", hd.header, eps)
        c = aa.Mask2D.from_primary_hdu(primary_hdu=hd)
        chk_vals(v, "Mask2D.hdu", np.array(c), m, "bool")
        chk_scale(v, "Mask2D.hdu", c.pixel_scales, eps)

    attempt(v, "Mask2D.hdu", hdu_route, aniso)

    def hdu_file_route():
        p2 = os.path.join(td, "m_hdu.fits")
        mo.hdu_for_output.writeto(p2)
        b = aa.Mask2D.from_fits(file_path=p2, pixel_scales=ps)
        chk_vals(v, "Mask2D.hdu-file", np.array(b), m, "bool")

    attempt(v, "Mask2D.hdu-file", hdu_file_route)

    hb, wb = w + 1, h
    bm = dom.mask_from_bits(hb, wb, (bits * 5 + 3) % (2 ** (hb * wb)))
    bo = aa.Mask2D(mask=bm.copy(), pixel_scales=1.3)

    def multi_route():
        p3 = os.path.join(td, "m_multi.fits")
        two_hdu_file(p3, mo.hdu_for_output, bo.hdu_for_output)
        r0 = aa.Mask2D.from_fits(file_path=p3, pixel_scales=ps, hdu=0)
        r1 = aa.Mask2D.from_fits(file_path=p3, pixel_scales=1.3, hdu=1)
        chk_vals(v, "Mask2D.file:hdu0-of-2", np.array(r0), m, "bool")
        chk_vals(v, "Mask2D.file:hdu1-of-2", np.array(r1), bm, "bool")

    attempt(v, "Mask2D.file:two-hdu", multi_route)


def run_kern2d(v, td, seed, flip, h, w, si):
    import autoarray as aa
    from astropy.io import fits

    ps = SCALES2[si]
    eps = norm_scales(ps, 2)
    aniso = eps[0] != eps[1]
    vals = vals_for(seed, h * w, "k2", h, w).reshape(h, w)
    v.nontrivial = h >= 2
    v.outcome = "kern2d:%s" % _tag(flip, eps)
    k = aa.Kernel2D.no_mask(values=vals.copy(), pixel_scales=ps)
    p = os.path.join(td, "k.fits")

    def file_route():
        k.output_to_fits(file_path=p)
        b = aa.Kernel2D.from_fits(file_path=p, hdu=0, pixel_scales=ps)
        v.ok(isinstance(b, aa.Kernel2D), "Kernel2D.file:type", lambda: "type %s" % type(b).__name__)
        chk_vals(v, "Kernel2D.file", b.native, vals, "float64")
        chk_scale(v, "Kernel2D.file:arg", b.pixel_scales, eps)
        raw = raw_hdus(p)
        kind = mismatch(raw[0][0], raw_expected(vals, flip))
        v.ok(kind is None, "Kernel2D.file:raw-%s" % (kind or "values"), lambda: "on-disk %s" % raw[0][0].tolist())
        chk_header(v, "Kernel2D.file", raw[0][1], eps)

    attempt(v, "Kernel2D.file", file_route)

    def file_hdu_route():
        with fits.open(p, memmap=False) as hl:
            c = aa.Kernel2D.from_primary_hdu(primary_hdu=hl[0])
        v.ok(isinstance(c, aa.Kernel2D), "Kernel2D.file-hdu:type", lambda: "type %s" % type(c).__name__)
        chk_vals(v, "Kernel2D.file-hdu", c.native, vals, "float64")
        chk_scale(v, "Kernel2D.file-hdu", c.pixel_scales, eps)

    if os.path.exists(p):
        attempt(v, "Kernel2D.file-hdu", file_hdu_route, aniso)

    def hdu_route():
        hd = k.hdu_for_output
        chk_header(v, "Kernel2D.hdu", hd.header, eps)
        c = aa.Kernel2D.from_primary_hdu(primary_hdu=hd)
        chk_vals(v, "Kernel2D.hdu", c.native, vals, "float64")
        chk_scale(v, "Kernel2D.hdu", c.pixel_scales, eps)

    attempt(v, "Kernel2D.hdu", hdu_route, aniso)

    hb, wb = w + 1, h
    bvals = vals_for(seed, hb * wb, "k2B", hb, wb).reshape(hb, wb)
    bo = aa.Kernel2D.no_mask(values=bvals.copy(), pixel_scales=1.3)

    def multi_route():
        p3 = os.path.join(td, "k_multi.fits")
        two_hdu_file(p3, k.hdu_for_output, bo.hdu_for_output)
        r0 = aa.Kernel2D.from_fits(file_path=p3, pixel_scales=ps, hdu=0)
        r1 = aa.Kernel2D.from_fits(file_path=p3, pixel_scales=1.3, hdu=1)
        chk_vals(v, "Kernel2D.file:hdu0-of-2", r0.native, vals, "float64")
        chk_vals(v, "Kernel2D.file:hdu1-of-2", r1.native, bvals, "float64")

    attempt(v, "Kernel2D.file:two-hdu", multi_route)


def run_arr1d(v, td, seed, flip, n, bits, si):
    import autoarray as aa
    from astropy.io import fits

    m = dom.mask_from_bits(1, n, bits)[0]
    s = SCALES1[si]
    eps = (float(s),)
    vals = vals_for(seed, n, "a1", n)
    exp0 = exp = np.where(m, 0.0, vals)
    v.nontrivial = n >= 2
    v.outcome = "arr1d:flip%d:%s" % (flip, "masked" if m.any() else "unmasked")
    mask = aa.Mask1D(mask=m.copy(), pixel_scales=(s,))
    special = "Array1D.hdu-roundtrip:flip" if flip else None

    for store_native in (False, True):
        a = aa.Array1D(values=vals.copy(), mask=mask, store_native=store_native)
        p = os.path.join(td, "a1_%d.fits" % store_native)
        exp = exp0
        nat = np.array(a.native)
        if m.any() and nat.shape == exp0.shape and not np.array_equal(nat, exp0) and np.array_equal(nat[~m], exp0[~m]):
            # the object itself holds non-zero values at masked pixels (constructor, not I/O): reported once under
            # its own class; the I/O routes are then held to "identical native values"
            v.ok(False, "Array1D.native:masked-not-zeroed[store_native=%s]" % store_native,
                 lambda: "Array1D(values=%s, mask=%s, store_native=%s).native = %s, so the FITS output is not zero at masked pixels"
                 % (vals.tolist(), m.tolist(), store_native, nat.tolist()))
            exp = nat

        def file_route():
            a.output_to_fits(file_path=p)
            b = aa.Array1D.from_fits(file_path=p, pixel_scales=s)
            chk_vals(v, "Array1D.file", b.native, exp, "float64")
            chk_scale(v, "Array1D.file:arg", b.pixel_scales, eps)
            raw = raw_hdus(p)
            v.ok(len(raw) == 1, "Array1D.file:n-hdus", lambda: "%d HDUs" % len(raw))
            chk_header(v, "Array1D.file", raw[0][1], eps)
            if b.header is not None and b.header.header_sci_obj is not None:
                chk_header(v, "Array1D.file:header_sci_obj", b.header.header_sci_obj, eps)
            else:
                v.ok(False, "Array1D.file:header-missing", "from_fits returned no header object")

        attempt(v, "Array1D.file", file_route)

        def file_hdu_route():
            with fits.open(p, memmap=False) as hl:
                c = aa.Array1D.from_primary_hdu(primary_hdu=hl[0])
            chk_vals(v, "Array1D.file-hdu", c.native, exp, "float64")
            chk_scale(v, "Array1D.file-hdu", c.pixel_scales, eps)

        if os.path.exists(p):
            attempt(v, "Array1D.file-hdu", file_hdu_route)

    a = aa.Array1D(values=vals.copy(), mask=mask)
    exp = exp0

    def hdu_route():
        hd = a.hdu_for_output
        chk_header(v, "Array1D.hdu", hd.header, eps)
        c = aa.Array1D.from_primary_hdu(primary_hdu=hd)
        chk_vals(v, "Array1D.hdu", c.native, exp, "float64", flip_special=special)
        chk_scale(v, "Array1D.hdu", c.pixel_scales, eps)

    attempt(v, "Array1D.hdu", hdu_route)

    def hdu_file_route():
        p2 = os.path.join(td, "a1_hdu.fits")
        a.hdu_for_output.writeto(p2)
        b = aa.Array1D.from_fits(file_path=p2, pixel_scales=s)
        chk_vals(v, "Array1D.hdu-file", b.native, exp, "float64", flip_special=special)

    attempt(v, "Array1D.hdu-file", hdu_file_route)

    nb = n + 1
    bvals = vals_for(seed, nb, "a1B", nb)
    bo = aa.Array1D.no_mask(values=bvals.copy(), pixel_scales=1.3)

    def multi_route():
        # built from the symmetric (non-flipping) 1D writer so that the file route is what is tested here
        p3 = os.path.join(td, "a1_multi.fits")
        pa, pb = os.path.join(td, "a1_ma.fits"), os.path.join(td, "a1_mb.fits")
        a.output_to_fits(file_path=pa)
        bo.output_to_fits(file_path=pb)
        ra, rb = raw_hdus(pa)[0], raw_hdus(pb)[0]
        fits.HDUList([fits.PrimaryHDU(ra[0], header=pix_cards(ra[1])), fits.ImageHDU(rb[0], header=pix_cards(rb[1]))]).writeto(p3)
        r0 = aa.Array1D.from_fits(file_path=p3, pixel_scales=s, hdu=0)
        r1 = aa.Array1D.from_fits(file_path=p3, pixel_scales=1.3, hdu=1)
        chk_vals(v, "Array1D.file:hdu0-of-2", r0.native, exp, "float64")
        chk_vals(v, "Array1D.file:hdu1-of-2", r1.native, bvals, "float64")
        chk_header(v, "Array1D.file:hdu1-of-2:header_hdu_obj", r1.header.header_hdu_obj, (1.3,))

    attempt(v, "Array1D.file:two-hdu", multi_route)


def run_mask1d(v, td, seed, flip, n, bits, si):
    import autoarray as aa
    from astropy.io import fits

    m = dom.mask_from_bits(1, n, bits)[0]
    s = SCALES1[si]
    eps = (float(s),)
    v.nontrivial = n >= 2 and bool(m.any()) and not bool(m.all())
    v.outcome = "mask1d:flip%d" % flip
    mo = aa.Mask1D(mask=m.copy(), pixel_scales=(s,))
    p = os.path.join(td, "m1.fits")

    def file_route():
        mo.output_to_fits(file_path=p)
        b = aa.Mask1D.from_fits(file_path=p, pixel_scales=s)
        chk_vals(v, "Mask1D.file", np.array(b), m, "bool")
        chk_scale(v, "Mask1D.file:arg", b.pixel_scales, eps)
        raw = raw_hdus(p)
        v.ok(len(raw) == 1, "Mask1D.file:n-hdus", lambda: "%d HDUs" % len(raw))
        chk_header(v, "Mask1D.file", raw[0][1], eps)

    attempt(v, "Mask1D.file", file_route)

    def file_hdu_route():
        with fits.open(p, memmap=False) as hl:
            c = aa.Mask1D.from_primary_hdu(primary_hdu=hl[0])
        chk_vals(v, "Mask1D.file-hdu", np.array(c), m, "bool")
        chk_scale(v, "Mask1D.file-hdu", c.pixel_scales, eps)

    if os.path.exists(p):
        attempt(v, "Mask1D.file-hdu", file_hdu_route)

    def hdu_route():
        hd = mo.hdu_for_output
        chk_header(v, "Mask1D.hdu", hd.header, eps)
        c = aa.Mask1D.from_primary_hdu(primary_hdu=hd)
        chk_vals(v, "Mask1D.hdu", np.array(c), m, "bool")
        chk_scale(v, "Mask1D.hdu", c.pixel_scales, eps)

    attempt(v, "Mask1D.hdu", hdu_route)

    def hdu_file_route():
        p2 = os.path.join(td, "m1_hdu.fits")
        mo.hdu_for_output.writeto(p2)
        b = aa.Mask1D.from_fits(file_path=p2, pixel_scales=s)
        chk_vals(v, "Mask1D.hdu-file", np.array(b), m, "bool")

    attempt(v, "Mask1D.hdu-file", hdu_file_route)

    nb = n + 1
    bm = dom.mask_from_bits(1, nb, (bits * 5 + 3) % (2 ** nb))[0]
    bo = aa.Mask1D(mask=bm.copy(), pixel_scales=(1.3,))

    def multi_route():
        p3 = os.path.join(td, "m1_multi.fits")
        two_hdu_file(p3, mo.hdu_for_output, bo.hdu_for_output)
        r0 = aa.Mask1D.from_fits(file_path=p3, pixel_scales=s, hdu=0)
        r1 = aa.Mask1D.from_fits(file_path=p3, pixel_scales=1.3, hdu=1)
        chk_vals(v, "Mask1D.file:hdu0-of-2", np.array(r0), m, "bool")
        chk_vals(v, "Mask1D.file:hdu1-of-2", np.array(r1), bm, "bool")

    attempt(v, "Mask1D.file:two-hdu", multi_route)


def _derived_kind(got, exp, m):
    """None | 'shape' | 'masked-not-zero' | 'orientation' | 'values' for a derived masked array (exp is 0 where m)."""
    got = np.asarray(got)
    if got.shape != exp.shape:
        return "shape"
    if np.array_equal(got, exp):
        return None
    if np.array_equal(got[~m], exp[~m]):
        return "masked-not-zero"  # every unmasked pixel is right, so the difference sits at masked pixels only
    if np.array_equal(got, np.flipud(exp) if exp.ndim == 2 else exp[::-1]):
        return "orientation"
    return "values"


def _derived_routes(v, td, cls_name, objs, m, flip, reader_file, reader_hdu, special=None):
    """File and HDU route for every derived object; objs = [(tag, layout, object, expected native values)]."""
    stored_garbage = False
    rm = np.flipud(m) if (flip and m.ndim == 2) else m
    for tag, layout, d, exp0 in objs:
        pre = "%s.%%s:derived-%s" % (cls_name, layout)
        exp = exp0
        try:
            buf = np.asarray(d._array)
            if buf.shape == m.shape and bool(np.any(buf[m] != 0.0)):
                stored_garbage = True
        except Exception:  # noqa: BLE001  (only feeds the non-triviality census)
            pass
        nat = np.array(d.native)
        if nat.shape == exp0.shape and not np.array_equal(nat, exp0) and np.array_equal(nat[~m], exp0[~m]):
            # the object's own .native (not I/O) is non-zero at masked pixels: own class, I/O then held to .native
            v.ok(False, "%s.native:masked-not-zeroed[derived-%s]" % (cls_name, layout),
                 lambda: "%s %s: .native = %s for mask %s" % (cls_name, tag, nat.tolist(), m.tolist()))
            exp = nat
        else:
            v.ok(_derived_kind(nat, exp0, m) is None, "%s.native:derived-%s:values" % (cls_name, layout),
                 lambda: "%s %s: .native = %s, expected %s" % (cls_name, tag, nat.tolist(), exp0.tolist()))
        rexp = np.flipud(exp) if (flip and exp.ndim == 2) else exp

        def file_route():
            p = os.path.join(td, "d_%s.fits" % tag.replace(":", "_"))
            d.output_to_fits(file_path=p)
            raw = raw_hdus(p)
            v.ok(len(raw) == 1, (pre % "file") + ":n-hdus", lambda: "%d HDUs" % len(raw))
            kind = _derived_kind(raw[0][0], rexp, rm)
            v.ok(kind is None, (pre % "file") + (":masked-not-zero" if kind == "masked-not-zero" else ":raw-%s" % (kind or "values")),
                 lambda: "%s %s (mask %s, flip=%s): on-disk data %s, expected %s"
                 % (cls_name, tag, m.tolist(), flip, raw[0][0].tolist(), rexp.tolist()))
            got = np.asarray(reader_file(p))
            kind = _derived_kind(got, exp, m)
            v.ok(kind is None, (pre % "file") + ":" + (kind or "values"),
                 lambda: "%s %s (mask %s, flip=%s): output_to_fits -> from_fits read back %s, expected %s"
                 % (cls_name, tag, m.tolist(), flip, got.tolist(), exp.tolist()))
            v.ok(got.dtype == np.dtype("float64"), (pre % "file") + ":dtype", lambda: "dtype %s" % got.dtype)

        attempt(v, pre % "file", file_route)

        def hdu_route():
            hd = d.hdu_for_output
            if special is None:
                kind = _derived_kind(hd.data, rexp, rm)
                v.ok(kind is None, (pre % "hdu") + (":masked-not-zero" if kind == "masked-not-zero" else ":raw-%s" % (kind or "values")),
                     lambda: "%s %s (mask %s, flip=%s): hdu_for_output.data %s, expected %s"
                     % (cls_name, tag, m.tolist(), flip, np.asarray(hd.data).tolist(), rexp.tolist()))
            got = np.asarray(reader_hdu(hd))
            kind = _derived_kind(got, exp, m)
            cls = (pre % "hdu") + ":" + (kind or "values")
            if kind == "orientation" and special:
                cls = special
            v.ok(kind is None, cls,
                 lambda: "%s %s (mask %s, flip=%s): hdu_for_output -> from_primary_hdu read back %s, expected %s"
                 % (cls_name, tag, m.tolist(), flip, got.tolist(), exp.tolist()))

        attempt(v, pre % "hdu", hdu_route)
    return stored_garbage


def run_deriv2d(v, td, seed, flip, h, w, bits):
    import autoarray as aa

    m = dom.mask_from_bits(h, w, bits)
    ps = SCALES2[0]
    vals = vals_for(seed, h * w, "d2", h, w).reshape(h, w)
    garb = vals_for(seed, h * w, "d2g", h, w).reshape(h, w)  # injective, so non-zero at every pixel
    mask = aa.Mask2D(mask=m.copy(), pixel_scales=ps)
    z = lambda x: np.where(m, 0.0, x)  # noqa: E731
    first_masked = tuple(int(t) for t in np.argwhere(m)[0])

    def base(sn):
        return aa.Array2D(values=vals.copy(), mask=mask, store_native=sn)

    objs = [
        ("slim:add", "slim", base(False) + 100.0, z(vals + 100.0)),
        ("native:add", "native", base(True) + 100.0, z(vals + 100.0)),
        ("native:mul-add", "native", base(True) * 2 + 1, z(vals * 2 + 1)),
        ("native:with_new_array", "native", base(True).with_new_array(garb.copy()), z(garb)),
    ]
    b = base(True)
    b[first_masked] = 777.5
    objs.append(("native:setitem-masked", "native", b, z(vals)))
    objs.append(("native:skip_mask", "native", aa.Array2D(values=garb.copy(), mask=mask, store_native=True, skip_mask=True), z(garb)))
    stored = _derived_routes(
        v, td, "Array2D", objs, m, flip,
        lambda p: aa.Array2D.from_fits(file_path=p, pixel_scales=ps).native,
        lambda hd: aa.Array2D.from_primary_hdu(primary_hdu=hd).native,
    )
    v.nontrivial = stored
    v.outcome = "deriv2d:flip%d:%s" % (flip, "stored-garbage" if stored else "buffers-clean")


def run_deriv1d(v, td, seed, flip, n, bits):
    import autoarray as aa

    m = dom.mask_from_bits(1, n, bits)[0]
    s = SCALES1[0]
    vals = vals_for(seed, n, "d1", n)
    garb = vals_for(seed, n, "d1g", n)
    mask = aa.Mask1D(mask=m.copy(), pixel_scales=(s,))
    z = lambda x: np.where(m, 0.0, x)  # noqa: E731
    first_masked = int(np.argwhere(m)[0][0])

    def base(sn):
        return aa.Array1D(values=vals.copy(), mask=mask, store_native=sn)

    objs = [
        ("slim:add", "slim", base(False) + 100.0, z(vals + 100.0)),
        ("native:add", "native", base(True) + 100.0, z(vals + 100.0)),
        ("native:mul-add", "native", base(True) * 2 + 1, z(vals * 2 + 1)),
        ("native:with_new_array", "native", base(True).with_new_array(garb.copy()), z(garb)),
    ]
    b = base(True)
    b[first_masked] = 777.5
    objs.append(("native:setitem-masked", "native", b, z(vals)))
    stored = _derived_routes(
        v, td, "Array1D", objs, m, flip,
        lambda p: aa.Array1D.from_fits(file_path=p, pixel_scales=s).native,
        lambda hd: aa.Array1D.from_primary_hdu(primary_hdu=hd).native,
        special="Array1D.hdu-roundtrip:flip" if flip else None,
    )
    v.nontrivial = stored
    v.outcome = "deriv1d:flip%d:%s" % (flip, "stored-garbage" if stored else "buffers-clean")


def _imaging_parts(seed, h, w, pshape, masked):
    data = vals_for(seed, h * w, "imd", h, w).reshape(h, w)
    noise = np.abs(vals_for(seed, h * w, "imn", h, w)).reshape(h, w)
    psf = None
    if pshape is not None:
        r = dom.rng(seed, "c16", "imp", pshape)
        n = pshape[0] * pshape[1]
        psf = (np.arange(1, n + 1) + r.uniform(0.05, 0.95, n)).reshape(pshape)
    m = np.zeros((h, w), dtype=bool)
    if masked:
        for k in range(h * w):
            if k % 3 == 1:
                m[k // w, k % w] = True
    return data, noise, psf, m


def _make_imaging(aa, seed, h, w, pshape, masked, ps):
    data, noise, psf, m = _imaging_parts(seed, h, w, pshape, masked)
    kern = None if psf is None else aa.Kernel2D.no_mask(values=psf.copy(), pixel_scales=ps)
    # the masked dataset is built directly: Imaging.apply_mask may pad the frame for the convolver, which is
    # not an I/O effect
    mask = aa.Mask2D(mask=m.copy(), pixel_scales=ps)
    im = aa.Imaging(
        data=aa.Array2D(values=data.copy(), mask=mask),
        noise_map=aa.Array2D(values=noise.copy(), mask=mask),
        psf=kern,
    )
    exp = {
        "data": np.where(m, 0.0, data),
        "noise_map": np.where(m, 0.0, noise),
        "psf": None if psf is None else psf / psf.sum(),
    }
    return im, exp


def _check_imaging(v, route, im2, exp, eps):
    chk_vals(v, route + ":data", im2.data.native, exp["data"], "float64")
    chk_vals(v, route + ":noise_map", im2.noise_map.native, exp["noise_map"], "float64")
    if exp["psf"] is None:
        v.ok(im2.psf is None, route + ":psf:not-none")
    else:
        got = np.asarray(im2.psf.native)
        ok = got.shape == exp["psf"].shape and bool(np.allclose(got, exp["psf"], rtol=1e-12, atol=0.0))
        kind = "values"
        if not ok and got.shape != exp["psf"].shape:
            kind = "shape"
        elif not ok and np.allclose(got, np.flipud(exp["psf"]), rtol=1e-12, atol=0.0):
            kind = "orientation"
        v.ok(ok, "%s:psf:%s" % (route, kind), lambda: "psf read back %s, written %s" % (got.tolist(), exp["psf"].tolist()))
    chk_scale(v, route + ":arg", im2.pixel_scales, eps)


def run_imaging(v, td, seed, flip, h, w, pi, masked, si):
    import autoarray as aa

    ps = SCALES2[si]
    eps = norm_scales(ps, 2)
    pshape = IMG_PSFS[pi]
    pshape = None if pshape is None else tuple(pshape)
    v.nontrivial = h >= 2 or (pshape is not None and pshape[0] >= 2)
    v.outcome = "imaging:%s:%s:%s" % (_tag(flip, eps), "masked" if masked else "unmasked", "psf" if pshape else "nopsf")
    im, exp = _make_imaging(aa, seed, h, w, pshape, masked, ps)
    d = os.path.join(td, "ds", "sub")
    dp, pp, npth = os.path.join(d, "data.fits"), os.path.join(d, "psf.fits"), os.path.join(d, "noise_map.fits")

    def file_route():
        im.output_to_fits(data_path=dp, psf_path=pp, noise_map_path=npth)
        v.ok(os.path.exists(pp) == (pshape is not None), "Imaging.file:psf-file-presence")
        im2 = aa.Imaging.from_fits(
            pixel_scales=ps,
            data_path=dp,
            noise_map_path=npth,
            psf_path=pp if pshape is not None else None,
            check_noise_map=not masked,
        )
        _check_imaging(v, "Imaging.file", im2, exp, eps)
        raw = raw_hdus(dp)
        kind = mismatch(raw[0][0], raw_expected(exp["data"], flip))
        v.ok(kind is None, "Imaging.file:data:raw-%s" % (kind or "values"), lambda: "on-disk %s" % raw[0][0].tolist())
        chk_header(v, "Imaging.file:data", raw[0][1], eps)

    attempt(v, "Imaging.file", file_route)


# ----------------------------------------------------------------------------- configuration histories


def _asym_mask(h, w, k):
    """A mask with >= 1 masked and >= 1 unmasked pixel that differs from its vertical flip (h >= 2)."""
    n = h * w
    b = (k * 7 + 1) % (2 ** n)
    for _ in range(2 ** n):
        m = dom.mask_from_bits(h, w, b)
        if m.any() and not m.all() and not np.array_equal(m, np.flipud(m)):
            return m
        b = (b + 1) % (2 ** n)
    raise RuntimeError("harness: no asymmetric mask on %dx%d" % (h, w))


class _CfgSwitch:
    """Switches general.fits.flip_for_ds9 inside the running process, by item assignment on the loaded section (what
    run_case does) or by pushing a configuration directory that holds the other value (conf.instance.push)."""

    def __init__(self, td, mech):
        from autoconf import conf

        self.conf = conf
        self.mech = mech
        self.td = td
        self.saved = list(conf.instance.configs)
        self.n = 0

    def set(self, flag):
        conf = self.conf
        if self.mech == "assign":
            conf.instance["general"]["fits"]["flip_for_ds9"] = bool(flag)
        else:
            self.n += 1
            d = os.path.join(self.td, "cfg_%d_%d" % (self.n, int(flag)))
            os.makedirs(d)
            with open(os.path.join(d, "general.yaml"), "w") as f:
                f.write("fits:\n  flip_for_ds9: %s\n" % ("true" if flag else "false"))
            conf.instance.push(new_path=d)
        if bool(conf.instance["general"]["fits"]["flip_for_ds9"]) != bool(flag):
            raise RuntimeError("harness: cannot switch flip_for_ds9 by %s" % self.mech)

    def restore(self):
        if self.mech == "push":
            self.conf.instance.configs = self.saved  # also drops the merged dictionary; run_case re-applies its own value


def _cfg_io(aa, cl, shape, seed, k):
    """Content of step k (fresh, injective, not symmetric under a vertical flip / reversal) for class `cl` and the
    library calls under test. Returns dict(exp, raw, dtype, to_file, hdu, from_file, from_hdu, scales)."""
    ps = 0.7
    hd_ps = {"PIXSCALE": ps}
    if cl in CFG_CLASSES_2D:
        h, w = shape
        vals = vals_for(seed, h * w, "cfg", cl, h, w, k).reshape(h, w)
        m = _asym_mask(h, w, k)
        nat = lambda o: np.array(o.native)  # noqa: E731
        if cl == "Array2D":
            o = aa.Array2D.no_mask(values=vals.copy(), pixel_scales=ps)
            rd = lambda p: aa.Array2D.from_fits(file_path=p, pixel_scales=ps)  # noqa: E731
            return dict(exp=vals, raw=vals, dtype="float64", to_file=o.output_to_fits, hdu=lambda: o.hdu_for_output,
                        from_file=rd, from_hdu=lambda hd: aa.Array2D.from_primary_hdu(primary_hdu=hd), nat=nat, eps=(ps, ps))
        if cl == "Array2D.masked":
            o = aa.Array2D(values=vals.copy(), mask=aa.Mask2D(mask=m.copy(), pixel_scales=ps))
            e = np.where(m, 0.0, vals)
            rd = lambda p: aa.Array2D.from_fits(file_path=p, pixel_scales=ps)  # noqa: E731
            return dict(exp=e, raw=e, dtype="float64", to_file=o.output_to_fits, hdu=lambda: o.hdu_for_output,
                        from_file=rd, from_hdu=lambda hd: aa.Array2D.from_primary_hdu(primary_hdu=hd), nat=nat, eps=(ps, ps))
        if cl == "Kernel2D":
            o = aa.Kernel2D.no_mask(values=vals.copy(), pixel_scales=ps)
            rd = lambda p: aa.Kernel2D.from_fits(file_path=p, hdu=0, pixel_scales=ps)  # noqa: E731
            return dict(exp=vals, raw=vals, dtype="float64", to_file=o.output_to_fits, hdu=lambda: o.hdu_for_output,
                        from_file=rd, from_hdu=lambda hd: aa.Kernel2D.from_primary_hdu(primary_hdu=hd), nat=nat, eps=(ps, ps))
        if cl == "Mask2D":
            o = aa.Mask2D(mask=m.copy(), pixel_scales=ps)
            rd = lambda p: aa.Mask2D.from_fits(file_path=p, pixel_scales=ps)  # noqa: E731
            return dict(exp=m, raw=m.astype(float), dtype="bool", to_file=o.output_to_fits, hdu=lambda: o.hdu_for_output,
                        from_file=rd, from_hdu=lambda hd: aa.Mask2D.from_primary_hdu(primary_hdu=hd), nat=lambda o: np.array(o), eps=(ps, ps))
        if cl == "util2d":
            u = aa.util.array_2d
            return dict(exp=vals, raw=vals, dtype="float64",
                        to_file=lambda file_path: u.numpy_array_2d_to_fits(array_2d=vals.copy(), file_path=file_path, header_dict=hd_ps),
                        hdu=lambda: u.hdu_for_output_from(array_2d=vals.copy(), header_dict=hd_ps),
                        from_file=lambda p: u.numpy_array_2d_via_fits_from(file_path=p, hdu=0),
                        from_hdu=lambda hd: aa.Array2D.from_primary_hdu(primary_hdu=hd).native, nat=lambda o: np.array(o), eps=None)
    else:
        (n,) = shape
        vals = vals_for(seed, n, "cfg", cl, n, k)
        m = np.zeros(n, dtype=bool)
        m[(k + 1) % n if n > 2 else k % 2] = True
        if n > 2 and np.array_equal(m, m[::-1]):
            m[0] = True
        nat = lambda o: np.array(o.native)  # noqa: E731
        if cl == "Array1D":
            o = aa.Array1D(values=vals.copy(), mask=aa.Mask1D(mask=m.copy(), pixel_scales=(ps,)))
            rd = lambda p: aa.Array1D.from_fits(file_path=p, pixel_scales=ps)  # noqa: E731
            return dict(exp=np.where(m, 0.0, vals), raw=None, dtype="float64", to_file=o.output_to_fits, hdu=lambda: o.hdu_for_output,
                        from_file=rd, from_hdu=lambda hd: aa.Array1D.from_primary_hdu(primary_hdu=hd), nat=nat, eps=(ps,))
        if cl == "Mask1D":
            o = aa.Mask1D(mask=m.copy(), pixel_scales=(ps,))
            rd = lambda p: aa.Mask1D.from_fits(file_path=p, pixel_scales=ps)  # noqa: E731
            return dict(exp=m, raw=None, dtype="bool", to_file=o.output_to_fits, hdu=lambda: o.hdu_for_output,
                        from_file=rd, from_hdu=lambda hd: aa.Mask1D.from_primary_hdu(primary_hdu=hd), nat=lambda o: np.array(o), eps=(ps,))
        if cl == "util1d":
            u = aa.util.array_1d
            return dict(exp=vals, raw=None, dtype=None,
                        to_file=lambda file_path: u.numpy_array_1d_to_fits(array_1d=vals.copy(), file_path=file_path, header_dict=hd_ps),
                        hdu=lambda: u.hdu_for_output_from(array_1d=vals.copy(), header_dict=hd_ps),
                        from_file=lambda p: np.asarray(u.numpy_array_1d_via_fits_from(file_path=p, hdu=0), dtype=float),
                        from_hdu=lambda hd: aa.Array1D.from_primary_hdu(primary_hdu=hd).native, nat=lambda o: np.array(o), eps=None)
    raise ValueError(cl)


def run_cfghist(v, td, seed, flip, cl, mech, hist, shape):
    """Round trips under hist[0], then the option is switched in this process to hist[1], ... and the round trips are
    repeated with fresh content. The reference model is stateless: every writer flips and every reader un-flips iff
    the option is on AT THAT CALL, so each round trip is the identity and the raw data are flipud(native) iff on."""
    import autoarray as aa
    from astropy.io import fits

    hist = [int(x) for x in hist]
    switches = sum(1 for a, b in zip(hist, hist[1:]) if a != b)
    v.nontrivial = switches > 0
    v.outcome = "cfghist:%s:%s:switches=%d" % (mech, "1d" if len(shape) == 1 else "2d", switches)
    sw = _CfgSwitch(td, mech)
    pre = "cfg-history:%s" % cl

    def chk(route, got, exp, ctx, dtype=None):
        got = np.asarray(got)
        kind = mismatch(got, np.asarray(exp))
        ok = v.ok(kind is None, "%s.%s:%s" % (pre, route, kind or "values"),
                  lambda: "%s %s under settings [%s] (switched by %s), step %d, flip_for_ds9=%s now: got %s, expected %s"
                  % (cl, route, ctx, mech, len(ctx.split(",")) - 1, ctx.split(",")[-1], got.tolist(), np.asarray(exp).tolist()))
        if ok and dtype is not None:
            v.ok(got.dtype == np.dtype(dtype), "%s.%s:dtype" % (pre, route), lambda: "dtype %s" % got.dtype)

    try:
        for k, s_now in enumerate(hist):
            sw.set(s_now)
            ctx = ",".join(str(x) for x in hist[: k + 1])
            d = os.path.join(td, "step%d" % k)
            os.makedirs(d)
            if cl == "Imaging":
                h, w, pi = shape
                pshape = IMG_PSFS[pi]
                pshape = None if pshape is None else tuple(pshape)
                im, exp = _make_imaging(aa, seed + 10 * k, h, w, pshape, False, 0.7)
                dp, pp, npth = (os.path.join(d, x) for x in ("data.fits", "psf.fits", "noise_map.fits"))

                def img_route():
                    im.output_to_fits(data_path=dp, psf_path=pp, noise_map_path=npth)
                    im2 = aa.Imaging.from_fits(pixel_scales=0.7, data_path=dp, noise_map_path=npth,
                                               psf_path=pp if pshape is not None else None)
                    _check_imaging(v, pre + ".file", im2, exp, (0.7, 0.7))
                    for label, path, e in (("data", dp, exp["data"]), ("noise_map", npth, exp["noise_map"])):
                        chk("file:%s:raw" % label, raw_hdus(path)[0][0], raw_expected(e, s_now), ctx)

                attempt(v, pre + ".file", img_route)
                continue
            c = _cfg_io(aa, cl, shape, seed, k)
            exp, nat = c["exp"], c["nat"]
            p, p2 = os.path.join(d, "f.fits"), os.path.join(d, "h.fits")

            def hdu_route():
                hd = c["hdu"]()
                if c["raw"] is not None:
                    chk("hdu:raw", hd.data, raw_expected(c["raw"], s_now), ctx)
                b = c["from_hdu"](hd)
                chk("hdu", nat(b), exp, ctx, c["dtype"])
                if c["eps"] is not None:
                    chk_scale(v, pre + ".hdu", b.pixel_scales, c["eps"])

            attempt(v, pre + ".hdu", hdu_route)

            def file_route():
                c["to_file"](file_path=p)
                if c["raw"] is not None:
                    chk("file:raw", raw_hdus(p)[0][0], raw_expected(c["raw"], s_now), ctx)
                chk("file", nat(c["from_file"](p)), exp, ctx, c["dtype"])

            attempt(v, pre + ".file", file_route)

            def file_hdu_route():
                with fits.open(p, memmap=False) as hl:
                    b = c["from_hdu"](hl[0])
                chk("file-hdu", nat(b), exp, ctx, c["dtype"])

            if os.path.exists(p):
                attempt(v, pre + ".file-hdu", file_hdu_route)

            def hdu_file_route():
                c["hdu"]().writeto(p2)
                chk("hdu-file", nat(c["from_file"](p2)), exp, ctx, c["dtype"])

            attempt(v, pre + ".hdu-file", hdu_file_route)
    finally:
        sw.restore()



# ----------------------------------------------------------------------------- (i) re-used header-data units


def _asym_mask1(n, k):
    """A 1D mask with >= 1 masked and >= 1 unmasked pixel that differs from its reversal (n >= 2)."""
    b = (k * 7 + 1) % (2 ** n)
    for _ in range(2 ** n):
        m = dom.mask_from_bits(1, n, b)[0]
        if m.any() and not m.all() and not np.array_equal(m, m[::-1]):
            return m
        b = (b + 1) % (2 ** n)
    raise RuntimeError("harness: no asymmetric mask of length %d" % n)


def _exact_vals(seed, n, integer, *salt):
    """Injective, signed, non-symmetric labelling that float32 / int16 hold exactly: +-(k+1) (+-0.5 for floats)."""
    r = dom.rng(seed, "c16", "hr-exact", n, *salt)
    mag = r.permutation(n) + 1.0
    if not integer:
        mag = mag + 0.5
    sign = np.where(r.randint(0, 2, n) == 1, -1.0, 1.0)
    if n >= 2:
        sign[0], sign[1] = 1.0, -1.0
    return sign * mag


def _hr_object(aa, writer, E, mk, ps):
    """Library object of class `writer` whose native values are E (masked variants: E is already 0 where mk)."""
    if writer == "Array2D":
        return aa.Array2D.no_mask(values=E.copy(), pixel_scales=ps)
    if writer == "Array2D.masked":
        return aa.Array2D(values=E.copy(), mask=aa.Mask2D(mask=mk.copy(), pixel_scales=ps))
    if writer == "Kernel2D":
        return aa.Kernel2D.no_mask(values=E.copy(), pixel_scales=ps)
    if writer == "Mask2D":
        return aa.Mask2D(mask=(E != 0.0), pixel_scales=ps)
    if writer == "Array1D":
        return aa.Array1D.no_mask(values=E.copy(), pixel_scales=ps)
    if writer == "Array1D.masked":
        return aa.Array1D(values=E.copy(), mask=aa.Mask1D(mask=mk.copy(), pixel_scales=(ps,)))
    if writer == "Mask1D":
        return aa.Mask1D(mask=(E != 0.0), pixel_scales=(ps,))
    raise ValueError(writer)


def _hr_header_view(hdr):
    return dict((k, hdr[k]) for k in hdr.keys() if k.startswith(("PIXSCALE", "NAXIS", "BITPIX")))


def run_hdureuse(v, td, seed, flip, dim, shape, content, source, pre, seq):
    """ONE header-data unit - obtained by opening a written file with astropy (big-endian data), from hdu_for_output,
    or built in memory by the caller from an array of some dtype / byte order - is read by the sequence `seq` of
    from_primary_hdu readers. Reference model: readers are pure functions of the unit, so every read returns the content
    that was written (value readers: the native values as float64; mask readers: the booleans), with the written pixel
    scale, whatever was read before; the caller's unit (data values, dtype, byte order, shape, header cards), the array
    the caller built it from and the file on disk are the same after every read; objects returned by earlier reads keep
    their values."""
    import autoarray as aa
    from astropy.io import fits

    ps = 0.7
    parts = source.split(":")
    fam = parts[0]
    shape = tuple(int(x) for x in shape)
    n = int(np.prod(shape))
    integer = fam in ("mem", "memext") and np.dtype(parts[1]).kind == "i"
    mk = (_asym_mask(shape[0], shape[1], seed + 1) if dim == 2 else _asym_mask1(n, seed + 1))
    if content == "mask":
        E = (_asym_mask(shape[0], shape[1], seed) if dim == 2 else _asym_mask1(n, seed)).astype(float)
    elif fam in ("mem", "memext"):
        E = _exact_vals(seed, n, integer, shape).reshape(shape)
    else:
        E = vals_for(seed, n, "hr", shape).reshape(shape)
        if parts[1].endswith(".masked"):
            E = np.where(mk, 0.0, E)
    R = np.flipud(E) if (flip and dim == 2) else E  # what the unit must hold
    pre_c = "hdu-reuse[%s]" % fam
    hl = None
    path = None
    own = own0 = None
    try:
        # ---- the caller obtains the unit
        if fam in ("file", "ext"):
            obj = _hr_object(aa, parts[1], E, mk, ps)
            path = os.path.join(td, "reuse.fits")
            if fam == "file":
                obj.output_to_fits(file_path=path)
            else:
                oshape = (shape[1] + 1, shape[0]) if dim == 2 else (n + 1,)
                other = vals_for(seed, int(np.prod(oshape)), "hrB", oshape).reshape(oshape)
                hd = obj.hdu_for_output
                hdr0 = fits.Header()
                hdr0["PIXSCALE"] = 1.3
                fits.HDUList([fits.PrimaryHDU(other, header=hdr0),
                              fits.ImageHDU(np.array(hd.data), header=pix_cards(hd.header))]).writeto(path)
            digest0 = hashlib.sha1(open(path, "rb").read()).hexdigest()
            hl = fits.open(path, **HR_OPEN[parts[2]])
            hdu = hl[0 if fam == "file" else 1]
        elif fam == "out":
            hdu = _hr_object(aa, parts[1], E, mk, ps).hdu_for_output
        else:
            own = np.ascontiguousarray(R).astype(np.dtype(parts[1]))
            own0 = own.copy()
            hdr0 = fits.Header()
            hdr0["PIXSCALE"] = ps
            hdu = fits.PrimaryHDU(own, header=hdr0) if fam == "mem" else fits.ImageHDU(own, header=hdr0)
        header0 = _hr_header_view(hdu.header)
        dtypes = []
        changed = []

        def inspect(after):
            """The caller looks at the unit: data, dtype / byte order, header cards. A change is attributed to the read
            after which it is first seen (later looks at an already changed unit are not judged again)."""
            if changed:
                return
            d = hdu.data
            dtypes.append(np.asarray(d).dtype.str)
            g = np.asarray(d)
            same = g.shape == R.shape and bool(np.array_equal(g.astype(np.float64), R))
            if not same:
                changed.append(after)
            v.ok(same, "%s:%s:caller-hdu-data-changed" % (pre_c, after),
                 lambda: "%s, flip=%s, after reads [%s]: the caller's hdu.data is %s (dtype %s), the unit held %s"
                 % (source, flip, after, g.tolist(), g.dtype.str, R.tolist()))
            v.ok(dtypes[-1] == dtypes[0] and (own is None or dtypes[-1] == own0.dtype.str), "%s:%s:caller-hdu-dtype-changed" % (pre_c, after),
                 lambda: "%s: hdu.data dtype %s, was %s" % (source, dtypes[-1], dtypes[0]))
            hv = _hr_header_view(hdu.header)
            v.ok(hv == header0, "%s:%s:caller-hdu-header-changed" % (pre_c, after), lambda: "%s: header cards %s, were %s" % (source, hv, header0))
            if own is not None:
                v.ok(own.dtype == own0.dtype and bool(np.array_equal(own, own0)), "%s:%s:caller-array-changed" % (pre_c, after),
                     lambda: "%s: the array the unit was built from is now %s, was %s" % (source, own.tolist(), own0.tolist()))

        if pre:
            inspect("none")
        results = []
        for k, rd in enumerate(seq):
            hist = ",".join(seq[: k + 1])
            cls = getattr(aa, rd)
            try:
                o = cls.from_primary_hdu(primary_hdu=hdu)
            except Exception as e:  # noqa: BLE001
                _, _, where = _exc_site(e)
                v.fail("%s:%s:exception:%s" % (pre_c, rd, type(e).__name__),
                       "%s, flip=%s, reads [%s]: %s.from_primary_hdu raised %s: %s | %s" % (source, flip, hist, rd, type(e).__name__, str(e)[:200], where))
                break
            if rd in HR_VALUE_READERS:
                get, exp, dt = (lambda o=o: np.array(o.native)), E, "float64"
            else:
                get, exp, dt = (lambda o=o: np.array(o)), (E != 0.0), "bool"
            v.ok(isinstance(o, cls), "%s:%s:type" % (pre_c, rd), lambda: "type %s" % type(o).__name__)
            got = get()
            kind = mismatch(got, exp)
            first = k == 0
            ok = v.ok(kind is None, "%s:%s:%s:%s" % (pre_c, rd, "first-read" if first else "re-read", kind or "values"),
                      lambda: "%s, flip=%s, reads [%s]: %s.from_primary_hdu (read %d of the same unit) returned %s, the unit holds %s"
                      % (source, flip, hist, rd, k + 1, got.tolist(), exp.tolist()))
            if ok:
                v.ok(got.dtype == np.dtype(dt), "%s:%s:dtype" % (pre_c, rd), lambda: "dtype %s" % got.dtype)
            chk_scale(v, "%s:%s" % (pre_c, rd), o.pixel_scales, (ps,) * dim)
            if ok:
                results.append((hist, rd, get, exp))
            inspect(rd)
        # ---- the caller is done with the unit
        if hl is not None:
            hl.close()
            hl = None
            digest1 = hashlib.sha1(open(path, "rb").read()).hexdigest()
            v.ok(digest1 == digest0, "%s:file-bytes-changed" % pre_c,
                 lambda: "%s, flip=%s, reads [%s]: the file on disk changed although the caller only read from its unit" % (source, flip, ",".join(seq)))
        for hist, rd, get, exp in results:
            got = get()
            v.ok(mismatch(got, exp) is None, "%s:%s:earlier-result-changed" % (pre_c, rd),
                 lambda: "%s, flip=%s: the object returned by read [%s] holds %s after the later reads [%s], expected %s"
                 % (source, flip, hist, got.tolist(), ",".join(seq), exp.tolist()))
        native = np.dtype(dtypes[0]).isnative if dtypes else None
    finally:
        if hl is not None:
            hl.close()
    v.nontrivial = len(seq) >= 2 and not np.array_equal(E, np.flipud(E) if dim == 2 else E[::-1])
    v.outcome = "hdureuse:%s:%s:%s:flip%d" % (fam, content, "native-byte-order" if native else "non-native-byte-order", flip)


# ----------------------------------------------------------------------------- writers for target / overwrite cases


def _content(aa, writer, which, seed):
    """Build object `which` in {'A','B'} for `writer`; returns (write(path, overwrite), read(path)->ndarray, expected,
    read_with_headers(path)->(ndarray, {name: header object}), expected pixel scales). A and B differ in shape and scale."""
    two_d = FAMILY[writer].endswith("2d_to_fits")
    if two_d:
        h, w = (2, 3) if which == "A" else (4, 3)
        vals = vals_for(seed, h * w, "ow", writer, which).reshape(h, w)
        mk = np.zeros((h, w), dtype=bool)
        mk[0, 1] = True
        mk[h - 1, 0] = True
        if which == "B":
            mk[2, 2] = True
    else:
        n = 3 if which == "A" else 5
        vals = vals_for(seed, n, "ow", writer, which)
        mk = np.zeros(n, dtype=bool)
        mk[1] = True
        if which == "B":
            mk[3] = True
    ps2 = (0.5, 2.0) if which == "B" else 0.7
    ps1 = 2.0 if which == "B" else 0.7
    ups = 2.0 if which == "B" else 0.7  # PIXSCALE card of the util writers
    eps2 = norm_scales(ps2, 2)

    def rdh_arr(cls):
        """Library reader returning (native values, the header objects it attached)."""
        def rdh(p):
            kw = {"hdu": 0} if cls is aa.Kernel2D else {}
            o = cls.from_fits(file_path=p, pixel_scales=(ps2 if two_d else ps1), **kw)
            hd = o.header
            return np.array(o.native), {"header_sci_obj": None if hd is None else hd.header_sci_obj,
                                        "header_hdu_obj": None if hd is None else hd.header_hdu_obj}
        return rdh

    if writer == "Array2D":
        o = aa.Array2D.no_mask(values=vals.copy(), pixel_scales=ps2)
        return o.output_to_fits, (lambda p: np.array(aa.Array2D.from_fits(file_path=p, pixel_scales=ps2).native)), vals, rdh_arr(aa.Array2D), eps2
    if writer == "Array2D.masked":
        o = aa.Array2D(values=vals.copy(), mask=aa.Mask2D(mask=mk.copy(), pixel_scales=ps2))
        return o.output_to_fits, (lambda p: np.array(aa.Array2D.from_fits(file_path=p, pixel_scales=ps2).native)), np.where(mk, 0.0, vals), rdh_arr(aa.Array2D), eps2
    if writer == "Kernel2D":
        o = aa.Kernel2D.no_mask(values=vals.copy(), pixel_scales=ps2)
        return o.output_to_fits, (lambda p: np.array(aa.Kernel2D.from_fits(file_path=p, hdu=0, pixel_scales=ps2).native)), vals, rdh_arr(aa.Kernel2D), eps2
    if writer == "Mask2D":
        o = aa.Mask2D(mask=mk.copy(), pixel_scales=ps2)
        rd = lambda p: np.array(aa.Mask2D.from_fits(file_path=p, pixel_scales=ps2))  # noqa: E731
        return o.output_to_fits, rd, mk, (lambda p: (rd(p), {})), eps2
    if writer == "util2d":
        fn = aa.util.array_2d.numpy_array_2d_to_fits

        def wr(file_path, overwrite=False):
            return fn(array_2d=vals.copy(), file_path=file_path, overwrite=overwrite, header_dict={"PIXSCALE": ups})

        rd = lambda p: aa.util.array_2d.numpy_array_2d_via_fits_from(file_path=p, hdu=0)  # noqa: E731
        return wr, rd, vals, (lambda p: (rd(p), {"header_obj_from": aa.util.array_2d.header_obj_from(file_path=p, hdu=0)})), (ups, ups)
    if writer == "Array1D":
        o = aa.Array1D(values=vals.copy(), mask=aa.Mask1D(mask=mk.copy(), pixel_scales=(ps1,)))
        return o.output_to_fits, (lambda p: np.array(aa.Array1D.from_fits(file_path=p, pixel_scales=ps1).native)), np.where(mk, 0.0, vals), rdh_arr(aa.Array1D), (ps1,)
    if writer == "Mask1D":
        o = aa.Mask1D(mask=mk.copy(), pixel_scales=(ps1,))
        rd = lambda p: np.array(aa.Mask1D.from_fits(file_path=p, pixel_scales=ps1))  # noqa: E731
        return o.output_to_fits, rd, mk, (lambda p: (rd(p), {})), (ps1,)
    if writer == "util1d":
        fn = aa.util.array_1d.numpy_array_1d_to_fits

        def wr1(file_path, overwrite=False):
            return fn(array_1d=vals.copy(), file_path=file_path, overwrite=overwrite, header_dict={"PIXSCALE": ups})

        rd = lambda p: np.asarray(aa.util.array_1d.numpy_array_1d_via_fits_from(file_path=p, hdu=0), dtype=float)  # noqa: E731
        return wr1, rd, vals, (lambda p: (rd(p), {"header_obj_from": aa.util.array_2d.header_obj_from(file_path=p, hdu=0)})), (ups,)
    raise ValueError(writer)


def _paths3(p):
    """data / psf / noise-map paths derived from one target path, same type (str or Path), same directory."""
    if isinstance(p, Path):
        return [p.with_name(p.stem + suf + ".fits") for suf in ("_data", "_psf", "_noise")]
    d, f = os.path.split(p)
    stem = f[:-5]
    sep = (d + "/") if d else ""
    if p.startswith("./") and d == ".":
        sep = "./"
    return [sep + stem + suf + ".fits" for suf in ("_data", "_psf", "_noise")]


class _ImagingIO:
    """Imaging as a writer of three files that move in lock-step."""

    def __init__(self, aa, which, seed):
        self.aa = aa
        h, w = (2, 3) if which == "A" else (4, 3)
        self.ps = 0.7 if which == "A" else (0.5, 2.0)
        self.im, self.exp = _make_imaging(aa, seed + (0 if which == "A" else 1), h, w, (3, 1) if which == "A" else (1, 3), False, self.ps)

    def write(self, file_path, overwrite=False):
        d, p, n = _paths3(file_path)
        self.im.output_to_fits(data_path=d, psf_path=p, noise_map_path=n, overwrite=overwrite)

    def raw_expected(self):
        return [self.exp["data"], self.exp["psf"], self.exp["noise_map"]]

    def read_back(self, file_path):
        d, p, n = _paths3(file_path)
        im = self.aa.Imaging.from_fits(pixel_scales=self.ps, data_path=d, noise_map_path=n, psf_path=p)
        eps = norm_scales(self.ps, 2)
        out = []
        for label, o, e in (("data", im.data, self.exp["data"]), ("psf", im.psf, self.exp["psf"]), ("noise_map", im.noise_map, self.exp["noise_map"])):
            hd = o.header  # Imaging re-normalises its PSF, which drops the header object: only present headers are judged
            hdrs = {} if hd is None else {"header_sci_obj": hd.header_sci_obj, "header_hdu_obj": hd.header_hdu_obj}
            out.append((label, np.array(o.native), e, hdrs, eps))
        return out


class _IO:
    def __init__(self, aa, writer, seed):
        self.writer = writer
        self.multi = writer == "Imaging"
        self.c = {}
        for which in ("A", "B"):
            self.c[which] = _ImagingIO(aa, which, seed) if self.multi else _content(aa, writer, which, seed)

    def files(self, p):
        return [str(x) for x in _paths3(p)] if self.multi else [str(p)]

    def write(self, which, p, overwrite):
        if self.multi:
            self.c[which].write(file_path=p, overwrite=overwrite)
        else:
            self.c[which][0](file_path=p, overwrite=overwrite)

    def read_back(self, which, p):
        """[(label, values read by the LIBRARY reader, expected values, {name: header object}, expected scales)]."""
        if self.multi:
            return self.c[which].read_back(p)
        c = self.c[which]
        got, hdrs = c[3](p)
        return [("", got, np.asarray(c[2]), hdrs, c[4])]

    def expected_headers(self, which):
        """[(expected shape, expected scales)] per file of content `which`."""
        if self.multi:
            eps = norm_scales(self.c[which].ps, 2)
            return [(np.asarray(e).shape, eps) for e in self.c[which].raw_expected()]
        return [(np.asarray(self.c[which][2]).shape, self.c[which][4])]

    def observe(self, p):
        """'absent' | 'A' | 'B' | 'partial' | 'other' from the files on disk.

        Content is identified with astropy directly (not with the library readers) and up to the DS9 flip, so that
        value / orientation defects of a reader or writer are reported by the round-trip routes only and do not
        fan out into the path / overwrite classes. Full replacement = exactly one HDU of the content's own shape.
        """
        ex = [os.path.exists(f) for f in self.files(p)]
        if not any(ex):
            return "absent"
        if not all(ex):
            return "partial"
        for which in ("A", "B"):
            try:
                exps = self.c[which].raw_expected() if self.multi else [np.asarray(self.c[which][2], dtype=float)]
                good = True
                self.disk_headers = []
                for f, e in zip(self.files(p), exps):
                    raw = raw_hdus(f)
                    self.disk_headers.append(raw[0][1] if raw else None)
                    if len(raw) != 1 or raw[0][0] is None or raw[0][0].shape != e.shape:
                        good = False
                        break
                    g = np.asarray(raw[0][0], dtype=float)
                    flipped = np.flipud(e)
                    if not (np.allclose(g, e, rtol=1e-12, atol=0.0) or np.allclose(g, flipped, rtol=1e-12, atol=0.0)):
                        good = False
                        break
                if good:
                    return which
            except Exception:  # noqa: BLE001
                pass
        return "other"

    def digest(self, p):
        h = hashlib.sha1()
        for f in self.files(p):
            if os.path.exists(f):
                with open(f, "rb") as fh:
                    h.update(fh.read())
            else:
                h.update(b"<absent>")
        return h.hexdigest()


def _exc_site(e):
    tb = traceback.extract_tb(e.__traceback__)
    site = ""
    for fr in tb:
        if "/autoarray/" in fr.filename:
            site = fr.name
    inner = tb[-1].name if tb else ""
    return site, inner, " <- ".join("%s:%d" % (os.path.basename(f.filename), f.lineno) for f in reversed(tb[-4:]))


def _target_path(td, spec, fname="x.fits"):
    """(path handed to the writer, the same path as an absolute str, whether the caller must chdir into td) for a
    (spelling, existing levels, missing levels) spec; the existing levels are created here, by the harness."""
    spelling, n_exist, n_missing = spec
    levels = LEVELS[: n_exist + n_missing]
    if n_exist:
        os.makedirs(os.path.join(td, *LEVELS[:n_exist]), exist_ok=True)
    absp = os.path.join(td, *(levels + [fname]))
    relp = "/".join(levels + [fname])
    if spelling == "abs":
        p = absp
    elif spelling == "rel":
        p = relp
    elif spelling == "dot":
        p = "./" + relp
    elif spelling == "path":
        p = Path(td).joinpath(*(levels + [fname]))
    elif spelling == "relpath":
        p = Path(*(levels + [fname]))
    else:
        raise ValueError(spelling)
    return p, absp, spelling in ("rel", "dot", "relpath")


def _dirs_under(td):
    out = []
    for root, ds, _ in os.walk(td):
        for d in ds:
            out.append(os.path.relpath(os.path.join(root, d), td))
    return sorted(out)


def _chain(n):
    """Relative names of the directory chain a/, a/b/, ... of n levels."""
    return sorted(os.path.join(*LEVELS[: k + 1]) for k in range(n))


def run_target(v, td, seed, flip, writer, tkind, overwrite):
    import autoarray as aa

    io = _IO(aa, writer, seed)
    v.nontrivial = tkind != "plain"
    spec = TARGET_SPEC[tkind]
    p, absp, rel = _target_path(td, spec)
    if rel:
        os.chdir(td)
    bare = tkind in ("bare", "bare-pathobj")
    fam = FAMILY[writer]
    try:
        io.write("A", p, bool(overwrite))
    except Exception as e:  # noqa: BLE001
        site, inner, where = _exc_site(e)
        if bare and isinstance(e, FileNotFoundError) and site == fam and inner in ("makedirs", "mkdir"):
            cls = "bare-filename:%s" % fam
        elif bare:
            cls = "bare-filename:%s:exception:%s" % (writer, type(e).__name__)
        else:
            cls = "target:%s:%s:exception:%s" % (tkind, fam, type(e).__name__)
        v.fail(cls, "%s.output(%r, overwrite=%s) raised %s: %s | %s" % (writer, str(p), bool(overwrite), type(e).__name__, str(e)[:160], where))
        v.outcome = "target:%s:raised" % tkind
        return
    v.ok(True, "target:write")
    v.outcome = "target:%s:written" % tkind
    # the file must be where the caller asked for it, complete and readable (absolute view and the caller's view)
    pre = ("bare-filename:%s" % writer) if bare else ("target:%s:%s" % (tkind, fam))
    got_abs = io.observe(absp)
    v.ok(got_abs == "A", pre + ":content-at-absolute-path", lambda: "%s after write to %r: absolute path %s holds %s" % (writer, str(p), absp, got_abs))
    got_rel = io.observe(p)
    v.ok(got_rel == "A", pre + ":content-at-given-path", lambda: "%s after write to %r: given path holds %s" % (writer, str(p), got_rel))
    # the library reader accepts the same path spelling (shape only: values / orientation belong to the routes)
    if not io.multi:
        _, rd, exp = io.c["A"][:3]

        def read_back():
            got = np.asarray(rd(p))
            v.ok(got.shape == np.asarray(exp).shape, pre + ":reader-shape", lambda: "reader returned shape %s" % (got.shape,))

        attempt(v, pre + ":reader", read_back)
    # nothing else appeared in the scratch directory
    found = []
    for root, _, fs in os.walk(td):
        for f in fs:
            found.append(os.path.join(root, f))
    want = sorted(io.files(absp))
    v.ok(sorted(found) == want, pre + ":stray-files", lambda: "files %s, expected %s" % (sorted(found), want))
    # the missing directory levels were created - exactly those of the path
    dirs, wdirs = _dirs_under(td), _chain(spec[1] + spec[2])
    v.ok(dirs == wdirs, pre + ":directories", lambda: "directories below the scratch directory %s, expected %s" % (dirs, wdirs))
    # the overwrite semantics hold for this path spelling too: replace with overwrite=True, refuse with overwrite=False
    try:
        io.write("B", p, True)
        got = io.observe(absp)
        v.ok(got == "B", pre + ":overwrite-existing:content", lambda: "%s overwrite=True onto existing %r: file holds %s, expected B" % (writer, str(p), got))
    except Exception as e:  # noqa: BLE001
        v.fail(pre + ":overwrite-existing:raised", "%s.output(%r, overwrite=True) onto an existing file raised %s: %s" % (writer, str(p), type(e).__name__, str(e)[:160]))
    before = io.digest(absp)
    raised = None
    try:
        io.write("A", p, False)
    except Exception as e:  # noqa: BLE001
        raised = e
    v.ok(raised is not None, pre + ":no-overwrite-existing:did-not-raise", lambda: "%s overwrite=False onto existing %r did not raise" % (writer, str(p)))
    v.ok(io.digest(absp) == before, pre + ":no-overwrite-existing:file-modified", lambda: "%s rejected write changed %r" % (writer, str(p)))


def model_step(state, ev):
    """3-state reference model. Returns (next_state, must_raise)."""
    if ev == "del":
        return "absent", False
    which, ow = ev[1], ev[2] == "1"
    if state != "absent" and not ow:
        return state, True
    return which, False


def _header_problems(hdr, shape, eps):
    """Problems of one header object w.r.t. the content that is on disk now (shape, pixel scales)."""
    if hdr is None:
        return ["no header object"]
    out = []
    want = [("NAXIS", len(shape)), ("NAXIS1", shape[-1])] + ([("NAXIS2", shape[0])] if len(shape) == 2 else [])
    for key, val in want:
        if key not in hdr:
            out.append("%s missing" % key)
        elif int(hdr[key]) != int(val):
            out.append("%s=%s, content has %s" % (key, hdr[key], val))
    g = header_scales(hdr, len(eps))
    if g is None:
        out.append("no PIXSCALE card")
    elif not _sclose(g, eps):
        aniso = len(eps) == 2 and eps[0] != eps[1]
        if not (aniso and _sclose(g, (eps[0], eps[0]))):  # that form is reported as pixel_scale_header:anisotropic
            out.append("pixel scale cards give %s, content has %s" % (g, eps))
    return out


def _check_reader(v, io, which, p, hist):
    """After a successful write of `which`: the file's header and the LIBRARY reader (values, shape, header objects)
    must show `which` - also when the same path was read before with other content in this process."""
    wr = io.writer
    for (shape, eps), hdr in zip(io.expected_headers(which), getattr(io, "disk_headers", [])):
        bad = _header_problems(hdr, shape, eps)
        v.ok(not bad, "overwrite:%s:disk-header" % wr,
             lambda: "%s history [%s]: header on disk after writing %s: %s" % (wr, hist, which, "; ".join(bad)))

    def go():
        for label, got, exp, hdrs, eps in io.read_back(which, p):
            got = np.asarray(got)
            exp = np.asarray(exp)
            same = got.shape == exp.shape
            if same:
                g, e = got.astype(float), exp.astype(float)
                fl = np.flipud(e)  # orientation is the round-trip routes' business, not the overwrite model's
                same = bool(np.allclose(g, e, rtol=1e-12, atol=0.0) or np.allclose(g, fl, rtol=1e-12, atol=0.0))
            v.ok(same, "overwrite:%s:reader-values" % wr,
                 lambda: "%s history [%s]: library reader %s returned %s (shape %s) after writing %s = %s"
                 % (wr, hist, label, got.tolist(), got.shape, which, exp.tolist()))
            for name in sorted(hdrs):
                bad = _header_problems(hdrs[name], exp.shape, eps)
                v.ok(not bad, "overwrite:%s:reader-header" % wr,
                     lambda: "%s history [%s]: library reader %s %s after writing %s (shape %s, scales %s): %s"
                     % (wr, hist, label, name, which, exp.shape, eps, "; ".join(bad)))

    attempt(v, "overwrite:%s:reader" % wr, go)


def model_step_dir(state, ev, n_missing):
    """File model with the state of the output directory: state = (missing directory levels, 'absent'|'A'|'B').
    A write that is not rejected creates every missing level; deleting the file leaves the directories; rmtree puts the
    directory back into its initial state. Returns (next_state, must_raise)."""
    missing, fstate = state
    if ev == "rmtree":
        return (n_missing, "absent"), False
    nxt, must_raise = model_step(fstate, ev)
    if ev == "del" or must_raise:
        return (missing, nxt), must_raise
    return (0, nxt), False


def run_overwrite(v, td, seed, flip, writer, events, dirstate="dirs1"):
    import autoarray as aa

    io = _IO(aa, writer, seed)
    fam = FAMILY[writer]
    spec = OW_DIRSTATES[dirstate]
    n_exist, n_missing = spec[1], spec[2]
    p, absp, rel = _target_path(td, spec)
    if rel:
        os.chdir(td)
    created_root = os.path.join(td, *LEVELS[: n_exist + 1]) if n_missing else None
    state = (n_missing, "absent")
    rej = repl = made = 0
    for k, ev in enumerate(events):
        hist = ",".join(events[: k + 1])
        if dirstate != "dirs1":
            hist = "%s | %s" % (dirstate, hist)
        if ev in ("del", "rmtree"):
            if ev == "del":
                for f in io.files(absp):
                    if os.path.exists(f):
                        os.remove(f)
            elif created_root is not None and os.path.exists(created_root):
                shutil.rmtree(created_root)
            state, _ = model_step_dir(state, ev, n_missing)
            obs = io.observe(absp)
            v.ok(obs == "absent", "overwrite:harness-delete", lambda: "after %s: %s" % (hist, obs))
            v.ok(_dirs_under(td) == _chain(n_exist + n_missing - state[0]), "overwrite:harness-delete",
                 lambda: "after %s: directories %s" % (hist, _dirs_under(td)))
            continue
        (nmiss, nxt), must_raise = model_step_dir(state, ev, n_missing)
        missing, fstate = state
        which, ow = ev[1], ev[2] == "1"
        evclass = ("existing" if fstate != "absent" else "absent") + (":overwrite" if ow else ":no-overwrite")
        if fstate == "absent" and dirstate != "dirs1":
            # the state of the output directory the write meets (the default history start keeps the plain class names)
            evclass = "absent[%s]" % ("bare-file-name" if dirstate == "bare" else "missing-dirs=%d" % missing) + evclass[6:]
        before = io.digest(absp)
        raised = None
        try:
            io.write(which, p, ow)
        except Exception as e:  # noqa: BLE001
            raised = e
        if must_raise:
            rej += 1
            v.ok(raised is not None, "overwrite:%s:%s:did-not-raise" % (fam, evclass),
                 lambda: "%s history [%s]: write %s with overwrite=False onto a file holding %s did not raise" % (writer, hist, which, fstate))
            after = io.digest(absp)
            v.ok(after == before, "overwrite:%s:%s:file-modified" % (fam, evclass),
                 lambda: "%s history [%s]: rejected write changed the file bytes (now %s)" % (writer, hist, io.observe(absp)))
            if raised is not None:
                v.ok(isinstance(raised, OSError), "overwrite:%s:%s:exception-type" % (fam, evclass),
                     lambda: "%s raised %s: %s" % (writer, type(raised).__name__, str(raised)[:120]))
        else:
            if fstate != "absent":
                repl += 1
            if (missing >= 1 and (dirstate != "dirs1" or "rmtree" in events[:k])) or (dirstate == "bare" and fstate == "absent"):
                made += 1  # the write had to create directories from a state the plain sweep does not start in / bare name
            v.ok(raised is None, "overwrite:%s:%s:raised" % (fam, evclass),
                 lambda: "%s history [%s]: write %s overwrite=%s on state %s (%d directory levels missing) raised %s: %s | %s"
                 % (writer, hist, which, ow, fstate, missing, type(raised).__name__, str(raised)[:120], _exc_site(raised)[2]))
        obs = io.observe(absp)
        if not v.ok(obs == nxt, "overwrite:%s:%s:content" % (fam, evclass),
                    lambda: "%s history [%s]: file holds %s, model says %s" % (writer, hist, obs, nxt)):
            state = (nmiss, "diverged")
            break  # later events would be judged against a state the file is not in
        dirs, wdirs = _dirs_under(td), _chain(n_exist + n_missing - nmiss)
        v.ok(dirs == wdirs, "overwrite:%s:%s:directories" % (fam, evclass),
             lambda: "%s history [%s]: directories below the scratch directory %s, model says %s" % (writer, hist, dirs, wdirs))
        if rel:
            obs_rel = io.observe(p)
            v.ok(obs_rel == nxt, "overwrite:%s:%s:content-at-given-path" % (fam, evclass),
                 lambda: "%s history [%s]: given path %r holds %s, model says %s" % (writer, hist, str(p), obs_rel, nxt))
        state = (nmiss, nxt)
        if raised is None and not must_raise:
            _check_reader(v, io, which, p, hist)
    v.nontrivial = (rej + repl + made) > 0
    v.outcome = "overwrite:%s:final=%s:rejected=%d:replaced=%d" % (dirstate, state[1], rej, repl) if dirstate != "dirs1" \
        else "overwrite:final=%s:rejected=%d:replaced=%d" % (state[1], rej, repl)


RUNNERS = {
    "arr2d": run_arr2d,
    "mask2d": run_mask2d,
    "kern2d": run_kern2d,
    "arr1d": run_arr1d,
    "mask1d": run_mask1d,
    "imaging": run_imaging,
    "target": run_target,
    "overwrite": run_overwrite,
    "deriv2d": run_deriv2d,
    "deriv1d": run_deriv1d,
    "cfghist": run_cfghist,
    "hdureuse": run_hdureuse,
}
