"""C04 - data vector and curvature matrix equal the normal equations in both formalisms."""
import itertools

import numpy as np

from mc import dom, fix_inv
from mc.core import V

ID = "C04"
ENGINE = "scope"
CHUNK = 8
RULE = (
    "cases = (frame, PSF shape, interior mask, PSF sign kind, sub-size, ordered list of linear objects with "
    "regularization flags); every interior mask in the stated family and every ordered object list up to the "
    "stated length is enumerated; each case runs both formalisms through the factory and the two classes directly; "
    "non-trivial = mask is not a full rectangle (has holes / several components / ragged outline) or the PSF is "
    "non-square or signed or the list mixes object kinds"
)
ASSUMPTIONS = [
    "each object's own mapping_matrix is taken as given (certified separately by C06); the oracle is B = C.M with C "
    "the convolution matrix written from the definition",
    "D and F are (bi)linear in (data, 1/noise^2, kernel, M): labelled signed kernels/data and non-constant noise "
    "expose any mis-routed term",
]
BOUNDS = {
    "quick": "5x5 frame/3x3 PSF: all interior masks with <=4 unmasked pixels or (holes/2+ components, <=7 pixels) with object "
             "lists of length 1..2 over {rectA,rectB,del,func,funcS}; 7x5/5x7 frames with 3x1,1x3,5x3,3x5 PSFs: all interior "
             "masks of the 3x3/.. interior up to 5 pixels with a 4-list menu; PSF kinds nonneg+signed; sub-size 1, 2 and a per-pixel map (2,1,3 cyclic)",
    "thorough": "all 511 interior masks of 5x5/3x3 x all ordered lists of length 1..2 plus a length-3 menu; non-square PSFs "
                "on all interior masks; sub-size 1,2",
}

KINDS = fix_inv.OBJ_KINDS


def obj_lists(maxlen, tier):
    """Every ordered list of 1..maxlen distinct kinds, each with a regularization flag pattern."""
    out = []
    for L in range(1, maxlen + 1):
        for kinds in itertools.permutations(KINDS, L):
            if L == 1:
                regs = [(True,), (False,)]
            elif L == 2:
                regs = [(True, True), (True, False), (False, True)] if tier == "thorough" else [(True, True), (True, False)]
                if kinds[0].startswith("func"):
                    regs = [(False, True), (True, True)]
            else:
                regs = [(True, False, True)]
            for r in regs:
                # function lists are normally unregularized; keep flag as enumerated but avoid all-unregularized-only lists twice
                out.append([list(kinds), list(r)])
    return out


def mask_family(frame, kshape, tier, max_pix_quick):
    fam = []
    for bits in dom.interior_mask_cases(frame, kshape):
        m = dom.interior_mask(frame, kshape, bits)
        npx = int((~m).sum())
        if npx < 2:
            continue
        if tier == "thorough":
            fam.append(bits)
        else:
            comps = dom.n_components(m)
            holes = dom.n_components(~np.pad(m, 1, constant_values=True)) > 1  # masked region split => hole
            if npx <= max_pix_quick or ((comps > 1 or holes) and npx <= 7 and bits % 3 == 0):
                fam.append(bits)
    return fam


LEN3_MENU = [
    [["rectA", "func", "del"], [True, False, True]],
    [["funcS", "rectB", "rectA"], [False, True, True]],
    [["del", "rectA", "rectB"], [True, True, False]],
    [["rectB", "del", "func"], [True, False, False]],
    # two DIFFERENT function lists with equal parameter counts next to a mapper (cross blocks between function lists)
    [["func", "rectA", "funcB"], [False, True, False]],
    [["funcB", "func", "del"], [False, False, True]],
    [["rectB", "funcS", "func"], [True, False, True]],
]
SMALL_MENU = [
    [["rectA"], [True]],
    [["funcS", "rectB"], [False, True]],
    [["del", "func"], [True, False]],
    [["rectB", "rectA"], [True, False]],
]


def cases(tier, seed):
    # --- square 3x3 PSF on 5x5
    lists = obj_lists(2, tier)
    fam = mask_family((5, 5), (3, 3), tier, 4)
    for bits in fam:
        for kind in fix_inv.PSF_KINDS:
            for k, ol in enumerate(lists):
                if tier == "quick" and (k + bits) % 5 != 0:
                    continue  # quick: every mask x PSF kind with a rotating fifth of the list menu (each list meets >= 50 masks)
                sub = (k // 5 + bits) % 3  # 0 = per-pixel map (2,1,3 cyclic), 1, 2 = uniform
                yield [[5, 5], [3, 3], bits, kind, sub, ol, seed]
    # --- length-3 lists
    fam3 = [b for b in fam if b % (5 if tier == "quick" else 2) == 0]
    for bits in fam3:
        for kind in fix_inv.PSF_KINDS:
            for ol in LEN3_MENU:
                yield [[5, 5], [3, 3], bits, kind, 2, ol, seed]
    # --- other units (data and noise scaled together by 3e3 / 1e-5: absolute thresholds on noise-weighted terms must not matter) and
    # --- the same linear-object instance used twice in one list
    REPEAT = [
        [["func", "rectA", "func@same"], [False, True, False]],
        [["rectA", "funcS", "rectA@same"], [True, False, True]],
        [["funcS", "del", "funcS@same", "rectB"], [False, True, False, True]],
    ]
    for bits in fam3:
        for kind in fix_inv.PSF_KINDS:
            for units in (3.0e3, 1.0e-5):
                for ol in (SMALL_MENU[1], SMALL_MENU[3], LEN3_MENU[0]):
                    yield [[5, 5], [3, 3], bits, kind, 1 + bits % 2, ol, seed, units]
            for ol in REPEAT:
                yield [[5, 5], [3, 3], bits, kind, 1, ol, seed]
    # --- non-square PSFs
    for frame, ks in (([5, 3], [3, 1]), ([3, 5], [1, 3]), ([5, 4], [3, 1]), ([7, 5], [5, 3]), ([5, 7], [3, 5]), ([3, 3], [1, 1]), ([7, 7], [5, 5])):
        famn = mask_family(tuple(frame), tuple(ks), tier, 3 if tier == "quick" else 99)
        if len(famn) > 600:
            famn = [b for i, b in enumerate(famn) if i % (len(famn) // 500 + 1) == 0]
        for bits in famn:
            for kind in fix_inv.PSF_KINDS:
                for ol in SMALL_MENU:
                    yield [frame, ks, bits, kind, 1 + bits % 2, ol, seed]


def _build(case):
    frame, ks, bits, kind, sub, (kinds, regs), seed = case[:7]
    units = case[7] if len(case) > 7 else 1.0
    fx = fix_inv.make_dataset(frame, ks, bits, psf_kind=kind, seed=seed, sub=sub, units=units)
    made = {}
    objs = []
    for k, r in zip(kinds, regs):
        if k.endswith("@same"):  # the SAME linear-object instance appearing again in the list
            objs.append(made[k[:-5]])
        else:
            made[k] = fix_inv.make_obj(fx, k, reg=r, seed=seed)
            objs.append(made[k])
    return fx, objs


def run_case(case):
    frame, ks, bits, kind, sub, (kinds, regs), seed = case[:7]
    # cases that only judge D, F and the blurred mapping matrix: (i) a list that contains the same object instance twice (the
    # per-object dictionaries of the library are keyed by object, so per-object model data is undefined for such a list); (ii) the
    # dataset in other units, where F+H is conditioned very differently and the solution is not comparable at fixed tolerances
    normal_eq_only = any(k.endswith("@same") for k in kinds) or (len(case) > 7 and case[7] != 1.0)
    kinds = [k[:-5] if k.endswith("@same") else k for k in kinds]
    v = V(ID)
    fx, objs0 = _build(case)
    aa = fx["aa"]
    m = fx["mask_bool"]
    pix = np.argwhere(~m)
    rect = len(pix) == (np.ptp(pix[:, 0]) + 1) * (np.ptp(pix[:, 1]) + 1)
    v.nontrivial = (not rect) or ks[0] != ks[1] or kind == "signed" or len(set(k[:4] for k in kinds)) > 1
    v.outcome = "%dx%d/%dx%d/%s/L%d" % (frame[0], frame[1], ks[0], ks[1], kind, len(kinds))

    B, widths = fix_inv.reference_B(fx, objs0)
    D_ref, F_ref = fix_inv.normal_equations(B, fx["data"], fx["noise"])
    diag = 1e-3  # deliberately not the config default: the configured value must be the one that is added
    unreg = []
    off = 0
    for wdt, r in zip(widths, regs):
        if not r:
            unreg += list(range(off, off + wdt))
        off += wdt
    F_ref = F_ref.copy()
    F_ref[unreg, unreg] += diag
    scaleD = float(np.abs(D_ref).max()) or 1.0  # relative to the magnitude of the quantity itself (datasets come in any units)
    scaleF = float(np.abs(F_ref).max()) or 1.0
    all_func = all(k.startswith("func") for k in kinds)
    tagsfx = ":signed-psf" if kind == "signed" else ""
    tagsfx += ":nonsquare-psf" if ks[0] != ks[1] else ""

    results = {}
    for wt in (False, True):
        for route in ("factory", "class"):
            if route == "class" and wt and all_func:
                continue  # the factory never builds a w-tilde inversion from function lists only
            fx2, objs = _build(case)  # fresh graph per inversion: nothing cached is shared
            ds = fx2["ds"]
            st = fix_inv.settings(aa, wt, diag=diag)
            name = ("wtilde" if wt else "mapping") + "/" + route
            try:
                if route == "factory":
                    inv = aa.Inversion(dataset=ds, linear_obj_list=objs, settings=st)
                    want = aa.InversionImagingWTilde if (wt and not all_func) else aa.InversionImagingMapping
                    v.ok(type(inv) is want, "factory-formalism-selection", lambda: "%s -> %s" % (name, type(inv).__name__))
                elif wt:
                    inv = aa.InversionImagingWTilde(dataset=ds, w_tilde=ds.w_tilde, linear_obj_list=objs, settings=st)
                else:
                    inv = aa.InversionImagingMapping(dataset=ds, linear_obj_list=objs, settings=st)
                fam = "wtilde" if isinstance(inv, aa.InversionImagingWTilde) else "mapping"
                D = np.array(inv.data_vector, dtype=float)
                F = np.array(inv.curvature_matrix, dtype=float)
            except Exception as e:  # e.g. IndexError inside the w-tilde tables
                v.fail("%s:exception%s" % ("wtilde" if wt else "mapping", tagsfx), "%s %s: %r" % (name, case[:5], e))
                continue
            okD = D.shape == D_ref.shape and np.allclose(D, D_ref, rtol=1e-9, atol=1e-9 * scaleD)
            v.ok(okD, "%s:data_vector%s" % (fam, tagsfx), lambda: "%s maxdiff=%s D=%s ref=%s" % (name, dom.maxdiff(D, D_ref), D[:6], D_ref[:6]))
            okF = F.shape == F_ref.shape and np.allclose(F, F_ref, rtol=1e-9, atol=1e-9 * scaleF)
            v.ok(okF, "%s:curvature_matrix%s" % (fam, tagsfx), lambda: "%s maxdiff=%s" % (name, dom.maxdiff(F, F_ref)))
            v.ok(F.shape == F_ref.shape and np.allclose(F, F.T, rtol=1e-12, atol=1e-12 * scaleF), "%s:curvature-symmetric" % fam, name)
            # block order: the diagonal block of object i is the normal matrix of object i alone
            off = 0
            for i, wdt in enumerate(widths):
                blk = F[off:off + wdt, off:off + wdt] if F.shape == F_ref.shape else None
                v.ok(blk is not None and np.allclose(blk, F_ref[off:off + wdt, off:off + wdt], rtol=1e-9, atol=1e-9 * scaleF),
                     "%s:block-order%s" % (fam, tagsfx), lambda: "%s block %d" % (name, i))
                off += wdt
            try:
                omm = np.array(inv.operated_mapping_matrix, dtype=float)
                v.ok(omm.shape == B.shape and np.allclose(omm, B, rtol=1e-9, atol=1e-12), "%s:operated_mapping_matrix%s" % (fam, tagsfx),
                     lambda: "%s maxdiff=%s" % (name, dom.maxdiff(omm, B)))
            except Exception as e:
                v.fail("%s:operated_mapping_matrix:exception" % fam, repr(e))
            # reconstruction and mapped data (unconstrained solver), all objects regularized or ridge 1e-3 keeps it SPD
            if normal_eq_only:
                continue
            try:
                s = np.array(inv.reconstruction, dtype=float)
                mrd = np.array(inv.mapped_reconstructed_data, dtype=float)
                results[name] = (s, mrd)
                v.ok(mrd.shape == (fx["n"],) and np.allclose(mrd, B @ s, rtol=1e-8, atol=1e-9 * max(1.0, np.abs(mrd).max())),
                     "%s:mapped_reconstructed_data%s" % (fam, tagsfx), lambda: "%s maxdiff=%s" % (name, dom.maxdiff(mrd, B @ s)))
                # the normal-equation quantities must still report the same values after the system has been solved
                D2 = np.array(inv.data_vector, dtype=float)
                F2 = np.array(inv.curvature_matrix, dtype=float)
                v.ok(D2.shape == D_ref.shape and np.allclose(D2, D_ref, rtol=1e-9, atol=1e-9 * scaleD), "%s:data_vector:after-solve" % fam,
                     lambda: "%s maxdiff=%s" % (name, dom.maxdiff(D2, D_ref)))
                v.ok(F2.shape == F_ref.shape and np.allclose(F2, F_ref, rtol=1e-9, atol=1e-9 * scaleF), "%s:curvature_matrix:after-solve" % fam,
                     lambda: "%s maxdiff=%s" % (name, dom.maxdiff(F2, F_ref)))
            except aa.exc.InversionException:
                results[name] = None
    # ---- a second dataset that shares the convolver / grids / w-tilde tables of the first but holds DIFFERENT data (the
    # DatasetInterface route used when an image has something subtracted before it is inverted): D must follow the new data
    if not all_func and not normal_eq_only:
        fx3, objs3 = _build(case)
        ds3 = fx3["ds"]
        first = aa.Inversion(dataset=ds3, linear_obj_list=objs3, settings=fix_inv.settings(aa, True, diag=diag))
        _ = np.array(first.data_vector), np.array(first.curvature_matrix)  # first use fills whatever is cached on the shared tables
        d2 = 0.5 - 1.7 * fx3["data"][::-1]
        data2 = aa.Array2D(values=d2.copy(), mask=fx3["mask"])
        D2_ref = fix_inv.normal_equations(B, d2, fx3["noise"])[0]
        for wt in (True, False):
            dsi = aa.DatasetInterface(data=data2, noise_map=ds3.noise_map, grids=ds3.grids, convolver=ds3.convolver, w_tilde=ds3.w_tilde)
            _, objs4 = _build(case)
            try:
                inv4 = aa.Inversion(dataset=dsi, linear_obj_list=objs4, settings=fix_inv.settings(aa, wt, diag=diag))
                D4 = np.array(inv4.data_vector, dtype=float)
                F4 = np.array(inv4.curvature_matrix, dtype=float)
                fam = "wtilde" if isinstance(inv4, aa.InversionImagingWTilde) else "mapping"
                v.ok(D4.shape == D2_ref.shape and np.allclose(D4, D2_ref, rtol=1e-9, atol=1e-9 * max(1.0, np.abs(D2_ref).max())),
                     "%s:data_vector:shared-tables-new-data" % fam, lambda: "second dataset sharing w_tilde/convolver: maxdiff=%s" % dom.maxdiff(D4, D2_ref))
                v.ok(F4.shape == F_ref.shape and np.allclose(F4, F_ref, rtol=1e-9, atol=1e-9 * scaleF), "%s:curvature_matrix:shared-tables-new-data" % fam,
                     lambda: "maxdiff=%s" % dom.maxdiff(F4, F_ref))
            except Exception as e:
                v.fail("dataset-interface:exception%s" % tagsfx, "wt=%s %r" % (wt, e))
    # formalism agreement on the solution
    base = results.get("mapping/factory")
    for name, r in results.items():
        if name == "mapping/factory" or r is None or base is None:
            continue
        s0, m0 = base
        s1, m1 = r
        H = None
        # compare through the mapped data (well conditioned) and the solution with a condition-aware tolerance
        v.ok(np.allclose(m1, m0, rtol=1e-6, atol=1e-7 * max(1.0, np.abs(m0).max())), "formalisms-disagree:mapped_reconstructed_data%s" % tagsfx,
             lambda: "%s vs mapping/factory maxdiff=%s" % (name, dom.maxdiff(m1, m0)))
        v.ok(np.allclose(s1, s0, rtol=1e-5, atol=1e-6 * max(1.0, np.abs(s0).max())), "formalisms-disagree:reconstruction%s" % tagsfx,
             lambda: "%s vs mapping/factory maxdiff=%s" % (name, dom.maxdiff(s1, s0)))
    return v.result()
