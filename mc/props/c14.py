"""C14 - resize / pad / trim keep data centred and attached to its coordinates.

Families of cases (all enumerated completely, simplest first):

* ``ext``  : aa.util.array_2d.extracted_array_2d_from on every window (also partly / wholly outside the frame)
* ``util`` : aa.util.array_2d.resized_array_2d_from for every (input shape, target shape) pair, 3 pad values
* ``arr``  : Array2D.resized_from / Mask2D.resized_from for every (input shape, target shape, mask) with both mask
             pad values, incl. enlarge-then-shrink and coordinate attachment when parity is preserved
* ``conv`` : Array2D.padded_before_convolution_from / trimmed_after_convolution_from / Mask2D.trimmed_array_from
             for every (shape, odd kernel shape, mask); pad-then-trim identity; (coordinate, data, noise) triples
* ``img``  : Imaging.apply_mask automatic padding for every mask of small frames and several odd PSF shapes, plus
             Imaging.trimmed_after_convolution_from back to the original frame
* ``zoom`` : Array2D.zoomed_around_mask for every mask and buffers 0..2

The reference model is the definition written with explicit loops (``window``): ``out[i, j] = in[i + ty, j + tx]``
when that index is inside the input, the pad value otherwise.  For a centred crop (N >= n) ``t`` is floor or ceil of
(N-n)/2, for a centred embedding (n > N) ``-t`` is floor or ceil of (n-N)/2; both are the same number when parity
is preserved.  "Coordinates unchanged" is checked as the statement says it - the library's own
``Grid2D.from_mask`` of the input mask versus ``Grid2D.from_mask`` of the result mask (or ``.grids.uniform``).
"""
import functools
import itertools

import numpy as np

from mc import dom
from mc.core import V

ID = "C14"
ENGINE = "scope"
CHUNK = 128
RULE = (
    "cases = union of six completely enumerated families: every extraction window of every small frame; every "
    "(input shape, target shape) pair for the util resize; every (input shape, target shape, mask) for "
    "Array2D/Mask2D.resized_from; every (shape, odd kernel, mask) for PSF padding / trimming; every mask of small "
    "frames x odd PSF shapes for Imaging.apply_mask auto-padding; every mask with <= bound cells for "
    "zoomed_around_mask (buffers 0,1,2 inside the case). Each structure case is run for the listed (pixel scales, "
    "origin) geometries. non-trivial = the operation changes the frame (target shape != input shape and input has "
    "> 1 pixel; kernel != 1x1; auto-padding actually triggered; extraction window leaves the frame; zoom mask has "
    "a masked pixel)"
)
ASSUMPTIONS = [
    "window copies are value-oblivious: one injective, non-zero, signed labelling of the data (and an independent "
    "positive injective labelling of the noise map) exposes every mis-aligned, transposed or shifted window; "
    "labels never equal any pad value (0, 1, -3.5)",
    "coordinates are an affine function of (index, pixel scale, origin): anisotropic scales together with non-zero, "
    "unequal origins (plus one isotropic / zero-origin geometry) expose a dropped or mis-applied origin / scale",
    "'coordinates unchanged' is judged against the library's own Grid2D.from_mask of the input mask (C02 owns the "
    "absolute pixel->scaled law), with tolerance 1e-12 * max(scale, |origin|, extent)",
    "for shapes larger than 3x3 a fixed 16-mask structural menu replaces the full mask power set (resize code is "
    "mask-oblivious apart from the window copy itself)",
]
BOUNDS = {
    "quick": "ext: frames 1..4 x 1..4, window corners -2..side+2 (10 000 windows); util: inputs 1..5 x 1..5 -> targets "
    "1..7 x 1..7, pad values {0,1,-3.5}; arr: same shape pairs, ALL masks for inputs <= 3x3, 16-mask menu otherwise, "
    "mask pad values {0,1}, 3 geometries; conv: inputs 1..5 x 1..5, kernels {1,3,5,7}^2, same masks, 3 geometries; "
    "img: all masks of 3x3 (kernels 3x3,1x3,3x1,5x3,3x5,5x5), 3x4 and 4x3 (3x3,3x5,5x3), 4x4 (3x3); "
    "zoom: all masks with <= 12 cells, buffers {0,1,2}",
    "thorough": "ext: frames 1..5 x 1..5; util/arr: inputs 1..6 x 1..6 -> targets 1..8 x 1..8, 9 geometries; conv: inputs "
    "1..6 x 1..6, kernels {1,3,5,7}^2; img: additionally all masks of 4x4 for 3x5, 5x3, 5x5 and of 3x5, 5x3 frames "
    "for 3x3, 3x5; zoom: all masks with <= 16 cells, buffers {0,1,2,3}",
}

PAD_VALUES = (0.0, 1.0, -3.5)
# The statement's zoom sentence only demands "a window containing every unmasked pixel with its value"; the title
# ("attached to its coordinates") suggests the zoomed array should also place those pixels at their scaled
# coordinates.  That holds on the pinned tree for every mask; it is reported under its own class so it can be
# adjudicated / switched off separately.
CHECK_ZOOM_COORDINATES = True
KERNEL_SIDES = (1, 3, 5, 7)


# --------------------------------------------------------------------------------------------- value menus


@functools.lru_cache(maxsize=None)
def geometries(seed, full=False):
    """(pixel_scales, origin) menu; instantiated from the seed, structure fixed:
    anisotropic + off-origin, isotropic + zero origin, anisotropic the other way + another origin."""
    r = dom.rng(seed, "c14-geom")

    def q(lo, hi):
        return float(np.round(r.uniform(lo, hi), 3))

    sA = (q(0.3, 0.9), q(1.5, 2.5))
    sI = (q(0.8, 1.2),) * 2
    sB = (q(1.5, 3.0), q(0.2, 0.7))
    oP = (q(0.2, 0.9), -q(1.0, 2.0))
    oZ = (0.0, 0.0)
    oQ = (-q(2.0, 4.0), q(0.1, 0.6))
    if full:
        return [(s, o) for s in (sA, sI, sB) for o in (oP, oZ, oQ)]
    return [(sA, oP), (sI, oZ), (sB, oQ)]


def data_labels(h, w, seed):
    """injective, non-zero, signed, never 0 / 1 / -3.5"""
    r = dom.rng(seed, "c14-data")
    frac = 0.125 * (1 + r.randint(0, 3))  # 0.125, 0.25 or 0.375
    k = np.arange(h * w, dtype=float)
    sign = np.where((np.arange(h * w) * 5 + int(r.randint(0, 3))) % 3 == 0, -1.0, 1.0)
    return (sign * (1.0 + k + frac)).reshape(h, w)


def noise_labels(h, w, seed):
    """injective, strictly positive, different from the data labelling"""
    r = dom.rng(seed, "c14-noise")
    base = 0.5 + 0.0625 * r.randint(0, 4)
    k = np.arange(h * w, dtype=float)
    return (base + 0.75 * ((k * 7) % (h * w)) + 0.001 * k).reshape(h, w)


def mask_menu(h, w):
    """Fixed structural menu of <= 16 masks (bits as in dom.mask_from_bits: bit set <=> masked)."""
    n = h * w
    ms = []

    def add(m):
        m = np.asarray(m, dtype=bool)
        if m.all():
            return
        bits = 0
        for k, b in enumerate(m.ravel()):
            if b:
                bits |= 1 << k
        if bits not in ms:
            ms.append(bits)

    ii, jj = np.indices((h, w))
    add(np.zeros((h, w), bool))
    for ci, cj in ((0, 0), (0, w - 1), (h - 1, 0), (h - 1, w - 1)):
        m = np.zeros((h, w), bool)
        m[ci, cj] = True
        add(m)
    m = np.ones((h, w), bool)
    m[h // 2, w // 2] = False
    add(m)
    m = np.ones((h, w), bool)
    m[0, 0] = False
    add(m)
    m = np.ones((h, w), bool)
    m[h - 1, w - 1] = False
    add(m)
    ring = (ii == 0) | (jj == 0) | (ii == h - 1) | (jj == w - 1)
    add(ring)
    add(~ring)
    add((ii + jj) % 2 == 0)
    add((ii + jj) % 2 == 1)
    add(jj < w // 2)
    add(ii < h // 2)
    add(ii == jj)
    add(ii > jj)
    fixed = np.random.RandomState(1000 * h + w)  # NOT the run seed: the structural menu never depends on it
    while len(ms) < 16 and n >= 5:
        add(fixed.rand(h, w) < 0.5)
    return ms[:16]


def masks_for(h, w):
    if h <= 3 and w <= 3:
        return list(range(2 ** (h * w) - 1))
    return mask_menu(h, w)


# --------------------------------------------------------------------------------------------- cases


def cases(tier, seed):
    quick = tier == "quick"
    seed = int(seed)
    # ---- ext
    fmax = 4 if quick else 5
    for H in range(1, fmax + 1):
        for W in range(1, fmax + 1):
            for y0 in range(-2, H + 2):
                for y1 in range(y0 + 1, H + 3):
                    for x0 in range(-2, W + 2):
                        for x1 in range(x0 + 1, W + 3):
                            yield ["ext", H, W, y0, y1, x0, x1, seed]
    # ---- util
    imax, tmax = (5, 7) if quick else (6, 8)
    shapes = sorted(itertools.product(range(1, imax + 1), repeat=2), key=lambda s: (s[0] * s[1], s))
    targets = sorted(itertools.product(range(1, tmax + 1), repeat=2), key=lambda s: (s[0] * s[1], s))
    for (H, W) in shapes:
        for (h, w) in targets:
            yield ["util", H, W, h, w, seed]
    # ---- arr
    ng = 3 if quick else 9
    for (H, W) in shapes:
        for bits in masks_for(H, W):
            for (h, w) in targets:
                yield ["arr", H, W, h, w, bits, ng, seed]
    # ---- conv
    kernels = sorted(itertools.product(KERNEL_SIDES, repeat=2), key=lambda s: (s[0] * s[1], s))
    for (H, W) in shapes:
        for bits in masks_for(H, W):
            for (kh, kw) in kernels:
                yield ["conv", H, W, kh, kw, bits, 3, seed]
    # ---- zoom
    zmax = 12 if quick else 16
    nbuf = 3 if quick else 4
    for (H, W, bits) in dom.all_mask_cases(zmax):
        yield ["zoom", H, W, bits, nbuf, seed]
    # ---- img
    plan = [
        ((3, 3), [(3, 3), (1, 3), (3, 1), (5, 3), (3, 5), (5, 5)]),
        ((3, 4), [(3, 3), (3, 5), (5, 3)]),
        ((4, 3), [(3, 3), (3, 5), (5, 3)]),
        ((4, 4), [(3, 3)]),
    ]
    if not quick:
        plan += [
            ((4, 4), [(3, 5), (5, 3), (5, 5)]),
            ((3, 5), [(3, 3), (3, 5)]),
            ((5, 3), [(3, 3), (3, 5)]),
        ]
    for (H, W), ks in plan:
        for (kh, kw) in ks:
            for bits in range(2 ** (H * W) - 1):
                yield ["img", H, W, kh, kw, bits, seed]


# --------------------------------------------------------------------------------------------- reference model


def window(a, ty, tx, h, w, pad):
    """out[i, j] = a[i + ty, j + tx] if that index exists, else pad (definition, explicit loops)."""
    a = np.asarray(a)
    out = np.empty((h, w), dtype=a.dtype)
    H, W = a.shape
    for i in range(h):
        for j in range(w):
            y, x = i + ty, j + tx
            if 0 <= y < H and 0 <= x < W:
                out[i, j] = a[y, x]
            else:
                out[i, j] = pad
    return out


def starts(N, n):
    """Admissible window starts (in input index space) of a centred resize of one axis N -> n."""
    if n <= N:
        d = N - n
        return sorted({d // 2, (d + 1) // 2})
    e = n - N
    return sorted({-(e // 2), -((e + 1) // 2)})


def axis_class(N, n):
    kind = "same" if n == N else ("crop" if n < N else "embed")
    return "%s/%s" % (kind, "keep" if (N - n) % 2 == 0 else "flip")


def _a(x):
    return np.array(x)


def coords_native(aa, mask_obj, m=None):
    """Library coordinates (Grid2D.from_mask) of every unmasked pixel of ``mask_obj`` scattered into an (H, W, 2)
    array, NaN at masked pixels.  The k-th coordinate belongs to the k-th unmasked pixel in row-major order.
    Returns None if the grid does not have one (y, x) pair per unmasked pixel."""
    if m is None:
        m = _a(mask_obj).astype(bool)
    g = _a(aa.Grid2D.from_mask(mask=mask_obj).slim)
    n = int((~m).sum())
    if g.shape != (n, 2):
        return None
    out = np.full(m.shape + (2,), np.nan)
    out[~m] = g
    return out


def coord_tol(scales, origin, shape):
    ext = max(shape) * max(scales)
    return 1e-12 * max(1.0, max(scales), abs(origin[0]), abs(origin[1]), ext)


def surviving_coords_ok(aa, before, in_m, res_mask_obj, ty, tx, tol):
    """Every pixel that is unmasked in the result and comes from the input keeps its scaled coordinate.
    ``before`` = coords_native of the input mask.  Returns (ok, n_compared, worst)."""
    res_m = _a(res_mask_obj).astype(bool)
    if (~res_m).sum() == 0:
        return True, 0, 0.0
    after = coords_native(aa, res_mask_obj, res_m)
    if before is None or after is None:
        return False, 0, "grid does not have one coordinate pair per unmasked pixel"
    H, W = in_m.shape
    worst = 0.0
    n = 0
    for (i, j) in np.argwhere(~res_m):
        y, x = i + ty, j + tx
        if 0 <= y < H and 0 <= x < W and not in_m[y, x]:
            n += 1
            d = float(np.max(np.abs(after[i, j] - before[y, x])))
            if not d <= worst:  # also propagates NaN
                worst = d if d == d else float("inf")
    return worst <= tol, n, worst


def match_window(in_m, in_nat, res_m, res_nat, h, w, mask_pad):
    """Which admissible (ty, tx) reproduce the mask / the values / both."""
    H, W = in_m.shape
    mask_hits, val_hits, both = [], [], []
    for ty in starts(H, h):
        for tx in starts(W, w):
            em = window(in_m, ty, tx, h, w, bool(mask_pad))
            ev = window(in_nat, ty, tx, h, w, 0.0)
            mh = res_m.shape == em.shape and bool(np.array_equal(res_m, em))
            vh = res_nat is not None and res_nat.shape == ev.shape and bool(np.array_equal(res_nat, ev))
            if mh:
                mask_hits.append((ty, tx))
            if vh:
                val_hits.append((ty, tx))
            if mh and vh:
                both.append((ty, tx))
    return mask_hits, val_hits, both


# --------------------------------------------------------------------------------------------- run_case


def run_case(case):
    import autoarray as aa

    v = V(ID)
    fam = case[0]
    if fam == "ext":
        run_ext(aa, v, *case[1:])
    elif fam == "util":
        run_util(aa, v, *case[1:])
    elif fam == "arr":
        run_arr(aa, v, *case[1:])
    elif fam == "conv":
        run_conv(aa, v, *case[1:])
    elif fam == "zoom":
        run_zoom(aa, v, *case[1:])
    elif fam == "img":
        run_img(aa, v, *case[1:])
    else:
        raise ValueError("unknown family %r" % (fam,))
    return v.result()


# ---- ext ---------------------------------------------------------------------------------------------------


def run_ext(aa, v, H, W, y0, y1, x0, x1, seed):
    vals = data_labels(H, W, seed)
    got = aa.util.array_2d.extracted_array_2d_from(array_2d=vals.copy(), y0=y0, y1=y1, x0=x0, x1=x1)
    want = window(vals, y0, x0, y1 - y0, x1 - x0, 0.0)
    v.ok(dom.exact(got, want), "extracted_array_2d_from:window",
         lambda: "frame %dx%d [%d:%d,%d:%d] got %s want %s" % (H, W, y0, y1, x0, x1, _a(got).tolist(), want.tolist()))
    inside = y0 >= 0 and x0 >= 0 and y1 <= H and x1 <= W
    outside = y1 <= 0 or x1 <= 0 or y0 >= H or x0 >= W
    v.nontrivial = not inside
    v.outcome = "ext:" + ("inside" if inside else "outside" if outside else "partial")


# ---- util --------------------------------------------------------------------------------------------------


def run_util(aa, v, H, W, h, w, seed):
    vals = data_labels(H, W, seed)
    for pad in PAD_VALUES:
        got = _a(aa.util.array_2d.resized_array_2d_from(array_2d=vals.copy(), resized_shape=(h, w), pad_value=pad))
        cands = [(ty, tx) for ty in starts(H, h) for tx in starts(W, w)]
        hit = [c for c in cands if dom.exact(got, window(vals, c[0], c[1], h, w, pad))]
        v.ok(bool(hit), "resized_array_2d_from:window",
             lambda: "%dx%d -> %dx%d pad %s: got %s, admissible window starts %s, e.g. want %s"
             % (H, W, h, w, pad, got.tolist(), cands, window(vals, cands[0][0], cands[0][1], h, w, pad).tolist()))
        if h >= H and w >= W:
            back = _a(aa.util.array_2d.resized_array_2d_from(array_2d=got, resized_shape=(H, W), pad_value=pad))
            v.ok(dom.exact(back, vals), "resized_array_2d_from:enlarge-then-shrink",
                 lambda: "%dx%d -> %dx%d -> back: got %s want %s" % (H, W, h, w, back.tolist(), vals.tolist()))
    v.nontrivial = (h, w) != (H, W) and H * W > 1
    v.outcome = "util:y=%s,x=%s" % (axis_class(H, h), axis_class(W, w))


# ---- arr ---------------------------------------------------------------------------------------------------


def run_arr(aa, v, H, W, h, w, bits, ngeom, seed):
    m = dom.mask_from_bits(H, W, bits)
    vals = data_labels(H, W, seed)
    nat0 = np.where(m, 0.0, vals)
    parity_kept = (H - h) % 2 == 0 and (W - w) % 2 == 0
    enlarge = h >= H and w >= W
    for gi, (scales, origin) in enumerate(geometries(seed, full=(ngeom == 9))):
        tol = coord_tol(scales, origin, (max(H, h), max(W, w)))
        mask = aa.Mask2D(mask=m.copy(), pixel_scales=scales, origin=origin)
        arr = aa.Array2D(values=vals.copy(), mask=mask, store_native=(gi % 3 == 1))
        before = coords_native(aa, mask, m)
        for pad in (0, 1):
            # ------------------------------------------------ Mask2D.resized_from
            rm = mask.resized_from(new_shape=(h, w), pad_value=pad)
            rm_a = _a(rm)
            v.ok(rm_a.dtype == bool and rm_a.shape == (h, w), "Mask2D.resized_from:shape",
                 lambda: "%dx%d -> %dx%d got shape %s dtype %s" % (H, W, h, w, rm_a.shape, rm_a.dtype))
            mh, _, _ = match_window(m, nat0, rm_a.astype(bool), None, h, w, pad)
            v.ok(bool(mh), "Mask2D.resized_from:window",
                 lambda: "%dx%d -> %dx%d pad %s mask %s: got %s; admissible starts y%s x%s"
                 % (H, W, h, w, pad, m.astype(int).tolist(), rm_a.astype(int).tolist(), starts(H, h), starts(W, w)))
            if parity_kept and mh:
                ty, tx = starts(H, h)[0], starts(W, w)[0]
                ok, n, worst = surviving_coords_ok(aa, before, m, rm, ty, tx, tol)
                v.ok(ok, "Mask2D.resized_from:coordinates",
                     lambda: "%dx%d -> %dx%d pad %s scales %s origin %s: %s surviving unmasked pixels, worst |dcoord| %s; "
                     "result scales %s origin %s" % (H, W, h, w, pad, scales, origin, n, worst, rm.pixel_scales, rm.origin))
            if enlarge:
                bm = rm.resized_from(new_shape=(H, W), pad_value=pad)
                v.ok(dom.exact(_a(bm).astype(bool), m), "Mask2D.resized_from:enlarge-then-shrink",
                     lambda: "%dx%d -> %dx%d -> back pad %s: got %s want %s"
                     % (H, W, h, w, pad, _a(bm).astype(int).tolist(), m.astype(int).tolist()))
                ok, n, worst = surviving_coords_ok(aa, before, m, bm, 0, 0, tol)
                v.ok(ok, "Mask2D.resized_from:enlarge-then-shrink:coordinates",
                     lambda: "%dx%d -> %dx%d -> back: worst |dcoord| %s" % (H, W, h, w, worst))

            # ------------------------------------------------ Array2D.resized_from
            ra = arr.resized_from(new_shape=(h, w), mask_pad_value=pad)
            r_nat = _a(ra.native)
            r_m = _a(ra.mask).astype(bool)
            v.ok(tuple(ra.shape_native) == (h, w) and r_nat.shape == (h, w), "Array2D.resized_from:shape",
                 lambda: "%dx%d -> %dx%d got %s" % (H, W, h, w, r_nat.shape))
            mh, vh, both = match_window(m, nat0, r_m, r_nat, h, w, pad)
            v.ok(bool(mh), "Array2D.resized_from:mask-window",
                 lambda: "%dx%d -> %dx%d mask_pad %s mask %s: got mask %s" % (H, W, h, w, pad, m.astype(int).tolist(), r_m.astype(int).tolist()))
            v.ok(bool(vh), "Array2D.resized_from:window",
                 lambda: "%dx%d -> %dx%d mask_pad %s: input native %s got native %s; admissible starts y%s x%s"
                 % (H, W, h, w, pad, nat0.tolist(), r_nat.tolist(), starts(H, h), starts(W, w)))
            if mh and vh:
                v.ok(bool(both), "Array2D.resized_from:mask-data-misaligned",
                     lambda: "%dx%d -> %dx%d: mask matches starts %s but values match starts %s" % (H, W, h, w, mh, vh))
            # slim view = values of the unmasked pixels of the result, in order
            v.ok(dom.exact(_a(ra.slim), r_nat[~r_m]), "Array2D.resized_from:slim-vs-native")
            if parity_kept and both:
                ty, tx = both[0]
                ok, n, worst = surviving_coords_ok(aa, before, m, ra.mask, ty, tx, tol)
                v.ok(ok, "Array2D.resized_from:coordinates",
                     lambda: "%dx%d -> %dx%d mask_pad %s scales %s origin %s: %s surviving unmasked pixels, worst |dcoord| %s; "
                     "result scales %s origin %s" % (H, W, h, w, pad, scales, origin, n, worst, ra.mask.pixel_scales, ra.mask.origin))
            if enlarge:
                ba = ra.resized_from(new_shape=(H, W), mask_pad_value=pad)
                okb = dom.exact(_a(ba.native), nat0) and dom.exact(_a(ba.mask).astype(bool), m)
                v.ok(okb, "Array2D.resized_from:enlarge-then-shrink",
                     lambda: "%dx%d -> %dx%d -> back mask_pad %s: got native %s mask %s want %s / %s"
                     % (H, W, h, w, pad, _a(ba.native).tolist(), _a(ba.mask).astype(int).tolist(), nat0.tolist(), m.astype(int).tolist()))
                if okb:
                    ok, n, worst = surviving_coords_ok(aa, before, m, ba.mask, 0, 0, tol)
                    v.ok(ok, "Array2D.resized_from:enlarge-then-shrink:coordinates",
                         lambda: "%dx%d -> %dx%d -> back: worst |dcoord| %s" % (H, W, h, w, worst))
    v.nontrivial = (h, w) != (H, W) and H * W > 1
    v.outcome = "arr:y=%s,x=%s" % (axis_class(H, h), axis_class(W, w))


# ---- conv --------------------------------------------------------------------------------------------------


def triples(aa, mask_obj, data_arr, noise_arr):
    g = _a(aa.Grid2D.from_mask(mask=mask_obj).slim)
    return g, _a(data_arr.slim), _a(noise_arr.slim)


def run_conv(aa, v, H, W, kh, kw, bits, ngeom, seed):
    m = dom.mask_from_bits(H, W, bits)
    vals = data_labels(H, W, seed)
    nvals = noise_labels(H, W, seed)
    nat0 = np.where(m, 0.0, vals)
    nnat0 = np.where(m, 0.0, nvals)
    cy, cx = (kh - 1) // 2, (kw - 1) // 2
    ph, pw = H + kh - 1, W + kw - 1
    k = (kh, kw)
    for (scales, origin) in geometries(seed):
        tol = coord_tol(scales, origin, (ph, pw))
        mask = aa.Mask2D(mask=m.copy(), pixel_scales=scales, origin=origin)
        arr = aa.Array2D(values=vals.copy(), mask=mask)
        noi = aa.Array2D(values=nvals.copy(), mask=mask)
        g0, d0, n0 = triples(aa, mask, arr, noi)
        before = coords_native(aa, mask, m)
        full = aa.Mask2D.all_false(shape_native=(H, W), pixel_scales=scales, origin=origin)
        before_full = coords_native(aa, full)
        for pad in (0, 1):
            pa = arr.padded_before_convolution_from(kernel_shape=k, mask_pad_value=pad)
            pn = noi.padded_before_convolution_from(kernel_shape=k, mask_pad_value=pad)
            p_nat, p_m = _a(pa.native), _a(pa.mask).astype(bool)
            v.ok(p_nat.shape == (ph, pw) and p_m.shape == (ph, pw), "padded_before_convolution_from:shape",
                 lambda: "%dx%d kernel %s -> %s, want %s" % (H, W, k, p_nat.shape, (ph, pw)))
            em = window(m, -cy, -cx, ph, pw, bool(pad))
            ev = window(nat0, -cy, -cx, ph, pw, 0.0)
            en = window(nnat0, -cy, -cx, ph, pw, 0.0)
            okw = dom.exact(p_m, em) and dom.exact(p_nat, ev) and dom.exact(_a(pn.native), en) and dom.exact(_a(pn.mask).astype(bool), em)
            v.ok(okw, "padded_before_convolution_from:window",
                 lambda: "%dx%d kernel %s mask_pad %s: got native %s mask %s want %s / %s"
                 % (H, W, k, pad, p_nat.tolist(), p_m.astype(int).tolist(), ev.tolist(), em.astype(int).tolist()))
            if okw:
                ok, n, worst = surviving_coords_ok(aa, before, m, pa.mask, -cy, -cx, tol)
                v.ok(ok and n == int((~m).sum()), "padded_before_convolution_from:coordinates",
                     lambda: "%dx%d kernel %s mask_pad %s scales %s origin %s: %s pixels compared, worst |dcoord| %s; result scales %s origin %s"
                     % (H, W, k, pad, scales, origin, n, worst, pa.mask.pixel_scales, pa.mask.origin))
            if pad == 1:
                g1, d1, n1 = triples(aa, pa.mask, pa, pn)
                okt = g1.shape == g0.shape and (g0.size == 0 or float(np.max(np.abs(g1 - g0))) <= tol)
                v.ok(okt, "padded_before_convolution_from:triples:coordinate",
                     lambda: "%dx%d kernel %s scales %s origin %s: before %s after %s" % (H, W, k, scales, origin, g0.tolist()[:4], g1.tolist()[:4]))
                v.ok(dom.exact(d1, d0), "padded_before_convolution_from:triples:data", lambda: "before %s after %s" % (d0.tolist(), d1.tolist()))
                v.ok(dom.exact(n1, n0), "padded_before_convolution_from:triples:noise", lambda: "before %s after %s" % (n0.tolist(), n1.tolist()))
            # ---- pad then trim = identity
            ta = pa.trimmed_after_convolution_from(kernel_shape=k)
            okb = dom.exact(_a(ta.native), nat0) and dom.exact(_a(ta.mask).astype(bool), m)
            v.ok(okb, "pad-then-trim",
                 lambda: "%dx%d kernel %s mask_pad %s: got native %s mask %s want %s / %s"
                 % (H, W, k, pad, _a(ta.native).tolist(), _a(ta.mask).astype(int).tolist(), nat0.tolist(), m.astype(int).tolist()))
            if okb:
                ok, n, worst = surviving_coords_ok(aa, before, m, ta.mask, 0, 0, tol)
                v.ok(ok, "pad-then-trim:coordinates",
                     lambda: "%dx%d kernel %s scales %s origin %s: worst |dcoord| %s; result scales %s origin %s"
                     % (H, W, k, scales, origin, worst, ta.mask.pixel_scales, ta.mask.origin))
            # ---- Mask2D.trimmed_array_from : padded frame -> image frame, no mask on the result
            tr = pa.mask.trimmed_array_from(padded_array=pa, image_shape=(H, W))
            okt = dom.exact(_a(tr.native), nat0)
            v.ok(okt, "Mask2D.trimmed_array_from:window",
                 lambda: "%dx%d kernel %s: got %s want %s" % (H, W, k, _a(tr.native).tolist(), nat0.tolist()))
            if okt:
                ok, n, worst = surviving_coords_ok(aa, before_full, np.zeros((H, W), bool), tr.mask, 0, 0, tol)
                v.ok(ok and n == H * W, "Mask2D.trimmed_array_from:coordinates",
                     lambda: "%dx%d kernel %s scales %s origin %s: worst |dcoord| %s; result scales %s origin %s"
                     % (H, W, k, scales, origin, worst, tr.mask.pixel_scales, tr.mask.origin))
        # ---- trim alone (array at least as large as the kernel): exact centred crop
        if H >= kh and W >= kw:
            th, tw = H - kh + 1, W - kw + 1
            ta = arr.trimmed_after_convolution_from(kernel_shape=k)
            em = window(m, cy, cx, th, tw, False)
            ev = window(nat0, cy, cx, th, tw, 0.0)
            okw = dom.exact(_a(ta.native), ev) and dom.exact(_a(ta.mask).astype(bool), em)
            v.ok(okw, "trimmed_after_convolution_from:window",
                 lambda: "%dx%d kernel %s: got native %s mask %s want %s / %s"
                 % (H, W, k, _a(ta.native).tolist(), _a(ta.mask).astype(int).tolist(), ev.tolist(), em.astype(int).tolist()))
            if okw:
                ok, n, worst = surviving_coords_ok(aa, before, m, ta.mask, cy, cx, tol)
                v.ok(ok, "trimmed_after_convolution_from:coordinates",
                     lambda: "%dx%d kernel %s scales %s origin %s: %s pixels, worst |dcoord| %s; result scales %s origin %s"
                     % (H, W, k, scales, origin, n, worst, ta.mask.pixel_scales, ta.mask.origin))
    v.nontrivial = k != (1, 1)
    v.outcome = "conv:k=%dx%d:%s" % (kh, kw, "trim" if (H >= kh and W >= kw) else "pad-only")


# ---- zoom --------------------------------------------------------------------------------------------------


def run_zoom(aa, v, H, W, bits, nbuf, seed):
    m = dom.mask_from_bits(H, W, bits)
    vals = data_labels(H, W, seed)
    geoms = geometries(seed)
    scales, origin = geoms[bits % len(geoms)]
    mask = aa.Mask2D(mask=m.copy(), pixel_scales=scales, origin=origin)
    arr = aa.Array2D(values=vals.copy(), mask=mask)
    before = coords_native(aa, mask, m)
    tol = coord_tol(scales, origin, (H + 2 * nbuf + 2, W + 2 * nbuf + 2))
    un = np.argwhere(~m)
    i0, j0 = un[0]
    y_lo, x_lo = un.min(axis=0)
    y_hi, x_hi = un.max(axis=0)
    cls = None
    for buffer in range(nbuf):
        z = arr.zoomed_around_mask(buffer=buffer)
        zn = _a(z.native)
        where = np.argwhere(zn == vals[i0, j0])
        if not v.ok(len(where) == 1, "zoomed_around_mask:contains-unmasked",
                    lambda: "%dx%d mask %s buffer %d: value %s of unmasked pixel (%d,%d) occurs %d times in window %s"
                    % (H, W, m.astype(int).tolist(), buffer, vals[i0, j0], i0, j0, len(where), zn.tolist())):
            continue
        ty, tx = int(i0 - where[0][0]), int(j0 - where[0][1])  # window start in input index space
        good = True
        for (i, j) in un:
            a, b = i - ty, j - tx
            if not (0 <= a < zn.shape[0] and 0 <= b < zn.shape[1] and zn[a, b] == vals[i, j]):
                good = False
                break
        v.ok(good, "zoomed_around_mask:contains-unmasked",
             lambda: "%dx%d mask %s buffer %d: window start (%d,%d) shape %s = %s does not hold every unmasked pixel with its value (native %s)"
             % (H, W, m.astype(int).tolist(), buffer, ty, tx, zn.shape, zn.tolist(), np.where(m, 0.0, vals).tolist()))
        if good:
            # the requested buffer surrounds the unmasked bounding box (unless an implementation clips at the frame)
            top, left = y_lo - ty, x_lo - tx
            bot, right = (ty + zn.shape[0] - 1) - y_hi, (tx + zn.shape[1] - 1) - x_hi
            okm = (
                (top >= buffer or ty <= 0)
                and (left >= buffer or tx <= 0)
                and (bot >= buffer or ty + zn.shape[0] >= H)
                and (right >= buffer or tx + zn.shape[1] >= W)
            )
            v.ok(okm, "zoomed_around_mask:buffer-margin",
                 lambda: "%dx%d mask %s buffer %d: margins top %d left %d bottom %d right %d" % (H, W, m.astype(int).tolist(), buffer, top, left, bot, right))
            if CHECK_ZOOM_COORDINATES:
                ok, n, worst = surviving_coords_ok(aa, before, m, z.mask, ty, tx, tol)
                v.ok(ok, "zoomed_around_mask:coordinates",
                     lambda: "%dx%d mask %s buffer %d scales %s origin %s: worst |dcoord| %s over %s unmasked pixels; window start (%d,%d) shape %s, result origin %s"
                     % (H, W, m.astype(int).tolist(), buffer, scales, origin, worst, n, ty, tx, zn.shape, z.mask.origin))
            if buffer == 0:
                outside = ty < 0 or tx < 0 or ty + zn.shape[0] > H or tx + zn.shape[1] > W
                cls = "%s:%s" % ("square-bbox" if (y_hi - y_lo) == (x_hi - x_lo) else "rect-bbox", "leaves-frame" if outside else "inside")
    # history: zoom quantities were read on `mask`; a mask derived from it (inverse; a copy edited in place) zooms around ITS OWN pixels
    if m.any():
        for dname, dmask, dm_bool in (("invert", mask.invert(), ~m),):
            darr = aa.Array2D(values=vals.copy(), mask=dmask)
            zz = _a(darr.zoomed_around_mask(buffer=0).native)
            ok = all(np.any(zz == vals[i, j]) for (i, j) in np.argwhere(~dm_bool))
            v.ok(ok, "zoomed_around_mask:contains-unmasked:derived-mask",
                 lambda: "%dx%d mask.%s() of a mask whose zoom was read: window %s misses unmasked values" % (H, W, dname, zz.tolist()))
        ed = mask.copy()
        ed[int(~m[0, 0]) * 0, 0] = False  # unmask the top-left pixel on a copy
        me = m.copy()
        me[0, 0] = False
        zz = _a(aa.Array2D(values=vals.copy(), mask=ed).zoomed_around_mask(buffer=0).native)
        v.ok(all(np.any(zz == vals[i, j]) for (i, j) in np.argwhere(~me)), "zoomed_around_mask:contains-unmasked:edited-copy",
             lambda: "%dx%d copy of a mask (zoom read before) with pixel (0,0) unmasked in place: window %s misses unmasked values" % (H, W, zz.tolist()))
    v.nontrivial = bool(m.any())
    v.outcome = "zoom:%s" % cls


# ---- img ---------------------------------------------------------------------------------------------------


def run_img(aa, v, H, W, kh, kw, bits, seed):
    m = dom.mask_from_bits(H, W, bits)
    vals = data_labels(H, W, seed)
    nvals = noise_labels(H, W, seed)
    nat0 = np.where(m, 0.0, vals)
    nnat0 = np.where(m, 0.0, nvals)
    geoms = geometries(seed)
    scales, origin = geoms[(bits + kh + 2 * kw) % len(geoms)]
    hy, hx = kh // 2, kw // 2
    ph, pw = H + kh - 1, W + kw - 1
    tol = coord_tol(scales, origin, (ph, pw))
    # independent predicate: does the footprint of the kernel around some unmasked pixel leave the frame?
    needs_pad = False
    for (i, j) in np.argwhere(~m):
        if i - hy < 0 or i + hy > H - 1 or j - hx < 0 or j + hx > W - 1:
            needs_pad = True
            break

    data = aa.Array2D.no_mask(values=vals.copy(), pixel_scales=scales, origin=origin)
    noise = aa.Array2D.no_mask(values=nvals.copy(), pixel_scales=scales, origin=origin)
    kvals = 1.0 + np.arange(kh * kw, dtype=float).reshape(kh, kw)
    psf = aa.Kernel2D.no_mask(values=kvals, pixel_scales=scales)
    ds = aa.Imaging(data=data, noise_map=noise, psf=psf)
    mask = aa.Mask2D(mask=m.copy(), pixel_scales=scales, origin=origin)
    g0 = _a(aa.Grid2D.from_mask(mask=mask).slim)
    before = coords_native(aa, mask, m)
    d0, n0 = vals[~m], nvals[~m]

    dm = ds.apply_mask(mask=mask)
    r_m = _a(dm.mask).astype(bool)
    padded = r_m.shape == (ph, pw) and (ph, pw) != (H, W)
    tag = "auto-pad" if padded else "no-pad"
    v.ok(r_m.shape in ((H, W), (ph, pw)) and (padded or not needs_pad), "Imaging.apply_mask:auto-pad:trigger",
         lambda: "%dx%d psf %dx%d mask %s: result frame %s, blurring region %s the input frame"
         % (H, W, kh, kw, m.astype(int).tolist(), r_m.shape, "leaves" if needs_pad else "stays inside"))
    if r_m.shape not in ((H, W), (ph, pw)):
        v.outcome = "img:bad-shape"
        return
    ty, tx = (-hy, -hx) if padded else (0, 0)
    hh, ww = r_m.shape
    em = window(m, ty, tx, hh, ww, True)
    okw = (
        dom.exact(r_m, em)
        and dom.exact(_a(dm.noise_map.mask).astype(bool), em)
        and dom.exact(_a(dm.data.native), window(nat0, ty, tx, hh, ww, 0.0))
        and dom.exact(_a(dm.noise_map.native), window(nnat0, ty, tx, hh, ww, 0.0))
    )
    v.ok(okw, "Imaging.apply_mask:%s:window" % tag,
         lambda: "%dx%d psf %dx%d mask %s: got data %s noise %s mask %s" % (H, W, kh, kw, m.astype(int).tolist(), _a(dm.data.native).tolist(),
                                                                    _a(dm.noise_map.native).tolist(), r_m.astype(int).tolist()))
    # trimming first, before any lazily cached grid of `dm` is read (C11 owns cache carry-over)
    if padded:
        tr = dm.trimmed_after_convolution_from(kernel_shape=(kh, kw))
        okb = (
            dom.exact(_a(tr.data.native), nat0)
            and dom.exact(_a(tr.noise_map.native), nnat0)
            and dom.exact(_a(tr.data.mask).astype(bool), m)
            and dom.exact(_a(tr.noise_map.mask).astype(bool), m)
        )
        v.ok(okb, "Imaging.trimmed_after_convolution_from:pad-then-trim",
             lambda: "%dx%d psf %dx%d: got data %s mask %s want %s / %s"
             % (H, W, kh, kw, _a(tr.data.native).tolist(), _a(tr.data.mask).astype(int).tolist(), nat0.tolist(), m.astype(int).tolist()))
        if okb:
            ok, n, worst = surviving_coords_ok(aa, before, m, tr.data.mask, 0, 0, tol)
            v.ok(ok, "Imaging.trimmed_after_convolution_from:pad-then-trim:coordinates",
                 lambda: "scales %s origin %s worst |dcoord| %s; result scales %s origin %s" % (scales, origin, worst, tr.data.mask.pixel_scales, tr.data.mask.origin))
    # the ordered (coordinate, data, noise) triples of the unmasked pixels
    g1 = _a(dm.grids.uniform.slim)
    g2 = _a(aa.Grid2D.from_mask(mask=dm.mask).slim)
    g3 = _a(aa.Grid2D.from_mask(mask=dm.noise_map.mask).slim)
    d1, n1 = _a(dm.data.slim), _a(dm.noise_map.slim)
    okc = all(g.shape == g0.shape and float(np.max(np.abs(g - g0))) <= tol for g in (g1, g2, g3))
    v.ok(okc, "Imaging.apply_mask:%s:triples:coordinate" % tag,
         lambda: "%dx%d psf %dx%d mask %s scales %s origin %s: before %s, .grids.uniform %s, Grid2D.from_mask(result mask) %s, Grid2D.from_mask(noise-map mask) %s; result scales %s origin %s"
         % (H, W, kh, kw, m.astype(int).tolist(), scales, origin, g0.tolist()[:3], g1.tolist()[:3], g2.tolist()[:3], g3.tolist()[:3], dm.mask.pixel_scales, dm.mask.origin))
    v.ok(dom.exact(d1, d0), "Imaging.apply_mask:%s:triples:data" % tag, lambda: "before %s after %s" % (d0.tolist(), d1.tolist()))
    v.ok(dom.exact(n1, n0), "Imaging.apply_mask:%s:triples:noise" % tag, lambda: "before %s after %s" % (n0.tolist(), n1.tolist()))
    # history: the masked dataset is masked again with a mask that UNMASKS pixels the first one had masked; the result must carry
    # the same (coordinate, data, noise) triples as masking the original dataset with that mask directly
    if m.any() and H * W <= 9:
        m2 = m.copy()
        m2[tuple(np.argwhere(m)[0])] = False
        mask2 = aa.Mask2D(mask=m2.copy(), pixel_scales=scales, origin=origin)
        try:
            again = dm.apply_mask(mask=mask2)
            direct = aa.Imaging(data=aa.Array2D.no_mask(values=vals.copy(), pixel_scales=scales, origin=origin),
                                noise_map=aa.Array2D.no_mask(values=nvals.copy(), pixel_scales=scales, origin=origin), psf=psf).apply_mask(mask=mask2)
            v.ok(dom.exact(_a(again.data.slim), vals[~m2]), "Imaging.apply_mask:second-mask:triples:data",
                 lambda: "first mask %s then %s: data %s want %s" % (m.astype(int).tolist(), m2.astype(int).tolist(), _a(again.data.slim).tolist(), vals[~m2].tolist()))
            v.ok(dom.exact(_a(again.noise_map.slim), nvals[~m2]), "Imaging.apply_mask:second-mask:triples:noise")
            ga, gd = _a(again.grids.uniform), _a(direct.grids.uniform)
            v.ok(ga.shape == gd.shape and np.all(np.abs(ga - gd) <= tol), "Imaging.apply_mask:second-mask:triples:coordinate")
        except Exception as e:
            v.fail("Imaging.apply_mask:second-mask:exception", "first mask %s then %s: %r" % (m.astype(int).tolist(), m2.astype(int).tolist(), e))
    v.nontrivial = padded
    v.outcome = "img:%s:k=%dx%d" % (tag, kh, kw)
