"""C08 - fit statistics and evidence follow their definitions on unmasked pixels only."""
import itertools

import numpy as np

from mc import dom, fix_inv
from mc.core import V

ID = "C08"
ENGINE = "scope"
CHUNK = 8
RULE = (
    "plain cases = every boolean mask (>=1 unmasked pixel) of every shape HxW with H*W <= bound; per mask: value menus "
    "(mixed signs with exact zeros and data==model pixels / all-negative data) x background-sky {0, 0.3, -0.3} x "
    "{slim mode on slim arrays, mask-in-fit mode on native-stored arrays with each of 4 garbage assignments in masked "
    "pixels}; inversion cases = (interior mask of the 5x5 frame / 3x3 PSF, PSF kind, sub-size, ordered list of linear "
    "objects with regularization flags, solver) each run in both formalisms x both fit modes x sky {0, 0.3, -0.3}; "
    "second-fit histories (inside one case, on the SAME dataset object): after a fit has been evaluated completely, (0) its "
    "dataset_model is reassigned to another background sky level of {0, 0.3, -0.3} (rotating) and every observable of that "
    "same fit object is read again and must follow the new level, then the original model is put back, (a) its "
    "four maps are held, (b) a fit class supplying its own (scaled) noise map and another model is evaluated completely, (c) "
    "a fit on another mask of the same shape is evaluated, the held maps must still hold fit 1's values and share no memory "
    "with the later fits' maps, (d) one noise value of the dataset is edited in place through the structure's __setitem__ "
    "and a new fit on the same dataset must follow the edited noise map; plain cases run steps a-c in one mode and step d in "
    "the other for the first menu and swapped for the second, at one (rotating) sky level, inversion cases once per formalism (slim for mapping, mask-in-fit for "
    "w-tilde; steps b+c or d rotating); tiny-coefficient lists = a mapper with Constant(coefficient 3e-5 / 5e-5) alone and "
    "next to normally regularized / unregularized objects on every 8th mask (quick) / every mask (thorough); "
    "structures under their own mask (mask-in-fit mode) = the noise map - and, alternating, the model image - is a native-"
    "stored structure carrying a mask DIFFERENT from the fit's (= the data's): none at all, a smaller one, a larger one, a "
    "shifted one (the whole family for every plain mask and both menus at one rotating sky level; one rotating member per "
    "inversion case in one formalism), holding the true value wherever the fit or its own mask leaves the pixel unmasked "
    "and garbage elsewhere: every statistic must be the one over the FIT's unmasked pixels; "
    "datasets in other units = the inversion datasets with data and noise map multiplied by a factor from 1e-40 to 1e+40, "
    "every regularization coefficient divided by it (Zeroth and ConstantZeroth at every factor, Constant at factors >= 1 "
    "only), the unregularized-diagonal setting divided by its square, sky level and garbage multiplied by it, 6 lists "
    "(regularized, partially unregularized, regularized function list) in both formalisms and fit modes, plus an 18x18 "
    "rectangular mapper (324 regularized parameters) at factors 1e-3, 1, 1e3; every evidence term must be finite and equal "
    "to the formula; dense regularization matrices (symmetric positive definite, NOT diagonally dominant) = kernel schemes "
    "(GaussianKernel / ExponentialKernel with a scale length of 1, 2, 3, 5 mesh-pixel spacings) on every mapper kind, a "
    "custom regularization object returning a dense SPD matrix of 4 constructions (Gram, rank-one + ridge, min(i,j), equi-"
    "correlation) on mappers and function lists, alone, next to unregularized objects on either side (reduction of dense "
    "blocks) and next to Constant / other dense blocks, each also with the same matrix supplied through "
    "preloads.regularization_matrix (the objects then carry a Constant scheme), both formalisms and fit modes at one rotating "
    "sky level: log_det_regularization_matrix_term, log_det_curvature_reg_matrix_term, regularization_term, log_evidence and "
    "figure_of_merit must be finite and equal to the formula; "
    "mask argument forms (every mask-in-fit fit of every case) = the util-level sums chi_squared_with_mask_from, "
    "noise_normalization_with_mask_from and chi_squared_with_mask_fast_from are handed the fit's mask as bool ndarray, int64 "
    "0/1 ndarray, uint8 0/1 ndarray and Mask2D, with a native array carrying garbage in masked pixels: each must be the sum "
    "over the entries where the mask is 0 / False; "
    "non-trivial = plain: the mask has masked pixels; inversion: the list has >= 2 objects or is partially unregularized"
)
ASSUMPTIONS = [
    "every statistic is a composition of element-wise operations and sums over pixels, so labelled menus with mixed "
    "signs, exact zeros, data==model pixels and non-constant noise spanning 1e-2..30 expose any mis-indexed or "
    "mis-routed term; data, model and noise carry DIFFERENT garbage values in masked pixels (cyclic shifts of "
    "{0, 7, -3, 1e6}) so a leak through any one of the three arrays changes the result",
    "garbage reaches masked pixels of native-stored arrays only through public arithmetic (Array2D + ndarray), the way "
    "`data - background_sky_level` produces it inside FitImaging itself",
    "evidence reference: F = B^T N^-1 B from the convolution matrix written from the definition and each object's own "
    "mapping matrix (C04/C06), H = the inversion's own regularization_matrix (C07), s = the inversion's own "
    "reconstruction (C05), model image = the array handed to the fit; determinants by numpy slogdet on the matrices "
    "restricted to regularized parameters",
    "residual flux fraction is not compared at pixels whose data value is exactly zero (definition undefined there)",
    "second-fit histories: a fit's statistics are functions of the fit's own data / noise_map / model_data properties at "
    "the time they are read, so a fit class overriding noise_map and a dataset whose noise map was edited in place through "
    "the structure's public __setitem__ must be followed; maps are fresh arrays per read on the pinned tree, so a held map "
    "must keep its values (bitwise) and share no memory with maps of later fits",
    "reassigned dataset model: FitImaging.data and everything downstream are plain properties of the fit's CURRENT dataset "
    "and dataset_model (a public plain attribute), so a fit whose dataset_model was reassigned after a complete evaluation "
    "must give the statistics of dataset.data minus the new level (the inversion, where present, is the caller's and is unchanged)",
    "mask argument forms: a mask is an array whose zero / False entries are included (the documented meaning), so integer 0/1 "
    "masks as read from a .fits file select the same pixels as the bool mask; the reference is the sum over the handed array's "
    "entries at the fit's unmasked pixels",
    "tiny-coefficient lists: H = c^2 L + 1e-8 I with c^2 ~ 1e-9 is well conditioned (cond < 2), so its log-determinant "
    "is demanded to ~1e-9; the curvature side uses the usual condition-aware tolerance",
    "structures under their own mask: the fit's mask is the dataset's (= the data's) mask, whatever mask the noise map or "
    "the model image were built with; a noise map stored without a mask (or under a smaller one) legitimately carries a "
    "positive RMS value in pixels the fit masks, and one under a larger mask can hold its values there only through public "
    "arithmetic (Array2D + ndarray), which is how they are placed; noise is positive in every pixel the fit leaves unmasked",
    "other units: F, H (the inversion's own regularization matrix, which already contains the library's fixed 1e-8 ridge, "
    "so no exact-rescaling argument is needed) and s as in the unit-scale cases; reference log-determinants = 2*sum(log "
    "sqrt(diag)) + slogdet of the symmetrically equilibrated matrix, i.e. sums of logs only, with the condition-aware "
    "tolerance taken on the equilibrated matrix; all other tolerances are purely relative to the reference's magnitude "
    "(no absolute floor of 1), so quantities of size 1e-40 or 1e+40 are compared to ~1e-9 of themselves; Constant "
    "regularization with a coefficient scaled up by more than ~1e4 makes c^2 L + 1e-8 I numerically singular (the ridge "
    "vanishes below rounding) - such matrices have no defined log-determinant and are outside the enumeration; the "
    "positive-only solver and the second-fit histories are not repeated in other units",
    "dense regularization matrices: H = the inversion's own regularization_matrix (the kernel schemes' matrix is certified by "
    "C07; the custom object's and the preloaded matrix are the caller's); reference log-determinants as in the other-units "
    "cases (sums of logs of the diagonal + slogdet of the symmetrically equilibrated matrix, condition-aware tolerance on the "
    "equilibrated matrix, so a Constant block with its 1e-8 ridge next to a kernel block with entries of 1e7 costs nothing); "
    "the kernel schemes return inv(covariance), which is symmetric only to rounding * cond(covariance): log det is then "
    "defined only up to the choice of triangle (a Cholesky factor reads one, an LU both), so the tolerance adds the measured "
    "spread of log det over {the matrix, its lower triangle mirrored, its upper triangle mirrored} (exactly zero for "
    "symmetric matrices, < 1e-5 up to 3 spacings, up to 8e-3 for the Gaussian kernel 5 spacings wide on the 3x4 mesh); a "
    "matrix whose log-determinant is thereby defined to worse than 1e-2 has no log-determinant to compare and is outside the "
    "enumeration (only 2-pixel masks, whose overlaid rectangular mesh has nearly coincident rows); s^T H s is demanded to 16 "
    "n eps |s|^T |H| |s| (entries of H reach 1e7 and cancel); the scale length is given in units of the mesh's lattice "
    "constant = mean pairwise distance of the mesh-pixel centres / (0.52 sqrt n), which is the spacing of a square lattice; "
    "the 4 custom constructions have cond < 1e5 and are exactly symmetric; a preloaded matrix is the one the schemes give for "
    "the same objects (block diagonal, zero blocks for unregularized objects), as a previous fit would have stored it; "
    "MaternKernel cannot be constructed in this environment (needs numba_scipy) and is outside the enumeration; the "
    "positive-only solver and the second-fit histories are not repeated for these schemes",
]
BOUNDS = {
    "quick": "plain: all 3187 masks with <= 9 cells (3x3, 2x4, 4x2, 1x9 ... 1x1) x 2 value menus x 2 sky levels x "
             "(1 slim + 4 garbage assignments); inversion: all 502 interior masks (>=2 pixels) of the 5x5 frame/3x3 PSF, "
             "each with a rotating third of the 54 ordered object lists (length 1..2 over {rectA,rectB,del,func,funcS} "
             "with regularization flags, plus a length-3 menu), PSF kind/sub-size/solver rotating, both formalisms; 6 tiny-"
             "coefficient lists on every 8th interior mask; second-fit history (incl. the reassigned dataset model) in every case "
             "(see rule); 4 mask argument forms on every mask-in-fit fit; own-mask family "
             "(<= 4 masks per fit mask) on all 3187 plain masks x 2 menus and one member per inversion case; other units: "
             "every 8th interior mask x 6 lists x one (rotating) factor of {1e-40, 1e-20, 1e-6, 1e6, 1e20, 1e40}; 324-"
             "parameter mapper: 3 interior masks (9, 5 and 2 pixels) x 3 lists x one rotating factor of {1e-3, 1, 1e3}; "
             "dense regularization matrices: every interior mask x 4 lists of the 56 (rotating, so every list meets ~36 masks "
             "of all sizes), directly or through preloads (alternating); cases whose log-determinant is defined to worse than "
             "1e-2 (degenerate meshes of 2-pixel masks) are not compared",
    "thorough": "plain: all 35943 masks with <= 12 cells; inversion: all 502 interior masks x all 54 lists x both PSF kinds, "
                "tiny-coefficient lists on every interior mask; other units: every interior mask x 6 lists x all 6 factors; "
                "324-parameter mapper: every 8th interior mask x 3 lists x all 3 factors; dense regularization matrices: "
                "every interior mask x all 56 lists x {direct, through preloads}",
}

GARBAGE = [0.0, 7.0, -3.0, 1.0e6]
SKIES = [0.0, 0.3, -0.3]  # the offset may be added or subtracted: both signs are legal
MENUS = ["mixed", "negative"]
RTOL = 1e-9
LD_FLOOR = 1e-9
LD_DEFINED = 1e-2  # dense regularization matrices: a log-determinant defined to worse than this is not compared


def ld_tol(A):
    """
    Absolute tolerance for log det of an SPD matrix: a backward error of n*eps*||A|| moves every eigenvalue by at most
    that much, so log det moves by <= n * (n*eps*||A||) / lambda_min; the regularization matrices here are
    c^2*Laplacian + 1e-8*I (lambda_min = 1e-8), where the observed agreement is ~1e-7. Factor 4 for two factorisations.
    """
    w = np.linalg.eigvalsh(0.5 * (A + A.T))
    if w.size == 0:
        return LD_FLOOR
    if w.min() <= 0:
        return np.inf
    return LD_FLOOR + 4.0 * len(w) * np.finfo(float).eps * float(np.abs(w).max() / w.min())

# quantity -> (mode-suffixed class?, direct upstream quantities); closed transitively below
_DIRECT = {
    "FitImaging.data": (False, ()),
    "residual_map": (True, ("FitImaging.data",)),
    "normalized_residual_map": (True, ("residual_map",)),
    "chi_squared_map": (True, ("residual_map",)),
    "chi_squared": (True, ("chi_squared_map",)),
    "reduced_chi_squared": (True, ("chi_squared",)),
    "noise_normalization": (True, ()),
    "log_likelihood": (True, ("chi_squared", "noise_normalization")),
    "fit_util.chi_squared_with_mask_fast_from": (False, ()),
    "fit_util.chi_squared_with_mask_from": (False, ()),
    "fit_util.noise_normalization_with_mask_from": (False, ()),
    "residual_flux_fraction_map": (False, ("residual_map", "FitImaging.data")),
    "fit_util.residual_flux_fraction_map_from": (False, ()),
    "fit_util.residual_flux_fraction_map_with_mask_from": (False, ()),
    "signal_to_noise_map": (False, ("FitImaging.data",)),
    "dataset.signal_to_noise_map": (False, ()),
    "regularization_term": (False, ()),
    "log_det_curvature_reg_matrix_term": (False, ()),
    "log_det_regularization_matrix_term": (False, ()),
    "log_likelihood_with_regularization": (False, ("chi_squared", "noise_normalization", "regularization_term")),
    "log_evidence": (False, ("chi_squared", "noise_normalization", "regularization_term",
                             "log_det_curvature_reg_matrix_term", "log_det_regularization_matrix_term")),
    "figure_of_merit": (False, ("log_likelihood", "log_evidence")),
}


def _closure():
    out = {}
    for q, (suff, direct) in _DIRECT.items():
        seen, stack = [], list(direct)
        while stack:
            d = stack.pop()
            if d not in seen:
                seen.append(d)
                stack.extend(_DIRECT[d][1])
        out[q] = (suff, tuple(seen))
    return out


QUANT = _closure()


# ----------------------------------------------------------------------------- enumeration


def obj_lists():
    """Every ordered list of 1..2 distinct kinds with regularization flag patterns, plus a length-3 menu."""
    kinds = fix_inv.OBJ_KINDS
    out = []
    for k in kinds:
        out.append([[k], [True]])
        out.append([[k], [False]])
    for pair in itertools.permutations(kinds, 2):
        if pair[0].startswith("func"):
            regs = [[False, True], [True, True]]
        else:
            regs = [[True, True], [True, False]]
        for r in regs:
            out.append([list(pair), r])
    out += [
        [["rectA", "func", "del"], [True, False, True]],
        [["funcS", "rectB", "rectA"], [False, True, True]],
        [["del", "rectA", "rectB"], [True, True, False]],
        [["rectB", "del", "func"], [True, False, False]],
        # unregularized objects separated by regularized ones (the reduced matrices must drop non-contiguous index blocks)
        [["func", "rectA", "funcS"], [False, True, False]],
        [["funcS", "del", "func", "rectA"], [False, True, False, True]],
        [["rectA", "func", "rectB", "funcS"], [True, False, True, False]],
        [["rectB", "rectA", "del"], [False, True, False]],
    ]
    return out


def tiny_lists():
    """
    Lists whose mapper is regularized with a tiny coefficient (flag = the coefficient): the entries of H are ~1e-9, i.e.
    BELOW the 1e-8 ridge on its diagonal, alone and next to normally regularized / unregularized objects.
    """
    return [
        [["rectA"], [3e-5]], [["del"], [3e-5]], [["rectA", "rectB"], [3e-5, True]], [["rectB", "rectA"], [True, 5e-5]],
        [["func", "rectA"], [False, 3e-5]], [["rectA", "funcS", "del"], [5e-5, False, 3e-5]],
    ]


def reg_flag(r):
    """regularization flag of an object list entry -> (regularized?, Constant coefficient)."""
    if isinstance(r, bool):
        return r, 1.0
    if isinstance(r, (list, tuple)):  # a named scheme, see make_reg
        return True, 1.0
    return True, float(r)


# The same dataset expressed in other (extreme but legal) units: data and noise-map are multiplied by the factor, every
# regularization coefficient (and the diagonal added for unregularized parameters) is divided by it / its square.
UNITS = [1e-40, 1e-20, 1e-6, 1e6, 1e20, 1e40]
UNITS_LARGE = [1e-3, 1.0, 1e3]  # for the few-hundred-parameter mapper (|log det| beyond 1418 = log(max double) * 2 at both ends)


def _z(c):
    return ["zeroth", c]


def _cz(c, cz):
    return ["constant-zeroth", c, cz]


def _c(c):
    return ["constant", c]


def unit_lists():
    """
    Lists for the other-units cases. A flag [scheme, coefficients at unit scale] names the regularization scheme: Zeroth
    (H = c^2 I, an exact rescaling), ConstantZeroth (H = cz^2 I + c^2 L + 1e-8 I) and Constant (H = c^2 L + 1e-8 I).
    """
    return [
        [["rectA"], [_z(0.7)]],
        [["del"], [_cz(1.0, 0.5)]],
        [["rectB", "func"], [_cz(0.8, 0.6), False]],
        [["funcS", "rectA", "rectB"], [False, _z(1.3), _cz(1.0, 0.4)]],
        [["rectA", "del"], [_c(1.0), _z(0.9)]],
        [["func", "rectB"], [_z(0.5), _c(2.0)]],
    ]


def large_lists():
    """A rectangular mapper with 18x18 = 324 regularized parameters, alone and next to an unregularized function list."""
    return [
        [["rectL"], [_cz(1.0, 0.5)]],
        [["rectL", "func"], [_z(0.7), False]],
        [["rectL"], [_c(1.0)]],
    ]


def unit_menu(ol, menu):
    """
    Constant alone is c^2 L + 1e-8 I with L singular: in units < 1 the scaled coefficient makes the fixed 1e-8 ridge vanish
    below rounding (H numerically singular, no defined log-determinant), so lists using it are enumerated at factors >= 1.
    """
    if any(isinstance(r, list) and r[0] == "constant" for r in ol[1]):
        return [u for u in menu if u >= 1.0]
    return list(menu)


# Regularization matrices that are symmetric positive definite but NOT diagonally dominant (dense): kernel schemes whose
# scale length is a few mesh-pixel spacings, and dense SPD matrices from a custom regularization object / through preloads.
KERNEL_ROT = 14  # quick tier: a mask meets every 14th list of the menu (4 of 56), the offset rotating over the masks
KERNEL_SCALES = [1, 2, 3, 5]  # scale length in units of the mesh's lattice constant
KERNEL_SCHEMES = [[name, 1.0, k] for name in ("gauss", "exp") for k in KERNEL_SCALES]
DENSE_KINDS = ["gram", "rank1", "minij", "equicorr"]
MAPPER_KINDS = ("rectA", "rectB", "del")


def _d(name, c=1.0):
    return ["dense", name, c]


def kernel_lists():
    """
    The complete menu: every kernel scheme on every mapper kind and every dense construction on a mapper of either mesh
    type and on a function list, alone; every scheme next to an unregularized object (before / after / on both sides, kinds
    rotating); dense blocks next to Constant blocks and to each other.
    """
    out = []
    for k in MAPPER_KINDS:
        for sch in KERNEL_SCHEMES:
            out.append([[k], [sch]])
    for k in ("rectA", "del", "func"):
        for name in DENSE_KINDS:
            out.append([[k], [_d(name)]])
    schemes = KERNEL_SCHEMES + [_d(name, 0.7) for name in DENSE_KINDS]
    for j, sch in enumerate(schemes):
        k = MAPPER_KINDS[j % 3]
        un = ("func", "funcS")[j % 2]
        out.append([[un, k], [False, sch]] if j % 3 == 0 else ([[k, un], [sch, False]] if j % 3 == 1 else [["func", k, "funcS"], [False, sch, False]]))
    g = {k: ["gauss", 1.0, k] for k in KERNEL_SCALES}
    e = {k: ["exp", 1.0, k] for k in KERNEL_SCALES}
    out += [
        [["rectA", "rectB"], [True, g[2]]],
        [["rectB", "rectA"], [g[3], True]],
        [["del", "rectA"], [e[2], g[2]]],
        [["rectA", "del"], [g[5], e[5]]],
        [["rectB", "del"], [_d("gram"), g[1]]],
        [["func", "rectA", "funcS"], [_d("rank1"), True, False]],
        [["rectA", "func", "del"], [g[2], False, _d("minij", 1.3)]],
        [["del", "rectB", "func"], [g[3], _d("equicorr"), _d("gram", 0.5)]],
    ]
    return out


def dense_spd(name, n, coefficient, seed):
    """
    A dense symmetric positive definite n x n matrix that is not diagonally dominant (n >= 2), written from a formula with
    a small seed-dependent jitter; `coefficient` multiplies it. Condition numbers stay below 1e4.
    """
    i = np.arange(n, dtype=float)
    jit = 1.0 + 0.05 * dom.rng(seed, "c08dense", name, n).uniform(-1, 1, size=n)
    if name == "gram":  # A A^T / m + ridge with an n x (n + 2) labelled matrix A
        j = np.arange(n + 2, dtype=float)
        A = ((3.0 * i[:, None] + 5.0 * j[None, :]) % 7.0 - 3.0) / 3.0 * jit[:, None]
        H = A @ A.T / (n + 2) + 0.05 * np.eye(n)
    elif name == "rank1":  # ridge + v v^T with alternating signs and unequal magnitudes: the largest entry of a column is off the diagonal
        vv = np.where(i % 2 == 0, 1.0, -1.0) * (0.5 + (i * 3.0) % 5.0) * jit
        H = 0.2 * np.eye(n) + np.outer(vv, vv) / 4.0
    elif name == "minij":  # covariance of a random walk, inverse tridiagonal
        H = 0.5 * (np.minimum(i[:, None], i[None, :]) + 1.0) * jit[0]
    elif name == "equicorr":  # equal correlation 0.9 between all parameters, unequal variances
        sd = 0.5 + (i * 2.0) % 3.0 / 2.0 * jit
        H = (0.1 * np.eye(n) + 0.9 * np.ones((n, n))) * sd[:, None] * sd[None, :]
    else:
        raise ValueError(name)
    H = coefficient * 0.5 * (H + H.T)
    w = np.linalg.eigvalsh(H)
    if not (w.min() > 0 and w.max() / w.min() < 1e5):
        raise RuntimeError("harness: dense regularization matrix %s n=%d is not safely positive definite" % (name, n))
    return H


_DENSE_REG = None


def dense_reg_cls():
    """A user-defined regularization scheme (public base class) whose matrix is a dense SPD matrix from dense_spd."""
    global _DENSE_REG
    if _DENSE_REG is None:
        from autoarray.inversion.regularization.abstract import AbstractRegularization

        class VerifDenseRegularization(AbstractRegularization):
            def __init__(self, name, coefficient, seed):
                self.name, self.coefficient, self.seed = name, coefficient, seed
                super().__init__()

            def regularization_weights_from(self, linear_obj):
                return self.coefficient * np.ones(linear_obj.params)

            def regularization_matrix_from(self, linear_obj):
                return dense_spd(self.name, linear_obj.params, self.coefficient, self.seed)

        _DENSE_REG = VerifDenseRegularization
    return _DENSE_REG


def lattice_constant(points):
    """Mean pairwise distance / (0.52 sqrt n): the spacing of a square lattice of n points with that mean distance."""
    g = np.asarray(points, dtype=float).reshape(-1, 2)
    n = len(g)
    d = np.sqrt(((g[:, None, :] - g[None, :, :]) ** 2).sum(-1))
    return float(d.sum() / (n * (n - 1)) / (0.52 * np.sqrt(n)))


def make_reg(aa, r, units, spacing=None, seed=0):
    if not isinstance(r, (list, tuple)):
        return None
    if r[0] == "gauss":
        return aa.reg.GaussianKernel(coefficient=r[1], scale=r[2] * spacing)
    if r[0] == "exp":
        return aa.reg.ExponentialKernel(coefficient=r[1], scale=r[2] * spacing)
    if r[0] == "dense":
        return dense_reg_cls()(r[1], r[2], seed)
    if r[0] == "zeroth":
        return aa.reg.Zeroth(coefficient=r[1] / units)
    if r[0] == "constant-zeroth":
        return aa.reg.ConstantZeroth(coefficient_neighbor=r[1] / units, coefficient_zeroth=r[2] / units)
    if r[0] == "constant":
        return aa.reg.Constant(coefficient=r[1] / units)
    raise ValueError(r)


def cases(tier, seed):
    ncell = 9 if tier == "quick" else 12
    for (h, w, bits) in dom.all_mask_cases(ncell):
        yield ["plain", h, w, bits, seed]
    lists = obj_lists()
    frame, ks = (5, 5), (3, 3)
    fam = []
    for bits in dom.interior_mask_cases(frame, ks):
        if bin(bits).count("1") >= 2:
            fam.append(bits)
    fam.sort(key=lambda b: (bin(b).count("1"), b))
    # tiny-coefficient lists first (few and cheap), then the main sweep
    for i, bits in enumerate(fam):
        if tier == "quick" and i % 8 != 3:
            continue
        for k, ol in enumerate(tiny_lists()):
            yield ["inv", list(frame), list(ks), bits, fix_inv.PSF_KINDS[(k + i) % 2], 1 + (k + i // 2) % 2, ol, False, (k + i) % 2 == 0, seed]
    # the same datasets in other units (few and cheap), then the few-hundred-parameter mapper
    for i, bits in enumerate(fam):
        if tier == "quick" and i % 8 != 5:
            continue
        for k, ol in enumerate(unit_lists()):
            menu = unit_menu(ol, UNITS)
            for j, un in enumerate(menu):
                if tier == "quick" and j != (i // 8 + k) % len(menu):
                    continue
                yield ["invu", list(frame), list(ks), bits, fix_inv.PSF_KINDS[(k + i + j) % 2], 1 + (k + i // 2) % 2, ol, un, (k + i) % 2 == 0, seed]
    full = max(fam, key=lambda b: bin(b).count("1"))
    big = [full, fam[len(fam) // 2], fam[0]] if tier == "quick" else [b for i, b in enumerate(fam) if i % 8 == 1 or b == full]
    for i, bits in enumerate(big):
        for k, ol in enumerate(large_lists()):
            menu = unit_menu(ol, UNITS_LARGE)
            for j, un in enumerate(menu):
                if tier == "quick" and j != (i + k) % len(menu):
                    continue
                yield ["invu", list(frame), list(ks), bits, fix_inv.PSF_KINDS[(k + i) % 2], 2, ol, un, (k + i) % 2 == 1, seed]
    # dense (not diagonally dominant) regularization matrices: kernel schemes, custom dense SPD objects, preloaded matrices
    klists = kernel_lists()
    stride = next(q for q in (11, 13, 17, 19) if np.gcd(q, len(klists)) == 1)
    for i, bits in enumerate(fam):
        for k, ol in enumerate(klists):
            off = (k - stride * i) % len(klists)
            if tier == "quick" and off % KERNEL_ROT != 0:
                continue
            for pre in ([(off // KERNEL_ROT + i) % 2 == 1] if tier == "quick" else [False, True]):
                yield ["invk", list(frame), list(ks), bits, fix_inv.PSF_KINDS[(k + i) % 2], 1 + (k + i // 2) % 2, ol, bool(pre), (k + i) % 2 == 0, seed]
    for i, bits in enumerate(fam):
        for k, ol in enumerate(lists):
            if tier == "quick":
                if (k + i) % 3 != 0:
                    continue
                kinds_psf = [fix_inv.PSF_KINDS[(k // 3 + i) % 2]]
            else:
                kinds_psf = list(fix_inv.PSF_KINDS)
            for pk in kinds_psf:
                sub = 1 + (k + i // 2) % 2
                positive = (k + i // 3) % 4 == 1
                extra = (k + i) % 2 == 0
                yield ["inv", list(frame), list(ks), bits, pk, sub, ol, bool(positive), bool(extra), seed]


# ----------------------------------------------------------------------------- the fit under test


_FIT = None


def fit_cls():
    """Concrete FitImaging: supplies model_data and (optionally) the inversion, nothing else is overridden."""
    global _FIT
    if _FIT is None:
        import autoarray as aa

        class VerifFitImaging(aa.FitImaging):
            def __init__(self, dataset, model_data, inversion=None, use_mask_in_fit=False, dataset_model=None):
                super().__init__(dataset=dataset, use_mask_in_fit=use_mask_in_fit, dataset_model=dataset_model)
                self._model_data = model_data
                self._inversion = inversion

            @property
            def model_data(self):
                return self._model_data

            @property
            def inversion(self):
                return self._inversion

        _FIT = VerifFitImaging
    return _FIT


_FIT_OWN = None


def fit_own_noise_cls():
    """A fit that supplies its OWN noise map (e.g. a scaled noise map), the way MockFitImaging / downstream fits override it."""
    global _FIT_OWN
    if _FIT_OWN is None:

        class VerifFitImagingOwnNoise(fit_cls()):
            def __init__(self, dataset, model_data, noise_map, **kwargs):
                super().__init__(dataset, model_data, **kwargs)
                self._noise_map = noise_map

            @property
            def noise_map(self):
                return self._noise_map

        _FIT_OWN = VerifFitImagingOwnNoise
    return _FIT_OWN


# ----------------------------------------------------------------------------- value menus


def values(menu, n, salt, seed):
    """(data, model, noise) for all n native cells; exact zeros, data==model pixels, mixed signs; noise > 0."""
    r = dom.rng(seed, "c08", menu)
    jit = 1.0 + 0.05 * r.uniform(-1, 1, size=16)
    if menu == "mixed":
        dmenu = np.array([1.5, -2.25, 0.0, 3.0, -0.5, 0.0, 0.75, -4.0, 2.0, 0.125, -1.0])
        mmenu = np.array([1.0, 0.0, 0.0, 3.0, 0.5, 1.25, -0.75, -4.5, 0.0, 2.0, -1.0])
        dmenu = dmenu * jit[:11]
        mmenu = mmenu * jit[:11]  # same jitter: data == model stays exact at positions 3 and 10
        mmenu[0] = 1.0 * jit[11]
        mmenu[7] = -4.5 * jit[12]
    elif menu == "negative":
        dmenu = -np.array([0.5, 2.0, 0.0, 1.25, 3.5, 0.25, 6.0]) * jit[:7]
        mmenu = np.array([0.25, 0.0, 1.0, 2.0, 0.5, 0.0, 3.0]) * jit[7:14]
    else:
        raise ValueError(menu)
    nmenu = np.array([0.5, 2.0, 1.0e-2, 1.0, 30.0, 0.7, 3.0]) * (1.0 + 0.05 * r.uniform(-1, 1, size=7))
    k = np.arange(n)
    d = dmenu[(k + salt) % len(dmenu)]
    m = mmenu[(k + salt) % len(mmenu)]
    s = nmenu[(k * 3 + salt) % len(nmenu)]
    return d.astype(float), m.astype(float), s.astype(float)


def garbage_triplet(j):
    return GARBAGE[j % 4], GARBAGE[(j + 1) % 4], GARBAGE[(j + 2) % 4]


# ----------------------------------------------------------------------------- comparison / attribution


def _scal(x):
    if x is None:
        return None
    return float(np.asarray(getattr(x, "array", x), dtype=float))


def _close(a, b, atol_abs=0.0, floor=1.0):
    """floor: lower bound of the magnitude the absolute tolerance refers to (0.0 = purely relative to the reference's magnitude)."""
    if a is None or b is None:
        return a is None and b is None
    a = np.asarray(a, dtype=float)
    b = np.asarray(b, dtype=float)
    if a.shape != b.shape:
        return False
    scale = max(floor, float(np.max(np.abs(b[np.isfinite(b)]))) if np.isfinite(b).any() else floor)
    return bool(np.allclose(a, b, rtol=RTOL, atol=1e-12 * scale + atol_abs, equal_nan=True))


class Acc:
    """
    Collects, per quantity, one record per variant (garbage assignment) and decides the finding class at the end:
    a quantity that disagrees with its end-to-end reference but agrees with the reference recomputed from the fit's own
    OBSERVED upstream quantities is attributed to the upstream quantity (already reported), so one defect gives one
    class; a quantity whose observed value changes with the garbage in masked pixels is a `masked-garbage-leaks:` class.
    """

    def __init__(self, v, mode, tag, reported=None, suffix=None, floor=1.0):
        self.v, self.mode, self.tag, self.suffix, self.floor = v, mode, tag, suffix, floor
        self.rec = {}
        self.order = []
        self.reported = set(reported or ())

    def add(self, q, obs, ref, comp=None, atol=0.0, variant=0):
        e2e = _close(obs, ref, atol, self.floor)
        cok = e2e or (comp is not None and _close(obs, comp, atol, self.floor))
        if q not in self.rec:
            self.rec[q] = []
            self.order.append(q)
        self.rec[q].append((e2e, cok, obs, ref, variant))

    def finish(self):
        v = self.v
        for q in self.order:
            recs = self.rec[q]
            bad = [r for r in recs if not r[0]]
            for _ in range(len(recs) - len(bad)):
                v.ok(True, q)
            if not bad:
                continue
            suffixed, deps = QUANT.get(q, (False, ()))
            own = any((not r[0]) and (not r[1]) for r in recs)
            upstream = [d for d in deps if d in self.reported]
            self.reported.add(q)
            if not own and upstream:
                v.checks += len(bad)  # explained by (and reported under) the upstream quantity
                continue
            varies = False
            if self.mode == "mask-in-fit" and len(recs) > 1:
                o0 = recs[0][2]
                varies = any(not _close(r[2], o0, 0.0, self.floor) for r in recs[1:])
            if self.suffix:
                cls = "%s:%s" % (q, self.suffix)  # history classes: the quantity and the history, not the mode
            elif varies:
                cls = "masked-garbage-leaks:%s" % q
            elif suffixed:
                cls = "%s[%s]" % (q, self.mode)
            else:
                cls = q
            e2e, cok, obs, ref, variant = bad[0]
            v.checks += len(bad) - 1
            v.fail(cls, "%s variant=%s observed=%s expected=%s" % (self.tag, variant, _short(obs), _short(ref)))
        return self.reported


def _short(x):
    if x is None:
        return "None"
    a = np.asarray(x, dtype=float)
    return np.array2string(a, precision=6, threshold=20, max_line_width=200).replace("\n", " ")


# ----------------------------------------------------------------------------- one fit, all observables


def reference(d_eff, model, noise):
    """The definitions, on the unmasked pixel values only (1D arrays in slim order)."""
    r = d_eff - model
    nr = r / noise
    c = nr ** 2
    chi2 = float(np.sum(c))
    norm = float(np.sum(np.log(2.0 * np.pi * noise ** 2)))
    return {
        "residual_map": r, "normalized_residual_map": nr, "chi_squared_map": c, "chi_squared": chi2,
        "reduced_chi_squared": chi2 / len(d_eff), "noise_normalization": norm, "log_likelihood": -0.5 * (chi2 + norm),
    }


def MASK_FORMS(u, fit_mask):
    """The forms in which one and the same mask (True / 1 = masked) is handed to the util-level *_with_mask_from sums."""
    m = ~u
    return [("bool-ndarray", m.copy()), ("int-ndarray", m.astype(np.int64)), ("uint8-ndarray", m.astype(np.uint8)), ("Mask2D", fit_mask)]


def _map(x, mode, shape, u):
    """-> (values on unmasked pixels in slim order, values on masked pixels or None); None if the form is wrong."""
    a = np.array(x, dtype=float)
    if mode == "slim":
        if a.shape != (int(u.sum()),):
            return None, None
        return a, None
    if a.shape != shape:
        return None, None
    return a[u], a[~u]


def observe_fit(acc, fit, ds, mode, u, d_eff, d_raw, model, noise, variant, inv_ref=None, ds_noise=None):
    """
    d_eff, d_raw, model, noise: reference values on unmasked pixels (slim order); d_eff = data after the sky offset.
    inv_ref: None or dict(reg_term, ld_fh, ld_h) reference values and the inversion's observed terms.
    ds_noise: the noise values the DATASET holds, when the fit supplies its own noise map (default: the fit's).
    """
    ds_noise = noise if ds_noise is None else ds_noise
    from autoarray.fit import fit_util

    shape = u.shape
    ref = reference(d_eff, model, noise)
    nz = u.sum()
    zeros_masked = np.zeros(int((~u).sum()))

    def add_map(q, value, ref_u, comp_u=None, masked_zero=True, sel=None):
        vu, vm = _map(value, mode, shape, u)
        if vu is None:
            acc.add(q, np.array([np.nan]), np.array([0.0]), variant=variant)  # wrong form/shape
            return None
        if sel is not None:
            o, r_, c_ = vu[sel], ref_u[sel], (None if comp_u is None else comp_u[sel])
        else:
            o, r_, c_ = vu, ref_u, comp_u
        if mode == "mask-in-fit" and masked_zero:
            o = np.concatenate([o, vm])
            r_ = np.concatenate([r_, zeros_masked])
            if c_ is not None:
                c_ = np.concatenate([c_, zeros_masked])
        acc.add(q, o, r_, c_, variant=variant)
        return vu

    with np.errstate(all="ignore"):
        # the data the fit works on (dataset data minus the background sky of the dataset model)
        d_obs = add_map("FitImaging.data", fit.data, d_eff, masked_zero=False)
        d_up = d_obs if d_obs is not None else d_eff
        r_obs = add_map("residual_map", fit.residual_map, ref["residual_map"], d_up - model)
        r_up = r_obs if r_obs is not None else ref["residual_map"]
        add_map("normalized_residual_map", fit.normalized_residual_map, ref["normalized_residual_map"], r_up / noise)
        c_obs = add_map("chi_squared_map", fit.chi_squared_map, ref["chi_squared_map"], (r_up / noise) ** 2)
        c_up = c_obs if c_obs is not None else ref["chi_squared_map"]
        chi2 = _scal(fit.chi_squared)
        acc.add("chi_squared", chi2, ref["chi_squared"], float(np.sum(c_up)), variant=variant)
        acc.add("reduced_chi_squared", _scal(fit.reduced_chi_squared), ref["reduced_chi_squared"], chi2 / nz, variant=variant)
        norm = _scal(fit.noise_normalization)
        acc.add("noise_normalization", norm, ref["noise_normalization"], variant=variant)
        ll = _scal(fit.log_likelihood)
        acc.add("log_likelihood", ll, ref["log_likelihood"], -0.5 * (chi2 + norm), variant=variant)

        if mode == "mask-in-fit":
            # util-level function, not routed through FitDataset: reference from the arrays it is handed
            fast = fit_util.chi_squared_with_mask_fast_from(data=fit.data, mask=fit.mask, model_data=fit.model_data, noise_map=fit.noise_map)
            acc.add("fit_util.chi_squared_with_mask_fast_from", _scal(fast), float(np.sum(((d_up - model) / noise) ** 2)), variant=variant)
            # the mask argument in every form a caller may hold it in (bool ndarray, integer 0/1 ndarray as read from a
            # .fits file, the Mask2D itself): the sums are over the entries where the mask is 0 / False, whatever its dtype
            arr = np.array(fit.noise_map, dtype=float)  # native array, garbage in masked pixels
            if arr.shape == shape:
                for form, mk in MASK_FORMS(u, fit.mask):
                    vt = "%s mask=%s" % (variant, form)
                    acc.add("fit_util.chi_squared_with_mask_from", _scal(fit_util.chi_squared_with_mask_from(chi_squared_map=arr, mask=mk)),
                            float(np.sum(arr[u])), variant=vt)
                    acc.add("fit_util.noise_normalization_with_mask_from", _scal(fit_util.noise_normalization_with_mask_from(noise_map=arr, mask=mk)),
                            float(np.sum(np.log(2.0 * np.pi * arr[u] ** 2))), variant=vt)
                    if form != "Mask2D":
                        fast = fit_util.chi_squared_with_mask_fast_from(data=fit.data, mask=mk, model_data=fit.model_data, noise_map=fit.noise_map)
                        acc.add("fit_util.chi_squared_with_mask_fast_from", _scal(fast), float(np.sum(((d_up - model) / noise) ** 2)), variant=vt)

        # residual flux fraction = residual / data, compared where data != 0
        sel = (d_eff != 0.0) & (d_up != 0.0)
        rff_ref = np.where(sel, ref["residual_map"] / np.where(sel, d_eff, 1.0), 0.0)
        rff_comp = np.where(sel, r_up / np.where(sel, d_up, 1.0), 0.0)
        add_map("residual_flux_fraction_map", fit.residual_flux_fraction_map, rff_ref, rff_comp, sel=sel)
        if mode == "slim":
            x = fit_util.residual_flux_fraction_map_from(residual_map=fit.residual_map, data=fit.data)
            add_map("fit_util.residual_flux_fraction_map_from", x, rff_comp, sel=sel)
        else:
            x = fit_util.residual_flux_fraction_map_with_mask_from(residual_map=fit.residual_map, data=fit.data, mask=fit.mask)
            add_map("fit_util.residual_flux_fraction_map_with_mask_from", x, rff_comp, sel=sel)

        # signal to noise, negatives clipped to zero (no mask-aware variant exists: unmasked pixels only)
        add_map("signal_to_noise_map", fit.signal_to_noise_map, np.maximum(d_eff / noise, 0.0), np.maximum(d_up / noise, 0.0), masked_zero=False)
        add_map("dataset.signal_to_noise_map", ds.signal_to_noise_map, np.maximum(d_raw / ds_noise, 0.0), masked_zero=False)

        llr = fit.log_likelihood_with_regularization
        lev = fit.log_evidence
        fom = _scal(fit.figure_of_merit)
        if inv_ref is None:
            acc.add("log_likelihood_with_regularization", None if llr is None else _scal(llr), None, variant=variant)
            acc.add("log_evidence", None if lev is None else _scal(lev), None, variant=variant)
            acc.add("figure_of_merit", fom, ref["log_likelihood"], ll, variant=variant)
        else:
            o = inv_ref["obs"]
            acc.add("log_likelihood_with_regularization", _scal(llr),
                    -0.5 * (ref["chi_squared"] + inv_ref["reg_term"] + ref["noise_normalization"]),
                    -0.5 * (chi2 + o["reg_term"] + norm), atol=inv_ref["atol"], variant=variant)
            lev_o = _scal(lev)
            acc.add("log_evidence", lev_o,
                    -0.5 * (ref["chi_squared"] + inv_ref["reg_term"] + inv_ref["ld_fh"] - inv_ref["ld_h"] + ref["noise_normalization"]),
                    -0.5 * (chi2 + o["reg_term"] + o["ld_fh"] - o["ld_h"] + norm), atol=inv_ref["atol"], variant=variant)
            acc.add("figure_of_merit", fom,
                    -0.5 * (ref["chi_squared"] + inv_ref["reg_term"] + inv_ref["ld_fh"] - inv_ref["ld_h"] + ref["noise_normalization"]),
                    lev_o, atol=inv_ref["atol"], variant=variant)


def native_with_garbage(aa, mask, m, vals_native_clean, g):
    """Native-stored Array2D whose masked pixels carry g, produced by public arithmetic only."""
    a = aa.Array2D(values=vals_native_clean, mask=mask, store_native=True) + np.where(m, g, 0.0)
    arr = np.array(a, dtype=float)
    want = np.where(m, g, vals_native_clean)
    if arr.shape != m.shape or not np.array_equal(arr, want):
        raise RuntimeError("harness: could not place garbage in masked pixels of a native-stored array")
    return a


HELD_MAPS = ("residual_map", "normalized_residual_map", "chi_squared_map", "residual_flux_fraction_map")
SECOND = "second-fit-same-dataset"
REASSIGNED = "dataset-model-reassigned"
EDITED_NOISE = 50.0


def _raw(x):
    """The ndarray a structure wraps."""
    return np.asarray(getattr(x, "array", x))


def other_mask(m):
    """A different mask of the same shape with >= 1 unmasked pixel (None for a single cell)."""
    if m.size < 2:
        return None
    m3 = np.roll(m.ravel(), 1).reshape(m.shape)
    if np.array_equal(m3, m):  # only for the all-unmasked mask
        m3 = m.copy()
        m3.ravel()[0] = not m3.ravel()[0]
    return m3


def _in_mode(aa, mask, m, vals_nat, mode, g):
    if mode == "slim":
        return aa.Array2D(values=vals_nat[~m].copy(), mask=mask)
    return native_with_garbage(aa, mask, m, np.where(m, 0.0, vals_nat), g)


def check_held(v, mode, held, snap, later_fit, what):
    """Maps handed out by an earlier fit must keep their values and must not share memory with a later fit's maps."""
    for q in HELD_MAPS:
        later = _raw(getattr(later_fit, q))
        now = _raw(held[q])
        same = now.shape == snap[q].shape and np.array_equal(now, snap[q], equal_nan=True)
        shares = bool(np.shares_memory(now, later))
        v.ok(same and not shares, "%s[%s]:held-map-changed-by-later-fit" % (q, mode),
             lambda: "%s of fit 1, held while %s was evaluated: values unchanged %s (max change %s), shares memory with the later fit's %s: %s"
             % (q, what, same, dom.maxdiff(now, snap[q]) if now.shape == snap[q].shape else "shape", q, shares))


def history(v, aa, mode, mask, m, ds, fit1, dm, d_eff, d_raw_nat, model_nat, noise_nat, tag, steps, salt,
            inversion=None, inv_ref=None, reported=None):
    """
    Further fits after `fit1` (already evaluated completely) on the SAME dataset object `ds`; see RULE. `steps` is a subset
    of ("own", "edit"); d_raw_nat / model_nat / noise_nat are given on the whole native frame (noise > 0 everywhere).
    """
    u = ~m
    mif = mode == "mask-in-fit"
    Fit, FitOwn = fit_cls(), fit_own_noise_cls()
    d_raw, model_u, noise_u = d_raw_nat[u], model_nat[u], noise_nat[u]
    rep = set()
    # (0) the dataset model of the evaluated fit 1 is REASSIGNED (another background sky level): every statistic read
    # afterwards is the one of the dataset data minus the new level; then the original model is put back
    cur = 0.0 if dm is None else float(dm.background_sky_level)
    sky2 = [s for s in SKIES if s != cur][salt % 2]
    fit1.dataset_model = aa.DatasetModel(background_sky_level=sky2)
    d_raw_u = d_raw_nat[u]
    acc = Acc(v, mode, "%s mode=%s fit 1 read again after fit.dataset_model = DatasetModel(background_sky_level=%s)" % (tag, mode, sky2),
              reported, suffix=REASSIGNED)
    observe_fit(acc, fit1, ds, mode, u, d_raw_u - sky2 if sky2 != 0.0 else d_raw_u, d_raw, model_u, noise_u, "dataset-model-reassigned", inv_ref)
    rep |= acc.finish()
    fit1.dataset_model = dm if dm is not None else aa.DatasetModel()
    if "own" in steps:
        held, snap = {}, {}
        with np.errstate(all="ignore"):
            for q in HELD_MAPS:  # snapshot immediately after each read
                held[q] = getattr(fit1, q)
                snap[q] = np.array(_raw(held[q]), dtype=float, copy=True)
        # a fit class that supplies its own (scaled) noise map, with another model, on the same dataset
        model2 = 0.5 * model_nat + 0.25
        noise2 = 1.7 * noise_nat + 0.1
        g = garbage_triplet(salt + 1)
        fit2 = FitOwn(ds, _in_mode(aa, mask, m, model2, mode, g[1]), _in_mode(aa, mask, m, noise2, mode, g[2]),
                      inversion=inversion, use_mask_in_fit=mif, dataset_model=dm)
        acc = Acc(v, mode, "%s mode=%s second fit with its own noise map on the same dataset" % (tag, mode), reported, suffix=SECOND)
        observe_fit(acc, fit2, ds, mode, u, d_eff, d_raw, model2[u], noise2[u], "own-noise-map", inv_ref, ds_noise=noise_u)
        rep |= acc.finish()
        with np.errstate(all="ignore"):
            check_held(v, mode, held, snap, fit2, "a second fit (other model and noise map, same dataset)")
            m3 = other_mask(m)
            if m3 is not None:
                mask3 = aa.Mask2D(mask=m3.copy(), pixel_scales=mask.pixel_scales)
                g = garbage_triplet(salt + 2)
                ds3 = aa.Imaging(data=_in_mode(aa, mask3, m3, d_raw_nat + 0.5, mode, g[0]), noise_map=_in_mode(aa, mask3, m3, noise_nat, mode, g[2]))
                fit3 = Fit(ds3, _in_mode(aa, mask3, m3, 1.0 - model_nat, mode, g[1]), use_mask_in_fit=mif, dataset_model=dm)
                fit3.figure_of_merit
                check_held(v, mode, held, snap, fit3, "a fit on another mask of the same shape")
    if "edit" in steps:
        # one noise value of the dataset is edited in place through the structure's __setitem__
        kk = salt % int(u.sum())
        if mif:
            y, x = np.argwhere(u)[kk]
            ds.noise_map[int(y), int(x)] = EDITED_NOISE
        else:
            ds.noise_map[kk] = EDITED_NOISE
        noise_e = noise_u.copy()
        noise_e[kk] = EDITED_NOISE
        got, _ = _map(ds.noise_map, mode, u.shape, u)
        if got is None or not np.array_equal(got, noise_e):
            raise RuntimeError("harness: in-place edit of the dataset's noise map did not take effect")
        fit4 = Fit(ds, fit1.model_data, inversion=inversion, use_mask_in_fit=mif, dataset_model=dm)
        acc = Acc(v, mode, "%s mode=%s second fit after dataset.noise_map[k] = %s on the same dataset" % (tag, mode, EDITED_NOISE), reported, suffix=SECOND)
        observe_fit(acc, fit4, ds, mode, u, d_eff, d_raw, model_u, noise_e, "noise-map-edited-in-place", inv_ref)
        rep |= acc.finish()
    return rep


OWN_MASK = "structures-under-their-own-mask"


def own_mask_family(m, salt):
    """
    The masks (same shape) a native-stored noise map / model image may carry INSTEAD of the fit's mask `m` (= the data's
    mask): no mask at all (an array as loaded from file), a smaller one (every other masked pixel of `m` unmasked), a larger
    one (every other unmasked pixel of `m` masked as well) and a shifted one (neither subset nor superset in general).
    """
    flat = m.ravel()
    masked, unm = np.flatnonzero(flat), np.flatnonzero(~flat)
    cand = [("no-mask", np.zeros_like(m))]
    if len(masked) >= 2:
        k = flat.copy()
        k[masked[salt % 2::2]] = False
        cand.append(("smaller-mask", k.reshape(m.shape)))
    if len(unm) >= 2:
        k = flat.copy()
        k[unm[salt % 2::2]] = True
        cand.append(("larger-mask", k.reshape(m.shape)))
    o = other_mask(m)
    if o is not None:
        cand.append(("shifted-mask", o))
    out, seen = [], {m.tobytes()}
    for name, k in cand:
        if k.tobytes() not in seen and not k.all():
            seen.add(k.tobytes())
            out.append((name, k))
    return out


def native_under_own_mask(aa, k, pixel_scales, vals_native):
    """
    Native-stored Array2D under its OWN mask `k` whose native array is `vals_native` in every pixel (the entries its own
    mask hides are put there by public arithmetic, as in native_with_garbage).
    """
    mk = aa.Mask2D(mask=k.copy(), pixel_scales=pixel_scales)
    a = aa.Array2D(values=np.where(k, 0.0, vals_native), mask=mk, store_native=True) + np.where(k, vals_native, 0.0)
    if np.array(a, dtype=float).shape != k.shape or not np.array_equal(np.array(a, dtype=float), vals_native) \
            or not np.array_equal(np.array(a.mask, dtype=bool), k):
        raise RuntimeError("harness: could not build a native-stored array under its own mask")
    return a


def own_mask_fits(v, aa, mask, m, dm, d_eff, d_raw, d_clean, model_nat, noise_nat, tag, own, inversion, inv_ref, reported, gscale, floor):
    """
    Mask-in-fit fits whose noise map (and model image) are structures carrying their own, different mask: their native
    arrays hold the true value in every pixel the FIT leaves unmasked and in every pixel their own mask leaves unmasked
    (a positive RMS value there, as a noise map loaded without a mask has), garbage where both masks hide the pixel.
    The statistics must be those over the fit's unmasked pixels.
    """
    u = ~m
    Fit = fit_cls()
    fam = own_mask_family(m, own["salt"])
    if not fam:
        return set()
    idx = range(len(fam)) if own.get("count") is None else [(own["salt"] + i) % len(fam) for i in range(own["count"])]
    acc = Acc(v, "mask-in-fit", "%s mode=mask-in-fit" % tag, reported, suffix=OWN_MASK, floor=floor)
    for j in idx:
        gd, gm, gs = (g * gscale for g in garbage_triplet(j + own["salt"]))
        name_n, kn = fam[j]
        noise = native_under_own_mask(aa, kn, mask.pixel_scales, np.where(u | ~kn, noise_nat, gs))
        if (j + own["salt"]) % 2 == 1:
            name_m, km = fam[(j + 1) % len(fam)]
            model = native_under_own_mask(aa, km, mask.pixel_scales, np.where(u | ~km, model_nat, gm))
        else:
            name_m, model = "the fit's mask", native_with_garbage(aa, mask, m, np.where(m, 0.0, model_nat), gm)
        ds = aa.Imaging(data=native_with_garbage(aa, mask, m, d_clean, gd), noise_map=noise)
        fit = Fit(ds, model, inversion=inversion, use_mask_in_fit=True, dataset_model=dm)
        if not np.array_equal(np.array(fit.mask, dtype=bool), m):
            raise RuntimeError("harness: the fit's mask is not the data's mask")
        observe_fit(acc, fit, ds, "mask-in-fit", u, d_eff, d_raw, model_nat[u], noise_nat[u],
                    "noise map under %s, model under %s" % (name_n, name_m), inv_ref)
    return acc.finish()


def run_fits(v, aa, mask, m, d_nat, model_nat, noise_nat, tag, inversion=None, inv_ref=None, reported=None, hist=None,
             own=None, skies=None, gscale=1.0, floor=1.0):
    """
    All modes x sky levels x garbage assignments for one (data, model, noise) triple given on the native frame.
    hist: None or {"sky": level at which the second-fit history runs, "salt": int, "slim": steps, "mask-in-fit": steps}.
    own: None or {"sky": level at which the own-mask structures run, "salt": int, "count": None (whole family) or n}.
    skies / gscale / floor: sky levels, garbage scale and magnitude floor of the tolerances (datasets in other units).
    """
    u = ~m
    Fit = fit_cls()
    rep_all = set()
    for sky in (SKIES if skies is None else skies):
        dm = aa.DatasetModel(background_sky_level=sky) if sky != 0.0 else None
        d_raw = d_nat[u] + sky  # what the dataset stores; the fit subtracts the sky again
        d_eff = d_raw - sky if sky != 0.0 else d_raw
        # ---- slim mode
        acc = Acc(v, "slim", "%s sky=%s mode=slim" % (tag, sky), reported, floor=floor)
        ds = aa.Imaging(data=aa.Array2D(values=d_raw.copy(), mask=mask), noise_map=aa.Array2D(values=noise_nat[u].copy(), mask=mask))
        fit = Fit(ds, aa.Array2D(values=model_nat[u].copy(), mask=mask), inversion=inversion, use_mask_in_fit=False, dataset_model=dm)
        observe_fit(acc, fit, ds, "slim", u, d_eff, d_raw, model_nat[u], noise_nat[u], 0, inv_ref)
        rep_all |= acc.finish()
        if hist and sky == hist["sky"] and hist.get("slim"):
            rep_all |= history(v, aa, "slim", mask, m, ds, fit, dm, d_eff, d_nat + sky, model_nat, noise_nat, "%s sky=%s" % (tag, sky),
                               hist["slim"], hist["salt"], inversion, inv_ref, reported)
        # ---- mask-in-fit mode, native-stored arrays, garbage in masked pixels
        acc = Acc(v, "mask-in-fit", "%s sky=%s mode=mask-in-fit" % (tag, sky), reported, floor=floor)
        clean_d = np.where(m, 0.0, d_nat + sky)
        clean_m = np.where(m, 0.0, model_nat)
        clean_s = np.where(m, 0.0, noise_nat)
        for j in range(4):
            gd, gm, gs = (g * gscale for g in garbage_triplet(j))
            ds = aa.Imaging(data=native_with_garbage(aa, mask, m, clean_d, gd), noise_map=native_with_garbage(aa, mask, m, clean_s, gs))
            fit = Fit(ds, native_with_garbage(aa, mask, m, clean_m, gm), inversion=inversion, use_mask_in_fit=True, dataset_model=dm)
            observe_fit(acc, fit, ds, "mask-in-fit", u, d_eff, d_raw, model_nat[u], noise_nat[u], "garbage(d,m,n)=%s" % ((gd, gm, gs),), inv_ref)
            if j == 0:
                ds0, fit0 = ds, fit
        rep_all |= acc.finish()
        if hist and sky == hist["sky"] and hist.get("mask-in-fit"):
            rep_all |= history(v, aa, "mask-in-fit", mask, m, ds0, fit0, dm, d_eff, d_nat + sky, model_nat, noise_nat, "%s sky=%s" % (tag, sky),
                               hist["mask-in-fit"], hist["salt"], inversion, inv_ref, reported)
        if own and sky == own["sky"]:
            rep_all |= own_mask_fits(v, aa, mask, m, dm, d_eff, d_raw, clean_d, model_nat, noise_nat, "%s sky=%s" % (tag, sky), own,
                                     inversion, inv_ref, reported, gscale, floor)
    return rep_all


# ----------------------------------------------------------------------------- cases


def run_case(case):
    import autoarray as aa

    v = V(ID)
    if case[0] == "plain":
        run_plain(aa, v, case)
    elif case[0] == "invu":
        # [.., object list, units, extra, seed]: the same dataset in other units, never the positive-only solver
        run_inv(aa, v, ["inv"] + list(case[1:7]) + [False] + list(case[8:]), units=float(case[7]), scaled=True)
    elif case[0] == "invk":
        # [.., object list, through preloads?, extra, seed]: dense regularization matrices, never the positive-only solver
        run_inv(aa, v, ["inv"] + list(case[1:7]) + [False] + list(case[8:]), dense=True, preload=bool(case[7]))
    else:
        run_inv(aa, v, case)
    return v.result()


def run_plain(aa, v, case):
    _, h, w, bits, seed = case
    m = dom.mask_from_bits(h, w, bits)
    u = ~m
    mask = aa.Mask2D(mask=m.copy(), pixel_scales=(1.0, 1.0))
    v.nontrivial = bool(m.any())
    flags = set()
    for menu in MENUS:
        d, mod, s = values(menu, h * w, bits, seed)
        d, mod, s = d.reshape(h, w), mod.reshape(h, w), s.reshape(h, w)
        if (d[u] == 0).any():
            flags.add("zero-data")
        if (d[u] < 0).any():
            flags.add("snr-clipped")
        if (d[u] == mod[u]).any():
            flags.add("zero-residual")
        # the two menus of a mask together cover {slim, mask-in-fit} x {own noise map + held maps, in-place edit}
        swap = (bits + MENUS.index(menu)) % 2 == 1
        hist = {"sky": SKIES[(bits + h) % 3], "salt": bits + w,
                "slim": ("edit",) if swap else ("own",), "mask-in-fit": ("own",) if swap else ("edit",)}
        own = {"sky": SKIES[(bits + h + 1 + MENUS.index(menu)) % 3], "salt": bits + MENUS.index(menu), "count": None}
        run_fits(v, aa, mask, m, d, mod, s, "menu=%s" % menu, hist=hist, own=own)
    v.outcome = "plain:n%d:%s" % (int(u.sum()), "+".join(sorted(flags)))


def logdet_equilibrated(A):
    """
    (sign, log det, tolerance) of a symmetric matrix with positive diagonal, as 2*sum(log d) + slogdet(D^-1 A D^-1) with
    d = sqrt(diag A): never forms a product that can leave the double range, and the tolerance is ld_tol of the
    equilibrated matrix (the accuracy of a Cholesky / LU log-determinant is governed by that condition number) plus the
    rounding of the sum of logs.
    """
    d = np.diag(A).astype(float)
    if A.size == 0:
        return 1.0, 0.0, LD_FLOOR
    if not (d > 0).all() or not np.isfinite(A).all():
        return 0.0, np.nan, np.inf
    d = np.sqrt(d)
    As = A / d[:, None] / d[None, :]
    sg, ld = np.linalg.slogdet(As)
    logs = 2.0 * np.log(d)
    return float(sg), float(ld + np.sum(logs)), ld_tol(As) + 8.0 * np.finfo(float).eps * float(np.sum(np.abs(logs)))


def triangle_spread(A):
    """
    log det of a matrix that is symmetric only to rounding is defined up to the choice of triangle (a Cholesky factor reads
    one of them, an LU both): the spread of log det over {A, lower triangle mirrored, upper triangle mirrored}. 0 if symmetric.
    """
    if A.size == 0 or not (A - A.T).any():
        return 0.0
    lo = np.tril(A) + np.tril(A, -1).T
    up = np.triu(A) + np.triu(A, 1).T
    with np.errstate(all="ignore"):
        lds = [logdet_equilibrated(X) for X in (A, lo, up)]
    if any(not (sg > 0) for sg, _, _ in lds):
        return np.inf
    return float(max(ld for _, ld, _ in lds) - min(ld for _, ld, _ in lds))


def run_inv(aa, v, case, units=1.0, scaled=False, dense=False, preload=False):
    """
    scaled: the dataset is expressed in `units` (see UNITS); every tolerance is then relative to the term's magnitude.
    dense: the list uses kernel / dense SPD schemes (see kernel_lists); preload: the regularization matrix those schemes give
    is handed to the inversion through preloads.regularization_matrix and the objects carry a Constant scheme instead.
    """
    _, frame, ks, bits, psf_kind, sub, (kinds, regs), positive, extra, seed = case
    fx = fix_inv.make_dataset(frame, ks, bits, psf_kind=psf_kind, seed=seed, sub=sub, units=units)
    m = fx["mask_bool"]
    u = ~m
    mask = fx["mask"]
    partial = any(regs) and not all(regs)
    v.nontrivial = len(kinds) >= 2 or partial
    tiny = any(isinstance(r, float) for r in regs)
    regtag = "".join(("R" if isinstance(r, bool) else ("t" if isinstance(r, float) else r[0][0].upper() + r[0][-1])) if r else "u" for r in regs)
    if scaled:
        regtag += "/units=%g" % units
    if dense:
        regtag = ",".join(("constant" if isinstance(r, bool) else "%s-%s%s" % (r[0], r[1], "" if r[0] == "dense" else "-%gsp" % r[2])) if r else "none"
                          for r in regs) + ("/through-preloads" if preload else "")
    # the diagonal added for unregularized parameters is a curvature (1 / units^2): scaled with the dataset
    diag = 1e-3 / units ** 2 if scaled else 1e-3
    floor = 0.0 if scaled else 1.0
    npix = bin(bits).count("1")

    def make_objs(f, placeholder=False):
        out = []
        for k, r in zip(kinds, regs):
            spacing = None
            if isinstance(r, list) and r[0] in ("gauss", "exp"):
                # the scale length is given in units of the mesh's lattice constant (read from a throw-away object)
                spacing = lattice_constant(np.array(fix_inv.make_obj(f, k, reg=True, seed=seed).source_plane_mesh_grid))
            regul = None if (placeholder and r) else make_reg(aa, r, units, spacing=spacing, seed=seed)
            out.append(fix_inv.make_obj(f, k, reg=reg_flag(r)[0], seed=seed, coefficient=reg_flag(r)[1], regularization=regul))
        return out

    objs0 = make_objs(fx)
    H_pre = None
    if preload:
        # the matrix the schemes give for these objects (zero blocks for unregularized ones), as computed in an earlier fit
        import scipy.linalg

        H_pre = scipy.linalg.block_diag(*[np.array(o.regularization_matrix, dtype=float) for o in objs0])
    B, widths = fix_inv.reference_B(fx, objs0)
    _, F_ref = fix_inv.normal_equations(B, fx["data"], fx["noise"])
    reg_idx, unreg_idx = [], []
    off = 0
    for wdt, r in zip(widths, regs):
        (reg_idx if r else unreg_idx).extend(range(off, off + wdt))
        off += wdt
    F_ref = F_ref.copy()
    F_ref[unreg_idx, unreg_idx] += diag
    outcomes = []

    for wt in (False, True):
        objs = make_objs(fx, placeholder=preload)  # fresh graph per inversion
        fxi = fix_inv.make_dataset(frame, ks, bits, psf_kind=psf_kind, seed=seed, sub=sub, units=units)
        st = fix_inv.settings(aa, wt, positive=positive, diag=diag)
        if preload:
            inv = aa.Inversion(dataset=fxi["ds"], linear_obj_list=objs, settings=st, preloads=aa.Preloads(regularization_matrix=H_pre.copy()))
        else:
            inv = aa.Inversion(dataset=fxi["ds"], linear_obj_list=objs, settings=st)
        fam = "wtilde" if isinstance(inv, aa.InversionImagingWTilde) else "mapping"
        tag = "%s/%s/%s%s" % (fam, "+".join(kinds), regtag, "/positive" if positive else "")
        try:
            s = np.array(inv.reconstruction, dtype=float)
            mapped = np.array(inv.mapped_reconstructed_data, dtype=float)
        except aa.exc.InversionException:
            outcomes.append(fam + ":inversion-exception")
            continue
        H = np.array(inv.regularization_matrix, dtype=float)
        n_par = B.shape[1]
        if H.shape != (n_par, n_par) or s.shape != (n_par,):
            v.fail("inversion:shapes", "%s H %s s %s params %d" % (tag, H.shape, s.shape, n_par))
            continue

        # ---- reference evidence terms on the matrices restricted to regularized parameters
        if reg_idx:
            ix = np.ix_(reg_idx, reg_idx)
            Hr = H[ix]
            sr = s[reg_idx]
            reg_term = float(sr @ Hr @ sr)
            FHr = (F_ref + H)[ix]
            if scaled or dense:
                sg1, ld_fh, tol_fh = logdet_equilibrated(FHr)
                sg2, ld_h, tol_h = logdet_equilibrated(Hr)
            else:
                sg1, ld_fh = np.linalg.slogdet(FHr)
                sg2, ld_h = np.linalg.slogdet(Hr)
            if sg1 <= 0 or sg2 <= 0:
                outcomes.append(fam + ":not-positive-definite")
                continue
            ld_fh, ld_h = float(ld_fh), float(ld_h)
            if dense:
                tol_fh += triangle_spread(FHr)
                tol_h += triangle_spread(Hr)
                if not max(tol_fh, tol_h) <= LD_DEFINED:
                    # e.g. all unmasked pixels in one row: the overlaid mesh has (nearly) coincident rows and the kernel
                    # covariance is singular to rounding - its log-determinant is not defined, nothing to compare
                    outcomes.append(fam + ":log-det-undefined-to-%g" % LD_DEFINED)
                    continue
            elif not scaled:
                tol_fh, tol_h = ld_tol(FHr), ld_tol(Hr)
            with np.errstate(all="ignore"):
                sgf, ld_fh_full = np.linalg.slogdet(F_ref + H)
                sgh, ld_h_full = np.linalg.slogdet(H)
        else:
            Hr = np.zeros((0, 0))
            FHr = np.zeros((0, 0))
            reg_term, ld_fh, ld_h = 0.0, 0.0, 0.0
            tol_fh = tol_h = LD_FLOOR
            ld_fh_full = ld_h_full = None

        # ---- the inversion's own terms
        try:
            o_reg = _scal(inv.regularization_term)
            o_fh = _scal(inv.log_det_curvature_reg_matrix_term)
            o_h = _scal(inv.log_det_regularization_matrix_term)
        except aa.exc.InversionException:
            v.fail("evidence-terms:InversionException", "%s reference determinants are positive (%s, %s)" % (tag, ld_fh, ld_h))
            continue
        reported = set()
        scale_r = max(1.0, abs(reg_term))
        tol_reg = 1e-9 * scale_r
        if dense and reg_idx:
            # entries of a kernel scheme's H reach 1e7 and cancel in s^T H s: rounding of the products, not of the result
            tol_reg += 16.0 * len(reg_idx) * np.finfo(float).eps * float(np.abs(sr) @ np.abs(Hr) @ np.abs(sr))
        if not v.ok(_close(o_reg, reg_term, tol_reg), "regularization_term",
                    lambda: "%s observed=%r expected s_r^T H_rr s_r=%r (full s^T H s=%r)" % (tag, o_reg, reg_term, float(s @ H @ s))):
            reported.add("regularization_term")

        def det_check(name, o, want, full, tol):
            if _close(o, want, tol):
                v.ok(True, name)
                return
            reported.add(name)
            # (an unreduced H has zero rows: -inf from a determinant; a NaN next to dense blocks is a factorisation's own failure)
            nonfinite = np.isinf(o) if dense else not np.isfinite(o)
            unreduced = partial and ((nonfinite and not scaled) or (full is not None and np.isfinite(full) and _close(o, float(full), tol)))
            cls = "log_evidence:determinant-not-reduced" if unreduced else name
            v.fail(cls, "%s %s observed=%r expected(reduced to regularized parameters)=%r unreduced=%r" % (tag, name, o, want, full))

        det_check("log_det_curvature_reg_matrix_term", o_fh, ld_fh, ld_fh_full, tol_fh)
        det_check("log_det_regularization_matrix_term", o_h, ld_h, ld_h_full, tol_h)

        # reduced matrices themselves (anchored :366 / :420)
        if reg_idx:
            Hr_o = np.array(inv.regularization_matrix_reduced, dtype=float)
            v.ok(_close(Hr_o, Hr, 0.0, floor), "regularization_matrix_reduced", lambda: "%s shape %s vs %s" % (tag, Hr_o.shape, Hr.shape))
            FHr_o = np.array(inv.curvature_reg_matrix_reduced, dtype=float)
            v.ok(FHr_o.shape == FHr.shape and np.allclose(FHr_o, FHr, rtol=1e-9, atol=1e-9 * max(floor, np.abs(FHr).max())),
                 "curvature_reg_matrix_reduced", lambda: "%s shape %s vs %s maxdiff=%s" % (tag, FHr_o.shape, FHr.shape, dom.maxdiff(FHr_o, FHr)))

        inv_ref = {"reg_term": reg_term, "ld_fh": ld_fh, "ld_h": ld_h, "obs": {"reg_term": o_reg, "ld_fh": o_fh, "ld_h": o_h},
                   "atol": 0.5 * (tol_fh + tol_h) + tol_reg}

        # ---- the fit: model image = mapped reconstruction (+ a fixed extra component), on the native frame
        model_nat = np.zeros(m.shape)
        model_nat[u] = mapped
        if extra:
            lab = np.arange(m.size, dtype=float).reshape(m.shape)
            model_nat = model_nat + np.where(u, 0.05 * ((lab * 3) % 5 - 2.0), 0.0) * units
        d_nat = np.zeros(m.shape)
        d_nat[u] = fx["data"]
        s_nat = np.ones(m.shape) * units
        s_nat[u] = fx["noise"]
        # second-fit history on the same dataset: once per formalism (slim for mapping, mask-in-fit for w-tilde), steps rotating
        step = ("own",) if (npix + len(kinds) + int(wt)) % 2 == 0 else ("edit",)
        hist = {"sky": SKIES[(npix + int(wt)) % 3], "salt": bits + len(kinds), ("mask-in-fit" if wt else "slim"): step}
        # structures under their own mask: one (rotating) member of the family per inversion case, in one of the two formalisms
        own = {"sky": SKIES[(npix + 1 + int(wt)) % 3], "salt": bits + len(kinds) + int(wt), "count": 1}
        if scaled:
            # one (rotating) sky level in the dataset's units, garbage in the dataset's units, no second-fit history
            sky_u = SKIES[(npix + len(kinds) + int(wt)) % 3] * units
            own["sky"] = sky_u
            run_fits(v, aa, mask, m, d_nat, model_nat, s_nat, tag, inversion=inv, inv_ref=inv_ref, reported=reported,
                     own=own, skies=[sky_u], gscale=units, floor=0.0)
        elif dense:
            # one (rotating) sky level, no second-fit history, the own-mask member in one of the two formalisms
            sky_k = SKIES[(npix + len(kinds) + int(wt)) % 3]
            own["sky"] = sky_k
            run_fits(v, aa, mask, m, d_nat, model_nat, s_nat, tag, inversion=inv, inv_ref=inv_ref, reported=reported,
                     own=own if (npix + len(kinds) + int(wt)) % 2 == 0 else None, skies=[sky_k])
        else:
            run_fits(v, aa, mask, m, d_nat, model_nat, s_nat, tag, inversion=inv, inv_ref=inv_ref, reported=reported, hist=hist,
                     own=own if (npix + len(kinds) + int(wt)) % 2 == 0 else None)
        outcomes.append("%s:%s" % (fam, "reg" if all(regs) else ("partial" if partial else "unreg")))
    v.outcome = "inv:L%d:%s:%s%s%s%s" % (len(kinds), "pos" if positive else "pn", "|".join(outcomes), ":tiny-coefficient" if tiny else "",
                                       ":other-units" if scaled else "", ":few-hundred-parameters" if "rectL" in kinds else "")
    if dense:
        v.outcome += ":dense-regularization%s" % ("-through-preloads" if preload else "")
