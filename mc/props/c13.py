"""C13 - direct Fourier transform, preloaded variant, adjoint and interferometer normal equations."""
import functools
import itertools

import numpy as np

from mc import dom, fix_inv
from mc.core import V

ID = "C13"
ENGINE = "scope"
CHUNK = 8
RULE = (
    "three completely enumerated case families: 'dft' = every boolean real-space mask (>=1 unmasked pixel) of every "
    "shape HxW with H*W <= bound x every geometry (pixel-scale pair, origin) of the menu, each run against all 7 "
    "baseline sets (single zero baseline, single generic, repeated, 2 generic, zero/conjugate/axis mix, 5 generic of "
    "all sign quadrants, integer-dtype) x preload on/off, with operator extraction on every image basis vector x "
    "{1,-2,5e-4}, dense signed / zero / native-stored images, mapping matrices (scaled basis columns, dense signed, "
    "dense positive, zero column, no columns, and three matrices with EXACT cancellations built from dyadic entries: "
    "columns summing to exactly 0.0 (+1/-1 dipoles on every cyclic neighbour pair - on every pixel pair for baseline set G2 -, "
    "the dipole scaled by -2 and 5e-4, 0.5/-0.25/-0.25 triples on every cyclic window, a dense (n-1,-1,..,-1)/8 column, "
    "all-zero columns and an ordinary column next to them; rows summing to 0.0 ([d,-d]); only the whole matrix summing "
    "to 0.0) and the adjoint on every visibility basis vector x {1, i, -1-2i} plus "
    "dense complex, plus two call histories inside the case: (i) one Visibilities object read (in_array, in_grid, "
    "ordered_1d, image_from), edited in place (integer index, slice, boolean mask, full slice) and read again after "
    "every edit, for K = 1, 2 and 5 visibilities; (ii) for masks with >=2 unmasked and >=1 masked pixel, three transformers with "
    "identical baselines built one after the other (same mask; same shape/scales/number of unmasked pixels at other "
    "positions; same pattern at another origin), each checked against the oracle of its own mask, and the first "
    "re-checked after the others were used; 'util' = the autoarray.util.transformer functions called directly on irregular (non-lattice) "
    "grids for every (n pixels, K baselines) in 1..4 x 1..4, each also with the baselines rounded to whole numbers and handed "
    "over as int64 / int32 / float32 arrays (tables, visibilities_jit on every basis image, transformed_mapping_matrix_jit, "
    "image_via_jit_from against the explicit DFT of the rounded baselines); 'inv' = every mask (>=2 unmasked pixels) of the stated "
    "frames x every ordered list of linear objects of the stated menu x preload on/off x (factory on a real "
    "Interferometer, InversionInterferometerMapping on a DatasetInterface). non-trivial = dft: >=2 unmasked pixels "
    "and >=1 masked pixel (slim order differs from native order); util: n>=2 and K>=2; inv: the list mixes object "
    "kinds or contains an unregularized or signed object. The inv family also contains (a) lists with the function list "
    "'funcZ' whose mapping-matrix columns cancel exactly (dipole, triple, all-zero, ordinary signed column) and "
    "(b) 'invu' = the same inversions on data sets in tiny / huge units: visibilities and complex noise map multiplied "
    "together by 10^e, e in {-12,-9,-6,-3,3,6,9,12}, reference Gram products formed from the scaled values, tolerance "
    "1e-9 x the largest Gram-product entry (no absolute floor; the unregularized-diagonal constant only widens the "
    "tolerance of its own entries). 'own' = every mask of the stated bound x 4 forms of the caller-owned baseline array "
    "(float64, float32, int64, float64 strided view of a larger table) x preload on/off: the array is edited IN PLACE "
    "after construction (one baseline zeroed; np.negative(out=) on the buffer; buffer refilled with the next baseline "
    "set) and after every edit tables, visibilities_from, transform_mapping_matrix and image_from must all be the "
    "DFT / adjoint of ONE baseline set (non-trivial: >= 2 unmasked pixels)"
)
ASSUMPTIONS = [
    "the transform, its adjoint and the mapping-matrix transform are (real-)linear in the image / visibilities / "
    "matrix, implemented as explicit loops over (pixel, baseline) pairs: every basis vector with coefficients "
    "{1,-2,5e-4} (unit, negative, small) plus dense signed vectors with an exact zero determine the operator entry by entry",
    "baseline values and image/matrix/visibility/noise values are drawn from seeded menus with phases of O(1) rad "
    "(never multiples of pi except for the explicit zero baseline); no thresholds are involved, so there are no "
    "floating-point tie cases",
    "each linear object's own mapping_matrix is taken as given (certified separately by C06)",
    "pylops.LinearOperator is replaced by a no-op stand-in base class (harness process only)",
    "transformers and visibilities share no state by specification; the runner forks a fresh process per chunk, so every "
    "history that could expose process-level or object-level caches (second transformer with equal baselines/shape/pixel "
    "count, in-place edit between two reads) is replayed inside a single case. amplitudes/phases are cached_property on "
    "the pinned tree (stale after an in-place edit; not part of the property's observables) and are only observed when "
    "first read after an edit",
    "caller-owned baseline array: the property defines the transformer as the DFT operator of 'a set of baselines' and "
    "demands that visibilities_from, transform_mapping_matrix and image_from are that operator, its column-wise form and "
    "its adjoint - i.e. of one and the same baseline set. It does not say whether the transformer owns a copy of the "
    "array it was given. The oracle therefore expects the baselines given at construction and accepts the current "
    "contents of the caller's array only if EVERY route (tables included) fits them in the same observation; a route "
    "fitting neither, or routes fitting different sets, is a violation",
    "exact cancellations: a sparsity shortcut of the column-wise transform can only depend on the matrix entries; all "
    "entries of the cancelling matrices are dyadic (or +-c), so the column / row / whole-matrix sums are exactly 0.0 in "
    "any accumulation order; the property is stated for real-valued matrices of any sign, so a zero-sum column is an "
    "ordinary input",
    "units: the property quantifies over all complex positive noise maps, so a data set rescaled by a power of ten is an "
    "ordinary input; D scales as 1/scale and F as 1/scale^2 (1e-24 .. 1e+24, far inside the double range), and the "
    "comparison is relative to the magnitude of the reference result",
]
BOUNDS = {
    "quick": "dft: all masks with <= 6 cells (all shapes incl. 1xN, Nx1) x 6 geometries (3 pixel-scale pairs x 2 "
             "origins), all masks with 7..8 cells x 3 geometries (one per pixel-scale pair, zero and non-zero origin) and "
             "all masks with exactly 9 cells (1x9, 3x3, 9x1) x 1 anisotropic off-origin geometry; 7 "
             "baseline sets (K = 1,1,3,2,4,5,2) x preload on/off each, in-place-edit history (4 edits) on baseline sets G1,G2,G5 (K=1,2,5), "
             "second-transformer history (T1,T2,T3,T1 again) on baseline sets G5 (preload) and G2 (no preload); util: n,K in 1..4; inv: all 3x3 masks with >= 2 "
             "unmasked pixels x a rotating fifth of the 50 ordered object lists (length 1..2 over rectA,rectB,del,func,"
             "funcS with regularization flags), every second 2x3/3x2 mask x a 4-list menu, every 7th 4x4 mask with <= 3 masked "
             "pixels x 1 list of that menu; each inv case = preload on/off x (factory on Interferometer, class on DatasetInterface); "
             "geometry, baseline set (G1,R3,M4,G5) and pixelization sub-size (1,2) rotate deterministically with the case index; "
             "cancelling lists: every 3x3 mask (>= 2 pixels) x 1 rotating list of the 4-list funcZ menu, every 2x3/3x2 mask x 1 list; "
             "units: every 3x3 mask x 2 exponents (one of -12,-9,-6,-3 and one of 3,6,9,12, rotating) x 1 rotating list of a "
             "5-list menu, every 2x3/3x2 mask x every second of the 8 exponents; own: all masks with <= 6 cells x 4 array forms x "
             "preload on/off x 3 in-place edits (K = 3 integer-valued baselines); util: cancelling columns on all pixel pairs; "
             "util: whole-number baselines as int64/int32/float32 for every n,K in 1..4",
    "thorough": "dft: all masks with <= 10 cells x 6 geometries plus all 3x4/4x3/2x6/6x2/1x12/12x1/1x11/11x1 masks x 1 geometry; "
                "util: n,K in 1..5; inv: all 3x3 masks (>= 2 pixels) x all 50 ordered lists + a length-3 menu, other frames as quick "
                "with all masks of 2x3/3x2; cancelling lists: every 3x3 mask x all 4 funcZ lists; units: every 3x3 mask x all 8 "
                "exponents x 2 lists, every 2x3/3x2 mask x all 8 exponents; own: all masks with <= 9 cells",
}

ARCSEC = np.pi / (180.0 * 3600.0)  # arc-seconds -> radians, from the definition of the units

GEOMS = [
    ((0.5, 0.5), (0.0, 0.0)),
    ((0.5, 0.5), (0.37, -0.81)),
    ((0.3, 0.7), (0.0, 0.0)),
    ((0.3, 0.7), (0.37, -0.81)),
    ((1.1, 0.2), (0.0, 0.0)),
    ((1.1, 0.2), (-0.6, 0.45)),
]
GENERAL_GEOM = 3
QUICK_GEOMS = (0, 3, 5)  # one geometry per pixel-scale pair, both origins represented

COEFFS = (1.0, -2.0, 5e-4)
VIS_COEFFS = (1.0 + 0.0j, 0.0 + 1.0j, -1.0 - 2.0j)

KINDS = fix_inv.OBJ_KINDS


# ----------------------------------------------------------------------------- reference model


def pixel_centres_radians(m, scales, origin):
    """(y, x) of every unmasked pixel centre, row-major, in radians; written from the definition of the geometry."""
    h, w = m.shape
    ys, xs = [], []
    for i in range(h):
        for j in range(w):
            if not m[i, j]:
                ys.append((origin[0] + ((h - 1) / 2.0 - i) * scales[0]) * ARCSEC)
                xs.append((origin[1] + (j - (w - 1) / 2.0) * scales[1]) * ARCSEC)
    return np.array(ys, dtype=float), np.array(xs, dtype=float)


def dft_matrix(y, x, uv):
    """A[k, p] = exp(-2 pi i (x_p u_k + y_p v_k))."""
    uv = np.asarray(uv, dtype=float)
    K, n = uv.shape[0], len(y)
    A = np.zeros((K, n), dtype=complex)
    for k in range(K):
        for p in range(n):
            A[k, p] = np.exp(-2.0j * np.pi * (x[p] * uv[k, 0] + y[p] * uv[k, 1]))
    return A


def adjoint_real(A, vis):
    """Re(A^H V)."""
    return np.real(np.conj(A).T @ np.asarray(vis, dtype=complex))


def normal_equations(T, d, sigma):
    """Noise-weighted real-plus-imaginary Gram products of a complex operated mapping matrix."""
    wr = 1.0 / np.real(sigma) ** 2
    wi = 1.0 / np.imag(sigma) ** 2
    Tr, Ti = np.real(T), np.imag(T)
    D = Tr.T @ (wr * np.real(d)) + Ti.T @ (wi * np.imag(d))
    F = Tr.T @ (wr[:, None] * Tr) + Ti.T @ (wi[:, None] * Ti)
    return D, F


def baseline_sets(seed):
    r = dom.rng(seed, "uv")
    mag = r.uniform(0.4e5, 3.0e5, size=(8, 2))
    sg = np.array([[1, 1], [-1, 1], [1, -1], [-1, -1], [1, -1], [-1, 1], [1, 1], [-1, -1]], dtype=float)
    b = mag * sg
    z = np.zeros(2)
    sets = [
        ("Z1", np.array([z])),
        ("G1", np.array([b[0]])),
        ("R3", np.array([b[1], b[2], b[1]])),
        ("G2", np.array([b[2], b[3]])),
        ("M4", np.array([z, b[4], -b[4], [0.0, abs(b[5, 0])]])),
        ("G5", np.array([b[0], b[1], b[2], b[3], b[6]])),
        ("I2", np.array([np.round(b[5]), np.round(b[7])]).astype("int64")),
    ]
    return sets


def near(a, b, scale=None):
    a = np.asarray(a)
    b = np.asarray(b)
    if a.shape != b.shape:
        return False
    if a.size == 0:
        return True
    if scale is None:
        scale = max(1.0, float(np.max(np.abs(b))))
    return bool(np.all(np.isfinite(a)) and np.max(np.abs(a - b)) <= 1e-9 * scale)


def classify_matrix(T, A, X):
    """None if T == A X; 'nonpositive-entries' if T == A max(X,0) and X has a negative entry; '' otherwise."""
    ref = A @ X
    sc = max(1.0, float(np.abs(A).sum(axis=1).max() if A.size else 1.0) * float(np.abs(X).max() if X.size else 1.0))
    if near(T, ref, sc):
        return None
    if (X < 0).any() and near(T, A @ np.maximum(X, 0.0), sc):
        return "nonpositive-entries"
    return ""


def cancelling_matrices(n, all_pairs=False):
    """Real-valued matrices with EXACT floating-point cancellations. Every entry is a small dyadic rational (or +-c for one
    coefficient c), so each stated sum is exactly 0.0 in whatever order it is accumulated.

    'cancelling-columns': every column sums to exactly 0.0 although it is not empty - dipoles e_p - e_q (cyclic
    neighbours in slim order, so every pixel carries +1 once and -1 once; all pairs p<q when `all_pairs`), the dipole
    scaled by the other coefficients of the alphabet (-2, 5e-4), 0.5/-0.25/-0.25 triples on every cyclic window,
    a dense column (n-1,-1,...,-1)/8 - with all-zero columns and one ordinary column next to them.
    'cancelling-rows': [d, -d] for a dense signed d: every row and the whole matrix sum to 0.0, no column does.
    'cancelling-whole': columns (1..n)/4 and -(n..1)/4: only the whole matrix sums to 0.0 (and the middle row for odd n)."""
    cols = [np.zeros(n)]
    if n >= 2:
        pairs = [(p, q) for p in range(n) for q in range(p + 1, n)] if all_pairs else [(p, (p + 1) % n) for p in range(n)]
        for (p, q) in pairs:
            e = np.zeros(n)
            e[p], e[q] = 1.0, -1.0
            cols.append(e)
        for c in COEFFS[1:]:
            e = np.zeros(n)
            e[0], e[n - 1] = c, -c
            cols.append(e)
        cols.append(np.zeros(n))
    cols.append(0.75 - 0.125 * (np.arange(n) % 3))  # an ordinary (non-cancelling) column between the special ones
    if n >= 3:
        for p in range(n):
            e = np.zeros(n)
            e[p], e[(p + 1) % n], e[(p + 2) % n] = 0.5, -0.25, -0.25
            cols.append(e)
    if n >= 2:
        e = -0.125 * np.ones(n)
        e[n // 2] = 0.125 * (n - 1)
        cols.append(e)
    cols.append(np.zeros(n))
    ccols = np.stack(cols, axis=1)
    d = np.where(np.arange(n) % 3 == 1, -1.0, 1.0) * (1.0 + (np.arange(n) * 3) % 5) / 8.0
    crows = np.stack([d, -d], axis=1)
    k = np.arange(1, n + 1, dtype=float)
    cwhole = np.stack([k / 4.0, -k[::-1] / 4.0], axis=1)
    return [("cancelling-columns", ccols), ("cancelling-rows", crows), ("cancelling-whole", cwhole)]


def func_cancelling(fx, reg):
    """Linear-function list 'funcZ' whose real mapping matrix has exactly cancelling columns: a +1/-1 dipole, a
    0.5/-0.25/-0.25 triple (a -2/+2 dipole when only 2 pixels are unmasked), an all-zero column and an ordinary signed one."""
    aa = fx["aa"]
    n = fx["n"]
    c0 = np.zeros(n)
    c0[0], c0[n - 1] = 1.0, -1.0
    c1 = np.zeros(n)
    if n >= 3:
        c1[n // 2], c1[(n // 2 + 1) % n], c1[(n // 2 + 2) % n] = 0.5, -0.25, -0.25
    else:
        c1[0], c1[1] = -2.0, 2.0
    c3 = np.where(np.arange(n) % 2 == 0, 1.0, -0.7) * (0.2 + (np.arange(n) * 3 % 5) / 5.0)
    mm = np.stack([c0, c1, np.zeros(n), c3], axis=1)
    return fix_inv.func_list_cls()(grid=fx["ds"].grids.uniform, mapping_matrix=mm,
                                   regularization=aa.reg.Constant(coefficient=1.0) if reg else None)


def make_obj(fx, kind, reg, seed):
    if kind == "funcZ":
        return func_cancelling(fx, reg)
    return fix_inv.make_obj(fx, kind, reg=reg, seed=seed)


# ----------------------------------------------------------------------------- enumeration


def obj_lists():
    """Every ordered list of 1..2 distinct object kinds with regularization-flag patterns (50 lists)."""
    out = []
    for L in (1, 2):
        for kinds in itertools.permutations(KINDS, L):
            if L == 1:
                regs = [(True,), (False,)]
            else:
                regs = [(True, True), (True, False)]
                if kinds[0].startswith("func"):
                    regs = [(False, True), (True, True)]
            for rg in regs:
                out.append([list(kinds), list(rg)])
    return out


LEN3_MENU = [
    [["rectA", "funcS", "del"], [True, False, True]],
    [["funcS", "rectB", "rectA"], [False, True, True]],
    [["del", "rectA", "rectB"], [True, True, False]],
    [["rectB", "del", "func"], [True, False, False]],
]
SMALL_MENU = [
    [["rectA"], [True]],
    [["funcS", "rectB"], [False, True]],
    [["del", "func"], [True, False]],
    [["rectB", "funcS"], [True, True]],
]
# lists containing the exactly-cancelling function list 'funcZ' (see func_cancelling)
CANCEL_MENU = [
    [["funcZ"], [False]],
    [["funcZ", "rectA"], [True, True]],
    [["rectB", "funcZ"], [True, False]],
    [["funcZ", "funcS"], [False, True]],
]
# data sets stored in tiny / huge units: visibilities and complex noise map multiplied together by 10**e
UNIT_EXPS_SMALL = (-12, -9, -6, -3)
UNIT_EXPS_LARGE = (3, 6, 9, 12)
UNIT_MENU = SMALL_MENU + CANCEL_MENU[:1]
OWN_FORMS = ("float64", "float32", "int64", "float64-view")


def cases(tier, seed):
    quick = tier == "quick"
    # ---- util functions on irregular grids
    nk = 4 if quick else 5
    for n in range(1, nk + 1):
        for K in range(1, nk + 1):
            yield ["util", n, K, seed]
    # ---- transformer on every mask
    cells = 8 if quick else 10
    for (h, w, bits) in dom.all_mask_cases(cells):
        for g in range(len(GEOMS)):
            if quick and h * w > 6 and g not in QUICK_GEOMS:
                continue
            yield ["dft", h, w, bits, g, seed]
    extra = [(1, 9), (3, 3), (9, 1)] if quick else [(1, 11), (11, 1), (1, 12), (2, 6), (3, 4), (4, 3), (6, 2), (12, 1)]
    for (h, w) in extra:
        for bits in range(2 ** (h * w) - 1):
            yield ["dft", h, w, bits, GENERAL_GEOM, seed]
    # ---- interferometer normal equations
    lists = obj_lists()
    nsets = 4
    for bits in range(2 ** 9 - 1):
        if 9 - bin(bits).count("1") < 2:
            continue
        for k, ol in enumerate(lists):
            if quick and (k + bits) % 5 != 0:
                continue  # quick: every mask with a rotating fifth of the list menu (each list meets ~100 masks)
            yield ["inv", 3, 3, bits, (bits + k) % len(GEOMS), (bits // 5 + k) % nsets, 1 + (k // 5 + bits) % 2, ol, seed]
        if not quick and bits % 2 == 0:
            for k, ol in enumerate(LEN3_MENU):
                yield ["inv", 3, 3, bits, (bits + k) % len(GEOMS), (bits + k) % nsets, 2, ol, seed]
    for (h, w) in ((2, 3), (3, 2)):
        for bits in range(2 ** (h * w) - 1):
            if h * w - bin(bits).count("1") < 2 or (quick and bits % 2):
                continue
            for k, ol in enumerate(SMALL_MENU):
                yield ["inv", h, w, bits, (bits + k) % len(GEOMS), (bits + k) % nsets, 1 + (bits + k) % 2, ol, seed]
    for bits in range(2 ** 16 - 1):
        if bin(bits).count("1") > 3 or (quick and bits % 7):
            continue
        k = bits % len(SMALL_MENU)
        yield ["inv", 4, 4, bits, bits % len(GEOMS), bits % nsets, 1 + bits % 2, SMALL_MENU[k], seed]
    # ---- exactly cancelling signed mapping-matrix columns through the normal equations
    for bits in range(2 ** 9 - 1):
        if 9 - bin(bits).count("1") < 2:
            continue
        for k, ol in enumerate(CANCEL_MENU):
            if quick and (k + bits) % len(CANCEL_MENU) != 0:
                continue  # quick: every mask with one list of the menu, rotating
            yield ["inv", 3, 3, bits, (bits + k) % len(GEOMS), (bits // 3 + k) % nsets, 1 + (k + bits) % 2, ol, seed]
    for (h, w) in ((2, 3), (3, 2)):
        for bits in range(2 ** (h * w) - 1):
            if h * w - bin(bits).count("1") < 2:
                continue
            k = bits % len(CANCEL_MENU)
            yield ["inv", h, w, bits, (bits + k) % len(GEOMS), (bits + k) % nsets, 1 + (bits + k) % 2, CANCEL_MENU[k], seed]
    # ---- data sets in tiny / huge units (visibilities and noise map scaled together by 10**e)
    for bits in range(2 ** 9 - 1):
        if 9 - bin(bits).count("1") < 2:
            continue
        if quick:
            exps = (UNIT_EXPS_SMALL[bits % 4], UNIT_EXPS_LARGE[(bits // 4) % 4])
        else:
            exps = UNIT_EXPS_SMALL + UNIT_EXPS_LARGE
        for j, e in enumerate(exps):
            for k in ((bits + j) % len(UNIT_MENU),) if quick else ((bits + j) % len(UNIT_MENU), (bits + j + 2) % len(UNIT_MENU)):
                yield ["invu", 3, 3, bits, (bits + j) % len(GEOMS), (bits // 2 + j) % nsets, 1 + (bits + j) % 2, UNIT_MENU[k], e, seed]
    for (h, w) in ((2, 3), (3, 2)):
        for bits in range(2 ** (h * w) - 1):
            if h * w - bin(bits).count("1") < 2:
                continue
            for j, e in enumerate(UNIT_EXPS_SMALL + UNIT_EXPS_LARGE):
                if quick and (bits + j) % 2:
                    continue
                k = (bits + j) % len(UNIT_MENU)
                yield ["invu", h, w, bits, (bits + j) % len(GEOMS), (bits + j) % nsets, 1 + (bits + j) % 2, UNIT_MENU[k], e, seed]
    # ---- caller-owned baseline array edited in place after the transformer was constructed
    for (h, w, bits) in dom.all_mask_cases(6 if quick else 9):
        yield ["own", h, w, bits, (bits + h) % len(GEOMS), seed]


# ----------------------------------------------------------------------------- run


def run_case(case):
    import autoarray as aa

    v = V(ID)
    if case[0] == "dft":
        run_dft(aa, v, *case[1:])
    elif case[0] == "util":
        run_util(aa, v, *case[1:])
    elif case[0] == "inv":
        run_inv(aa, v, *case[1:])
    elif case[0] == "invu":
        run_inv(aa, v, *case[1:8], case[9], scale=10.0 ** case[8])
    elif case[0] == "own":
        run_own(aa, v, *case[1:])
    else:
        raise ValueError(case[0])
    return v.result()


def _ptag(pre):
    return "preload" if pre else "no-preload"


def check_matrix(v, T, A, X, site, where, site_nonpos):
    """Record one mapping-matrix observation under `site` (`site_nonpos` when only the non-positive entries were dropped)."""
    T = np.asarray(T)
    if T.shape != (A.shape[0], X.shape[1]):
        v.ok(False, site, lambda: "%s: shape %s, expected %s" % (where, T.shape, (A.shape[0], X.shape[1])))
        return
    c = classify_matrix(T, A, X)
    if c is None:
        v.ok(True, site)
    elif c:
        v.ok(False, site_nonpos, lambda: "%s: result equals the operator applied to max(X,0); maxdiff to A.X = %s; X=%s" % (
            where, dom.maxdiff(T, A @ X), np.round(X, 4).tolist()[:6]))
    else:
        v.ok(False, site, lambda: "%s: maxdiff=%s got=%s want=%s" % (where, dom.maxdiff(T, A @ X), T.ravel()[:4], (A @ X).ravel()[:4]))


def run_dft(aa, v, h, w, bits, g, seed):
    m = dom.mask_from_bits(h, w, bits)
    scales, origin = GEOMS[g]
    n = int((~m).sum())
    y, x = pixel_centres_radians(m, scales, origin)
    v.nontrivial = n >= 2 and bool(m.any())
    v.outcome = "dft:%dx%d:n%d" % (h, w, n)
    r = dom.rng(seed, "dftvals", h, w, bits)

    # ---- value menus
    dense = np.where(np.arange(n) % 3 == 1, -1.0, 1.0) * (0.3 + r.uniform(size=n))
    if n >= 3:
        dense[n // 2] = 0.0
    images = [("dense", dense), ("zero", np.zeros(n))]
    for p in range(n):
        for c in COEFFS:
            e = np.zeros(n)
            e[p] = c
            images.append(("basis[%d]*%g" % (p, c), e))
    basis_cols = np.concatenate([c * np.eye(n) for c in COEFFS], axis=1)
    dsig = np.where((np.arange(n * 3).reshape(n, 3) * 5 + bits) % 4 == 0, -1.0, 1.0) * (0.2 + r.uniform(size=(n, 3)))
    dsig[0, 1] = 0.0
    dsig[n - 1, 0] = -abs(dsig[n - 1, 0]) - 0.1
    dpos = 0.1 + r.uniform(size=(n, 2))
    zcol = np.stack([np.zeros(n), 0.5 + r.uniform(size=n)], axis=1)
    matrices = [("basis-columns", basis_cols), ("dense-signed", dsig), ("dense-positive", dpos), ("zero-column", zcol),
                ("no-columns", np.zeros((n, 0)))]
    matrices += cancelling_matrices(n)
    pair_matrices = [("cancelling-columns:all-pairs", cancelling_matrices(n, all_pairs=True)[0][1])] if n >= 3 else []

    def native_of(vals):
        nat = np.zeros((h, w))
        nat[~m] = vals
        return nat

    for sname, uv in baseline_sets(seed):
        K = uv.shape[0]
        A = dft_matrix(y, x, uv)
        rowsum = float(n)
        vis_menu = []
        for k in range(K):
            for c in VIS_COEFFS:
                e = np.zeros(K, dtype=complex)
                e[k] = c
                vis_menu.append(("basis[%d]*%s" % (k, c), e))
        dv = (r.normal(size=K) + 1j * r.normal(size=K)) * np.where(np.arange(K) % 2 == 0, 1.0, -1.5)
        vis_menu.append(("dense", dv))
        results = {}
        for pre in (True, False):
            tag = "%s/%s" % (sname, _ptag(pre))
            mask = aa.Mask2D(mask=m.copy(), pixel_scales=scales, origin=origin)
            t = aa.TransformerDFT(uv_wavelengths=uv.copy(), real_space_mask=mask, preload_transform=pre)
            if pre:
                pr, pi_ = np.asarray(t.preload_real_transforms), np.asarray(t.preload_imag_transforms)
                v.ok(near(pr, np.real(A).T, 1.0) and near(pi_, np.imag(A).T, 1.0), "preload-tables",
                     lambda: "%s cos maxdiff=%s sin maxdiff=%s" % (tag, dom.maxdiff(pr, np.real(A).T), dom.maxdiff(pi_, np.imag(A).T)))
            # ---- forward transform
            for iname, vals in images:
                img = aa.Array2D(values=vals.copy(), mask=mask)
                out = t.visibilities_from(image=img)
                got = np.array(out)
                ref = A @ vals
                sc = max(1.0, rowsum * float(np.abs(vals).max()))
                v.ok(isinstance(out, aa.Visibilities) and near(got, ref, sc), "visibilities_from:%s" % _ptag(pre),
                     lambda: "%s image=%s got=%s want=%s" % (tag, iname, got[:3], ref[:3]))
                results[("vis", iname, pre)] = got
            # ---- images stored in native form
            for iname, vals in images[:3:2]:  # dense and first basis image
                imgn = aa.Array2D(values=native_of(vals), mask=mask, store_native=True)
                ref = results[("vis", iname, pre)]  # what the same transformer returns for the same image stored in slim form
                try:
                    got = np.array(t.visibilities_from(image=imgn))
                    good = near(got, ref, max(1.0, rowsum * float(np.abs(vals).max())))
                    msg = "%s image=%s (store_native=True) got=%s, slim-stored image gives %s" % (tag, iname, got[:3], ref[:3])
                except Exception as e:  # noqa: BLE001 - any failure on a valid image is the finding
                    good = False
                    msg = "%s image=%s (store_native=True) raised %r" % (tag, iname, e)
                v.ok(good, "visibilities_from:native-stored-image:%s" % _ptag(pre), msg)
            # ---- mapping matrices
            for mname, X in matrices + (pair_matrices if sname == PAIR_SET else []):
                T = t.transform_mapping_matrix(mapping_matrix=X.copy())
                check_matrix(v, T, A, X, "transform_mapping_matrix:%s" % _ptag(pre), "%s matrix=%s" % (tag, mname),
                             "transform_mapping_matrix:nonpositive-entries:%s" % _ptag(pre))
                results[("tmm", mname, pre)] = np.asarray(T)
            # ---- adjoint
            for vname, vv in vis_menu:
                vis = aa.Visibilities(visibilities=vv.copy())
                im = t.image_from(visibilities=vis)
                ref = adjoint_real(A, vv)
                sc = max(1.0, K * float(np.abs(vv).max()))
                got = np.array(im.slim) if isinstance(im, aa.Array2D) else np.asarray(im)
                v.ok(isinstance(im, aa.Array2D) and near(got, ref, sc), "image_from:adjoint",
                     lambda: "%s vis=%s got=%s want=%s" % (tag, vname, got[:3], ref[:3]))
                if vname == "dense" and isinstance(im, aa.Array2D):
                    v.ok(dom.exact(np.array(im.native), native_of(got)) and dom.exact(np.array(im.mask), m), "image_from:native-layout",
                         lambda: "%s native=%s" % (tag, np.array(im.native).tolist()))
            # two-column (real, imag) form of the same visibilities
            vis2 = aa.Visibilities(visibilities=np.stack([dv.real, dv.imag], axis=1))
            v.ok(dom.exact(np.array(vis2), dv) and dom.exact(np.asarray(vis2.in_array), np.stack([dv.real, dv.imag], axis=1)),
                 "Visibilities:two-column-form", lambda: "%s %s vs %s" % (tag, np.array(vis2), dv))
            im2 = t.image_from(visibilities=vis2)
            v.ok(near(np.array(im2.slim), adjoint_real(A, dv), max(1.0, K * float(np.abs(dv).max()))), "image_from:adjoint",
                 lambda: "%s two-column visibilities" % tag)
            # ---- one Visibilities object edited in place between two adjoint calls (once per baseline set)
            if pre and sname in EDIT_SETS:
                check_inplace_edits(aa, v, t, A, dv, sname)
        # ---- with == without preload
        for key in [k for k in results if k[2] is True]:
            a, b = results[key], results.get((key[0], key[1], False))
            if b is None:
                continue
            site = "visibilities_from:preload-differs" if key[0] == "vis" else "transform_mapping_matrix:preload-differs"
            v.ok(near(a, b), site, lambda: "%s %s: maxdiff=%s" % (sname, key[1], dom.maxdiff(a, b)))
    # ---- several transformers with identical baselines alive in this one process
    if v.nontrivial:
        run_second_transformers(aa, v, m, scales, origin, seed)


def partner_mask(m):
    """A mask of the same shape and the same number of unmasked pixels whose unmasked positions differ (point reflection,
    else a cyclic shift of the row-major cell sequence, which moves every non-constant pattern)."""
    for cand in (m[::-1, ::-1], np.roll(m.ravel(), 1).reshape(m.shape)):
        if not np.array_equal(cand, m):
            return np.ascontiguousarray(cand)
    return None


PAIR_SET = "G2"  # baseline set on which the dipole columns of ALL pixel pairs are transformed (the others: cyclic neighbours)
EDIT_SETS = ("G1", "G2", "G5")  # K = 1, 2, 5 visibilities (the edits do not depend on the baseline values)
SECOND_SETS = (("G5", (True,)), ("G2", (False,)))
SECOND = "second-transformer-same-process"


def run_second_transformers(aa, v, m, scales, origin, seed):
    """History inside ONE case: transformers built one after the other in the same process with IDENTICAL baselines on
    real-space masks that agree in shape, pixel scales and number of unmasked pixels but not in the unmasked positions
    (T2) or not in the mask origin (T3). Every transformer must satisfy the explicit-DFT oracle of ITS OWN mask, and the
    first one must still do so after the later ones were built and used. A failure of T2/T3/T1-again while the first,
    freshly built T1 passed is classed '<site>:second-transformer-same-process'; if T1 itself fails the plain class is used."""
    h, w = m.shape
    n = int((~m).sum())
    m2 = partner_mask(m)
    origin3 = (origin[0] + 0.45, origin[1] - 0.3)
    specs = [("T1", m, origin), ("T2:same-count-other-positions", m2, origin), ("T3:same-pattern-other-origin", m, origin3)]
    r = dom.rng(seed, "dft2nd", h, w)
    vals = np.where(np.arange(n) % 2 == 0, 1.0, -1.3) * (0.4 + r.uniform(size=n))
    X = np.where((np.arange(n * 2).reshape(n, 2) % 3) == 1, -1.0, 1.0) * (0.2 + r.uniform(size=(n, 2)))
    sets = dict(baseline_sets(seed))
    for sname, pres in SECOND_SETS:
        uv = sets[sname]
        K = uv.shape[0]
        vv = (r.normal(size=K) + 1j * r.normal(size=K))
        for pre in pres:
            pt = _ptag(pre)
            first_ok = [True]
            built = []

            def observe(label, t, A, is_first):
                def rec(cond, site, msg):
                    if is_first:
                        if not cond:
                            first_ok[0] = False
                        v.ok(cond, site, msg)
                    else:
                        v.ok(cond, ("%s:%s" % (site, SECOND)) if first_ok[0] else site, msg)

                where = "%s/%s %s" % (sname, pt, label)
                if pre:
                    pr, pi_ = np.asarray(t.preload_real_transforms), np.asarray(t.preload_imag_transforms)
                    rec(near(pr, np.real(A).T, 1.0) and near(pi_, np.imag(A).T, 1.0), "preload-tables",
                        lambda: "%s: tables differ from the cos/sin tables of this transformer's own mask (cos maxdiff=%s)" % (
                            where, dom.maxdiff(pr, np.real(A).T)))
                got = np.array(t.visibilities_from(image=aa.Array2D(values=vals.copy(), mask=t.real_space_mask)))
                ref = A @ vals
                rec(near(got, ref, max(1.0, n * float(np.abs(vals).max()))), "visibilities_from:%s" % pt,
                    lambda: "%s: got=%s want=%s (oracle of its own mask)" % (where, got[:3], ref[:3]))
                T = np.asarray(t.transform_mapping_matrix(mapping_matrix=X.copy()))
                rec(T.shape == (K, 2) and near(T, A @ X, max(1.0, n * float(np.abs(X).max()))), "transform_mapping_matrix:%s" % pt,
                    lambda: "%s: maxdiff to A.X of its own mask = %s" % (where, dom.maxdiff(T, A @ X)))
                if pre:
                    return  # the adjoint does not use the tables; it is observed in the no-preload history
                im = t.image_from(visibilities=aa.Visibilities(visibilities=vv.copy()))
                refi = adjoint_real(A, vv)
                rec(near(np.array(im.slim), refi, max(1.0, K * float(np.abs(vv).max()))) and dom.exact(np.array(im.mask), np.array(t.real_space_mask)),
                    "image_from:adjoint", lambda: "%s: got=%s want=%s" % (where, np.array(im.slim)[:3], refi[:3]))

            for label, mm, org in specs:
                mask = aa.Mask2D(mask=mm.copy(), pixel_scales=scales, origin=org)
                t = aa.TransformerDFT(uv_wavelengths=uv.copy(), real_space_mask=mask, preload_transform=pre)
                yy, xx = pixel_centres_radians(mm, scales, org)
                A = dft_matrix(yy, xx, uv)
                built.append((label, t, A))
                observe(label, t, A, label == "T1")
            # the first transformer again, after the later ones were built and used
            observe("T1 re-used after T2,T3", built[0][1], built[0][2], False)


def check_inplace_edits(aa, v, t, A, dv, sname):
    """History inside ONE case: a Visibilities object is read (in_array / in_grid / ordered_1d, image_from), then edited IN
    PLACE (integer index, slice, boolean mask, full slice) and read again. Every read must reflect the CURRENT values.
    amplitudes / phases are cached_property on the pinned tree and are only observed on an object on which they were
    never read before the edit (first read after the edit)."""
    K = len(dv)
    cur = dv.copy()
    vis = aa.Visibilities(visibilities=dv.copy())
    AFTER = ":after-in-place-edit-of-visibilities"

    def observe(step, sfx):
        where = "%s %s" % (sname, step)
        a = np.array(vis)
        v.ok(dom.exact(a, cur), "Visibilities:in-place-edit:values" if sfx else "Visibilities:values",
             lambda: "%s: values %s, expected %s" % (where, a, cur))
        two = np.stack([cur.real, cur.imag], axis=-1)
        ia = np.asarray(vis.in_array)
        v.ok(dom.exact(ia, two), "Visibilities.in_array" + sfx, lambda: "%s: in_array=%s current values=%s" % (where, ia.tolist(), two.tolist()))
        ig = np.asarray(vis.in_grid)
        v.ok(dom.exact(ig, two), "Visibilities.in_grid" + sfx, lambda: "%s: in_grid=%s current values=%s" % (where, ig.tolist(), two.tolist()))
        o1 = np.asarray(vis.ordered_1d)
        v.ok(dom.exact(o1, np.concatenate([cur.real, cur.imag])), "Visibilities.ordered_1d" + sfx,
             lambda: "%s: ordered_1d=%s current values=%s" % (where, o1.tolist(), cur))
        im = t.image_from(visibilities=vis)
        ref = adjoint_real(A, cur)
        got = np.array(im.slim)
        v.ok(near(got, ref, max(1.0, K * float(np.abs(cur).max()))), ("image_from" + sfx) if sfx else "image_from:adjoint",
             lambda: "%s: image_from gives %s, adjoint of the CURRENT visibilities %s is %s" % (where, got[:3], cur, ref[:3]))

    observe("before any edit", "")
    i = K // 2
    vis[i] = 0
    cur[i] = 0
    observe("after vis[%d] = 0" % i, AFTER)
    hi = (K + 1) // 2
    new = (np.arange(hi) + 1.0) * (0.75 - 1.25j)
    vis[0:hi] = new.copy()
    cur[0:hi] = new
    observe("after vis[0:%d] = array" % hi, AFTER)
    key = np.arange(K) % 2 == 0
    vis[key.copy()] = 0.5 - 1.5j
    cur[key] = 0.5 - 1.5j
    observe("after vis[boolean mask] = scalar", AFTER)
    vis[:] = dv.copy()
    cur[:] = dv
    observe("after vis[:] = original values", AFTER)
    # amplitudes / phases read for the FIRST time after an edit
    vis2 = aa.Visibilities(visibilities=dv.copy())
    vis2[i] = -2.0 + 0.5j
    c2 = dv.copy()
    c2[i] = -2.0 + 0.5j
    amp, ph = np.asarray(vis2.amplitudes), np.asarray(vis2.phases)
    v.ok(near(amp, np.abs(c2)) and near(ph, np.angle(c2), np.pi), "Visibilities.amplitudes-phases:first-read-after-in-place-edit",
         lambda: "%s: amplitudes=%s phases=%s for current values %s" % (sname, amp, ph, c2))


def own_baselines(seed):
    """Two integer-valued baseline sets of 3 baselines (exactly representable as int64, float32 and float64)."""
    b = [u for name, u in baseline_sets(seed) if name == "G5"][0]
    B0 = np.round(np.array([b[0], b[1], b[3]]))
    B1 = np.round(np.array([b[2], -b[4], 0.5 * b[1]]))
    return B0, B1


def run_own(aa, v, h, w, bits, g, seed):
    """History inside ONE case: the array passed as uv_wavelengths stays in the caller's hands and is edited / re-used IN
    PLACE after the transformer was constructed (one baseline zeroed, sign flip by an in-place ufunc, buffer refilled
    with the next baseline set), for caller arrays of dtype float64, float32, int64 and a float64 strided view, preload
    on/off. After every edit all routes of the transformer (tables, visibilities_from, transform_mapping_matrix,
    image_from) must be the DFT / adjoint of ONE baseline set: the values the array had at construction, or - only if
    every route agrees on it - the values it holds now."""
    m = dom.mask_from_bits(h, w, bits)
    scales, origin = GEOMS[g]
    n = int((~m).sum())
    y, x = pixel_centres_radians(m, scales, origin)
    v.nontrivial = n >= 2
    v.outcome = "own:%dx%d:n%d" % (h, w, n)
    r = dom.rng(seed, "own", h, w, bits)
    B0, B1 = own_baselines(seed)
    K = B0.shape[0]
    vals = np.where(np.arange(n) % 2 == 0, 1.0, -1.3) * (0.4 + r.uniform(size=n))
    X = np.where((np.arange(n * 2).reshape(n, 2) % 3) == 1, -1.0, 1.0) * (0.2 + r.uniform(size=(n, 2)))
    vv = (r.normal(size=K) + 1j * r.normal(size=K)) + (0.5 - 0.25j)
    SFX = ":after-caller-edit-of-baselines"
    for form in OWN_FORMS:
        for pre in (True, False):
            if form == "float64-view":
                parent = np.zeros((2 * K, 2))
                parent[::2] = B0
                parent[1::2] = -7.0
                caller = parent[::2]  # the caller's baselines are every second row of a larger table
            else:
                caller = B0.astype(form)
            built = np.array(caller, dtype=float)  # what the caller handed over, at the time of construction
            mask = aa.Mask2D(mask=m.copy(), pixel_scales=scales, origin=origin)
            t = aa.TransformerDFT(uv_wavelengths=caller, real_space_mask=mask, preload_transform=pre)
            A_built = dft_matrix(y, x, built)
            tag = "%s/%s" % (form, _ptag(pre))

            def observe(step, edited):
                cands = [("the baselines given at construction", A_built)]
                now = np.array(caller, dtype=float)
                if edited and not np.array_equal(now, built):
                    cands.append(("the current contents of the caller's array", dft_matrix(y, x, now)))
                routes = []
                if pre:
                    pr, pi_ = np.asarray(t.preload_real_transforms), np.asarray(t.preload_imag_transforms)
                    routes.append(("preload-tables", [near(pr, np.real(A).T, 1.0) and near(pi_, np.imag(A).T, 1.0) for _, A in cands]))
                got = np.array(t.visibilities_from(image=aa.Array2D(values=vals.copy(), mask=mask)))
                routes.append(("visibilities_from:%s" % _ptag(pre), [near(got, A @ vals, max(1.0, n * float(np.abs(vals).max()))) for _, A in cands]))
                T = np.asarray(t.transform_mapping_matrix(mapping_matrix=X.copy()))
                routes.append(("transform_mapping_matrix:%s" % _ptag(pre),
                               [T.shape == (K, 2) and near(T, A @ X, max(1.0, n * float(np.abs(X).max()))) for _, A in cands]))
                im = t.image_from(visibilities=aa.Visibilities(visibilities=vv.copy()))
                gi = np.array(im.slim)
                routes.append(("image_from:adjoint", [near(gi, adjoint_real(A, vv), max(1.0, K * float(np.abs(vv).max()))) for _, A in cands]))
                where = "%s %s" % (tag, step)
                for site, fits in routes:
                    v.ok(any(fits), site + (SFX if edited else ""),
                         lambda: "%s: %s is the transform of neither the construction-time nor the current baselines" % (where, site))
                if edited and all(any(f) for _, f in routes):
                    v.ok(any(all(f[c] for _, f in routes) for c in range(len(cands))), "baselines-edited-in-place:routes-disagree",
                         lambda: "%s: the transformer is no longer one operator: %s" % (
                             where, "; ".join("%s fits %s" % (site, " and ".join(cands[c][0] for c in range(len(cands)) if f[c])) for site, f in routes)))

            observe("after construction", False)
            target = parent if form == "float64-view" else caller
            step = 2 if form == "float64-view" else 1
            target[(K // 2) * step] = 0
            observe("after uv[%d] = 0 (in place)" % (K // 2), True)
            np.negative(target, out=target)
            observe("after np.negative(uv, out=uv)", True)
            target[::step] = B1.astype(target.dtype)
            observe("after uv[:] = next baseline set (buffer re-used)", True)


def run_util(aa, v, n, K, seed):
    tu = aa.util.transformer
    r = dom.rng(seed, "util", n, K)
    v.nontrivial = n >= 2 and K >= 2
    v.outcome = "util:n%d:K%d" % (n, K)
    grid = r.uniform(-2.0, 2.0, size=(n, 2)) * ARCSEC  # irregular (y, x) positions in radians
    uv = r.uniform(0.3e5, 3e5, size=(K, 2)) * np.where(r.uniform(size=(K, 2)) < 0.5, -1.0, 1.0)
    if K >= 3:
        uv[K - 1] = uv[0]  # repeated baseline
    if K >= 2:
        uv[1] = 0.0  # zero baseline
    A = dft_matrix(grid[:, 0], grid[:, 1], uv)
    pr = tu.preload_real_transforms(grid_radians=grid.copy(), uv_wavelengths=uv.copy())
    pi_ = tu.preload_imag_transforms(grid_radians=grid.copy(), uv_wavelengths=uv.copy())
    v.ok(near(pr, np.real(A).T, 1.0) and near(pi_, np.imag(A).T, 1.0), "preload-tables",
         lambda: "util cos maxdiff=%s sin maxdiff=%s" % (dom.maxdiff(pr, np.real(A).T), dom.maxdiff(pi_, np.imag(A).T)))
    tabr, tabi = np.real(A).T.copy(), np.imag(A).T.copy()  # reference tables: each function is judged on its own
    images = [np.where(np.arange(n) % 2 == 0, 1.0, -1.0) * (0.2 + r.uniform(size=n))]
    for p in range(n):
        for c in COEFFS:
            e = np.zeros(n)
            e[p] = c
            images.append(e)
    for vals in images:
        ref = A @ vals
        sc = max(1.0, n * float(np.abs(vals).max()))
        got = tu.visibilities_via_preload_jit_from(image_1d=vals.copy(), preloaded_reals=tabr, preloaded_imags=tabi)
        v.ok(near(got, ref, sc), "visibilities_from:preload", lambda: "util visibilities_via_preload_jit_from got=%s want=%s" % (got[:3], ref[:3]))
        got2 = tu.visibilities_jit(image_1d=vals.copy(), grid_radians=grid.copy(), uv_wavelengths=uv.copy())
        v.ok(near(got2, ref, sc), "visibilities_from:no-preload", lambda: "util visibilities_jit got=%s want=%s" % (got2[:3], ref[:3]))
    mats = [
        ("basis-columns", np.concatenate([c * np.eye(n) for c in COEFFS], axis=1)),
        ("dense-signed", np.where((np.arange(n * 2).reshape(n, 2) + n) % 3 == 0, -1.0, 1.0) * (0.2 + r.uniform(size=(n, 2)))),
        ("dense-positive", 0.1 + r.uniform(size=(n, 2))),
    ]
    mats += cancelling_matrices(n, all_pairs=True)
    for mname, X in mats:
        T = tu.transformed_mapping_matrix_via_preload_jit_from(mapping_matrix=X.copy(), preloaded_reals=tabr, preloaded_imags=tabi)
        check_matrix(v, T, A, X, "transform_mapping_matrix:preload", "util transformed_mapping_matrix_via_preload_jit_from matrix=%s" % mname,
                     "transform_mapping_matrix:nonpositive-entries:preload")
        T2 = tu.transformed_mapping_matrix_jit(mapping_matrix=X.copy(), grid_radians=grid.copy(), uv_wavelengths=uv.copy())
        check_matrix(v, T2, A, X, "transform_mapping_matrix:no-preload", "util transformed_mapping_matrix_jit matrix=%s" % mname,
                     "transform_mapping_matrix:nonpositive-entries:no-preload")
    # ---- whole-number baselines handed over in other dtypes (the property quantifies over all baseline sets; an integer
    # array of wavelengths is an ordinary input of the util functions): every function against the explicit DFT
    uvw = np.round(uv)
    Aw = dft_matrix(grid[:, 0], grid[:, 1], uvw)
    vvw = (r.normal(size=K) + 1j * r.normal(size=K))
    for form in UTIL_UV_FORMS:
        uvf = uvw.astype(form)
        sfx = ":baselines-dtype"
        prw = tu.preload_real_transforms(grid_radians=grid.copy(), uv_wavelengths=uvf.copy())
        piw = tu.preload_imag_transforms(grid_radians=grid.copy(), uv_wavelengths=uvf.copy())
        v.ok(near(prw, np.real(Aw).T, 1.0) and near(piw, np.imag(Aw).T, 1.0), "preload-tables" + sfx,
             lambda: "util %s baselines: cos maxdiff=%s sin maxdiff=%s" % (form, dom.maxdiff(prw, np.real(Aw).T), dom.maxdiff(piw, np.imag(Aw).T)))
        for vals in images:
            ref = Aw @ vals
            gw = np.asarray(tu.visibilities_jit(image_1d=vals.copy(), grid_radians=grid.copy(), uv_wavelengths=uvf.copy()))
            v.ok(near(gw, ref, max(1.0, n * float(np.abs(vals).max()))), "visibilities_from:no-preload" + sfx,
                 lambda: "util visibilities_jit with %s baselines %s: got=%s want=%s" % (form, uvf.tolist(), gw[:3], ref[:3]))
        for mname, X in mats[:3]:
            Tw = tu.transformed_mapping_matrix_jit(mapping_matrix=X.copy(), grid_radians=grid.copy(), uv_wavelengths=uvf.copy())
            check_matrix(v, Tw, Aw, X, "transform_mapping_matrix:no-preload" + sfx, "util transformed_mapping_matrix_jit %s baselines matrix=%s" % (form, mname),
                         "transform_mapping_matrix:nonpositive-entries:no-preload")
        gi = tu.image_via_jit_from(n_pixels=n, grid_radians=grid.copy(), uv_wavelengths=uvf.copy(),
                                   visibilities=np.stack([vvw.real, vvw.imag], axis=-1))
        refi = adjoint_real(Aw, vvw)
        v.ok(near(gi, refi, max(1.0, K * float(np.abs(vvw).max()))), "image_from:adjoint" + sfx,
             lambda: "util image_via_jit_from with %s baselines got=%s want=%s" % (form, np.asarray(gi)[:3], refi[:3]))
    vis_menu = [(r.normal(size=K) + 1j * r.normal(size=K))]
    for k in range(K):
        for c in VIS_COEFFS:
            e = np.zeros(K, dtype=complex)
            e[k] = c
            vis_menu.append(e)
    for vv in vis_menu:
        got = tu.image_via_jit_from(n_pixels=n, grid_radians=grid.copy(), uv_wavelengths=uv.copy(),
                                    visibilities=np.stack([vv.real, vv.imag], axis=-1))
        ref = adjoint_real(A, vv)
        v.ok(near(got, ref, max(1.0, K * float(np.abs(vv).max()))), "image_from:adjoint",
             lambda: "util image_via_jit_from got=%s want=%s" % (got[:3], ref[:3]))


UTIL_UV_FORMS = ("int64", "int32", "float32")  # whole-number baselines (< 2**24: exact in every form)
INV_SETS = ("G1", "R3", "M4", "G5")


def _inv_fixture(aa, h, w, bits, g, sname, sub, seed, pre, interface, scale=1.0):
    m = dom.mask_from_bits(h, w, bits)
    scales, origin = GEOMS[g]
    mask = aa.Mask2D(mask=m.copy(), pixel_scales=scales, origin=origin)
    uv = dict(baseline_sets(seed))[sname].astype(float)
    K = uv.shape[0]
    r = dom.rng(seed, "invdata", h, w, bits, sname)
    d = (0.5 + r.uniform(size=K)) * np.where(np.arange(K) % 2 == 0, 1.0, -1.0) + 1j * (r.normal(size=K) - 0.3)
    sigma = (0.5 + r.uniform(size=K) + 0.25 * np.arange(K)) + 1j * (1.5 + r.uniform(size=K) - 0.2 * np.arange(K))
    if scale != 1.0:  # the same data set expressed in other units
        d, sigma = d * scale, sigma * scale
    data = aa.Visibilities(visibilities=d.copy())
    noise = aa.VisibilitiesNoiseMap(visibilities=sigma.copy())
    over = aa.OverSamplingDataset(pixelization=aa.OverSamplingUniform(sub_size=sub))
    real = aa.Interferometer(
        data=data, noise_map=noise, uv_wavelengths=uv.copy(), real_space_mask=mask,
        # preload on is the constructor default, so the plain class (the documented usage) is passed in that case
        transformer_class=aa.TransformerDFT if pre else functools.partial(aa.TransformerDFT, preload_transform=False),
        over_sampling=over,
    )
    if interface:
        t = aa.TransformerDFT(uv_wavelengths=uv.copy(), real_space_mask=mask, preload_transform=pre)
        ds = aa.DatasetInterface(data=data, noise_map=noise, grids=real.grids, transformer=t)
    else:
        ds = real
    fx = {"aa": aa, "mask_bool": m, "mask": mask, "ds": real, "n": int((~m).sum())}
    return fx, ds, uv, d, sigma


def near_tol(a, b, tol):
    """|a - b| <= tol entry by entry (tol an array or scalar of absolute tolerances)."""
    a = np.asarray(a)
    b = np.asarray(b)
    if a.shape != b.shape:
        return False
    if a.size == 0:
        return True
    return bool(np.all(np.isfinite(a)) and np.all(np.abs(a - b) <= tol))


def run_inv(aa, v, h, w, bits, g, si, sub, ol, seed, scale=1.0):
    """scale: visibilities and complex noise map are multiplied together by this factor (the data set in other units);
    the reference Gram products are formed from the scaled values and, for scale != 1, every tolerance is relative to
    the magnitude of the reference result itself (no absolute floor), entry by entry where the unregularized-diagonal
    constant dominates."""
    kinds, regs = ol
    sname = INV_SETS[si]
    m = dom.mask_from_bits(h, w, bits)
    scales, origin = GEOMS[g]
    y, x = pixel_centres_radians(m, scales, origin)
    v.nontrivial = len(set(k[:4] for k in kinds)) > 1 or (not all(regs)) or ("funcS" in kinds) or ("funcZ" in kinds)
    v.outcome = "inv:%dx%d:L%d:%s" % (h, w, len(kinds), sname)
    units = scale != 1.0
    sfx = ":scaled-units" if units else ""
    if units:
        v.outcome += ":units1e%+d" % int(round(np.log10(scale)))
    diag = 1e-3  # deliberately not the configured default: the value of the settings object must be the one added
    for pre in (True, False):
        for route in ("factory/Interferometer", "class/DatasetInterface"):
            fx, ds, uv, d, sigma = _inv_fixture(aa, h, w, bits, g, sname, sub, seed, pre, interface=route.startswith("class"), scale=scale)
            objs = [make_obj(fx, k, rg, seed) for k, rg in zip(kinds, regs)]
            A = dft_matrix(y, x, uv)
            M = np.concatenate([np.array(o.mapping_matrix, dtype=float) for o in objs], axis=1)
            widths = [np.array(o.mapping_matrix).shape[1] for o in objs]
            unreg, off = [], 0
            for wd, rg in zip(widths, regs):
                if not rg:
                    unreg += list(range(off, off + wd))
                off += wd

            def refs(Mx):
                D, F = normal_equations(A @ Mx, d, sigma)
                F = F.copy()
                F[unreg, unreg] += diag
                return D, F

            D_ref, F_ref = refs(M)
            D_pos, F_pos = refs(np.maximum(M, 0.0))
            neg = bool((M < 0).any())
            if units:
                # magnitudes of the Gram products alone; the added constant only enters the tolerance of its own entries
                D0, F0 = normal_equations(A @ M, d, sigma)
                magD = float(np.abs(D0).max())
                tolD = 1e-9 * magD
                tolF = 1e-9 * float(np.abs(F0).max()) * np.ones(F0.shape)
                tolF[unreg, unreg] += 1e-9 * diag
            st = fix_inv.settings(aa, False, diag=diag)  # fresh settings object for every inversion
            name = "%s/%s%s" % (route, _ptag(pre), (" data x %g" % scale) if units else "")
            if route.startswith("factory"):
                inv = aa.Inversion(dataset=ds, linear_obj_list=objs, settings=st)
            else:
                inv = aa.InversionInterferometerMapping(dataset=ds, linear_obj_list=objs, settings=st)
            check_matrix(v, np.array(inv.operated_mapping_matrix), A, M, "interferometer:operated_mapping_matrix", name,
                         "interferometer:operated_mapping_matrix:nonpositive-entries")
            D = np.array(inv.data_vector, dtype=float)
            F = np.array(inv.curvature_matrix, dtype=float)
            # the same quantities read in the opposite order on a second, identical inversion, and the transformed matrix
            # re-read after both: the values must not depend on the order of access
            if route.startswith("factory"):
                inv2 = aa.Inversion(dataset=ds, linear_obj_list=objs, settings=fix_inv.settings(aa, False, diag=diag))
            else:
                inv2 = aa.InversionInterferometerMapping(dataset=ds, linear_obj_list=objs, settings=fix_inv.settings(aa, False, diag=diag))
            F2 = np.array(inv2.curvature_matrix, dtype=float)
            D2 = np.array(inv2.data_vector, dtype=float)
            T2 = np.array(inv2.operated_mapping_matrix)
            T1 = np.array(inv.operated_mapping_matrix)
            if units:
                okD2, okF2 = near_tol(D2, D, tolD), near_tol(F2, F, tolF)
            else:
                scD, scF = max(1.0, float(np.abs(D).max())), max(1.0, float(np.abs(F).max()))
                okD2, okF2 = near(D2, D, scD), near(F2, F, scF)
            v.ok(okD2, "interferometer:data_vector:read-order", lambda: "%s: data_vector read after curvature_matrix differs by %s" % (name, dom.maxdiff(D2, D)))
            v.ok(okF2, "interferometer:curvature_matrix:read-order", lambda: "%s: curvature_matrix read first differs by %s" % (name, dom.maxdiff(F2, F)))
            v.ok(T1.shape == T2.shape and np.allclose(T1, T2, rtol=1e-12, atol=1e-13) and np.allclose(T2, A @ M if not neg else T2, rtol=1e-9, atol=1e-12),
                 "interferometer:operated_mapping_matrix:read-order", lambda: "%s: transformed mapping matrix re-read after D and F differs by %s" % (name, dom.maxdiff(T1, T2)))
            for qn, got, ref, pos in (("data_vector", D, D_ref, D_pos), ("curvature_matrix", F, F_ref, F_pos)):
                if units:
                    tol = tolD if qn == "data_vector" else tolF
                    good, goodpos = near_tol(got, ref, tol), near_tol(got, pos, tol)
                else:
                    sc = max(1.0, float(np.abs(ref).max()), float(np.abs(pos).max()))
                    good, goodpos = near(got, ref, sc), near(got, pos, sc)
                if good:
                    v.ok(True, "interferometer:%s%s" % (qn, sfx))
                elif neg and goodpos:
                    v.ok(False, "interferometer:%s:nonpositive-entries" % qn,
                         lambda: "%s kinds=%s: equals the normal equations of max(M,0); maxdiff to reference=%s" % (name, kinds, dom.maxdiff(got, ref)))
                else:
                    v.ok(False, "interferometer:%s%s" % (qn, sfx), lambda: "%s kinds=%s regs=%s maxdiff=%s (largest reference entry %.3g) got=%s want=%s" % (
                        name, kinds, regs, dom.maxdiff(got, ref), float(np.abs(ref).max()), got.ravel()[:4], ref.ravel()[:4]))
