"""C19 - layout regions rotate and extract consistently with the arrays they index.

Fully exhaustive: every array shape up to the bound, EVERY valid region inside it, all four read-out
corners, EVERY extraction window, every front / trailing pixel range inside the array, every small
integer tuple for region validation.  The reference model works on explicit *pixel sets* (a region is the
set of (row, column) pairs it addresses; rotating / extracting maps the set pixel by pixel and the
expected region is the bounding box of the image set), never on the closed-form index formulae used by
the library, and every law is additionally checked on array *content* with an injective labelling.
"""
import numpy as np

from mc import dom
from mc.core import V

ID = "C19"
ENGINE = "scope"
CHUNK = 128
RULE = (
    "case kinds: v1/v2 = one integer tuple offered to the Region1D/Region2D constructors (and the Layout1D/"
    "Layout2D constructor slots); arr = one array shape (array rotation, involution, Array2D.original_orientation, "
    "Layout2D.original_orientation_from, all 4 corners; the array argument additionally in 5 non-C memory layouts; "
    "read / in-place edit / read histories on Array2D.original_orientation, all inside the one case); r1 = one (length, Region1D) with every 1D window and "
    "every front/trailing range; reg = one (shape, Region2D): 4 corners x {util, Layout2D.rotated_from_roe_corner, "
    "new_rotated_from, extract_*_array_from} + every front/trailing/full sub-region range in bounds; ext = one "
    "(shape, region, extraction window): x0x1_after_extraction on both axes, region_after_extraction, "
    "Layout2D.layout_extracted_from in every slot, repeated on the rotated layout for all 4 corners. "
    "non-trivial = v*: tuple is invalid; arr: H>1 and W>1; r1/reg: region is a proper part of the array; "
    "ext: overlap is non-empty and the window clips the region on at least one side"
)
ASSUMPTIONS = [
    "rotation / extraction / slicing are value-oblivious gathers, so one injective signed labelling of the "
    "array (instantiated from the seed) distinguishes every pixel and represents all real arrays",
    "region arithmetic is affine in the indices with comparisons only between the enumerated indices, so "
    "shapes up to the bound exercise every ordering of the 4 (1D) / 8 (2D) free indices incl. all ties",
    "read-out corners are passed as tuples (the library compares with == against tuples)",
    "an ndarray's contents, not its strides, are its value: Fortran-ordered, transposed, strided-window and "
    "negative-stride views with the same contents must rotate to the same result as the C-ordered array",
    "Array2D.original_orientation is a plain read: it describes the contents the Array2D holds at the time of the "
    "read (after item / slice / boolean-key assignment through Array2D.__setitem__), and the ndarray it returns "
    "belongs to the caller (writing into it changes neither the Array2D nor later reads)",
]
BOUNDS = {
    "quick": "shapes 1..5 x 1..5 (25), all 1225 valid regions, 4 corners (arrays in 6 memory layouts; 4 Array2D forms x "
    "{read, write-into-result, read, 3 in-place edits each followed by a read, copy-then-edit}), all 137641 region x window pairs, all "
    "front/trailing ranges (valid, empty and reversed) inside the array, 1D lengths 1..8 with all interval pairs, "
    "validation tuples {-1..3}^4 and {-1..3}^2",
    "thorough": "shapes 1..6 x 1..6 (36), all 3136 valid regions, 4 corners, all 659344 region x window pairs, all "
    "front/trailing ranges inside the array, 1D lengths 1..12 with all interval pairs, validation tuples "
    "{-2..4}^4 and {-2..4}^2",
}

CORNERS = [(1, 0), (0, 0), (1, 1), (0, 1)]
SLOTS = ("parallel_overscan", "serial_prescan", "serial_overscan")


def ck(c):
    return "roe%d%d" % (c[0], c[1])


# ----------------------------------------------------------------------------- enumeration


def _shapes(n):
    s = [(h, w) for h in range(1, n + 1) for w in range(1, n + 1)]
    s.sort(key=lambda t: (t[0] * t[1], t[0]))
    return s


def _intervals(n):
    """all (a, b) with 0 <= a < b <= n, shortest first."""
    out = [(a, b) for a in range(n) for b in range(a + 1, n + 1)]
    out.sort(key=lambda t: (t[1] - t[0], t[0]))
    return out


def _regions(h, w):
    return [(y0, y1, x0, x1) for (y0, y1) in _intervals(h) for (x0, x1) in _intervals(w)]


def cases(tier, seed):
    quick = tier == "quick"
    n = 5 if quick else 6
    vals = list(range(-1, 4)) if quick else list(range(-2, 5))
    n1 = 8 if quick else 12
    seed = int(seed)
    for a in vals:
        for b in vals:
            yield ["v1", a, b]
    for a in vals:
        for b in vals:
            for c in vals:
                for d in vals:
                    yield ["v2", a, b, c, d]
    for (h, w) in _shapes(n):
        yield ["arr", h, w, seed]
    for L in range(1, n1 + 1):
        for (x0, x1) in _intervals(L):
            yield ["r1", L, x0, x1, seed]
    for (h, w) in _shapes(n):
        for r in _regions(h, w):
            yield ["reg", h, w] + list(r) + [seed]
    for (h, w) in _shapes(n):
        regs = _regions(h, w)
        for r in regs:
            for e in regs:
                yield ["ext", h, w] + list(r) + list(e) + [seed]


# ----------------------------------------------------------------------------- reference model (pixel sets)


def labels(shape, seed):
    """Injective signed labelling of an array of this shape."""
    n = int(np.prod(shape))
    r = dom.rng(seed, "C19", tuple(shape))
    vals = np.arange(n) + 1.0
    r.shuffle(vals)
    sign = np.where(r.rand(n) < 0.5, -1.0, 1.0)
    return (vals * sign).reshape(shape)


def ref_rot_pixel(i, j, shape, c):
    """Where pixel (i, j) of an array with read-out corner c lands when the corner is moved to bottom-left (1, 0):
    rows are mirrored iff the corner is at the top (c[0] == 0), columns iff it is on the right (c[1] == 1)."""
    H, W = shape
    return (H - 1 - i if c[0] == 0 else i, W - 1 - j if c[1] == 1 else j)


def ref_rot_array(a, c):
    H, W = a.shape
    out = np.empty_like(a)
    for i in range(H):
        for j in range(W):
            ii, jj = ref_rot_pixel(i, j, (H, W), c)
            out[ii, jj] = a[i, j]
    return out


def pixels_of(r):
    return [(i, j) for i in range(r[0], r[1]) for j in range(r[2], r[3])]


def bbox(pix):
    if not pix:
        return None
    ys = [p[0] for p in pix]
    xs = [p[1] for p in pix]
    return (min(ys), max(ys) + 1, min(xs), max(xs) + 1)


def ref_rot_region(r, shape, c):
    if r is None:
        return None
    return bbox([ref_rot_pixel(i, j, shape, c) for (i, j) in pixels_of(r)])


def ref_extract(r, e):
    """Region addressing, inside window e, the overlap of r with e (None when they do not overlap)."""
    if r is None:
        return None
    return bbox([(i - e[0], j - e[2]) for (i, j) in pixels_of(r) if e[0] <= i < e[1] and e[2] <= j < e[3]])


def ref_interval(o0, o1, e0, e1):
    pts = [k - e0 for k in range(o0, o1) if e0 <= k < e1]
    if not pts:
        return (None, None)
    return (min(pts), max(pts) + 1)


def rel_class(o0, o1, e0, e1):
    """Input class of an (original interval, window) pair; used in finding ids."""
    if e1 <= o0:
        return "window-before-touching" if e1 == o0 else "window-before-disjoint"
    if e0 >= o1:
        return "window-after-touching" if e0 == o1 else "window-after-disjoint"
    lo, hi = e0 > o0, e1 < o1
    if lo and hi:
        return "clips-both"
    if lo:
        return "clips-low"
    if hi:
        return "clips-high"
    return "covers"


def content(a, r):
    """Content addressed by region r, gathered pixel by pixel (no slicing)."""
    out = np.empty((r[1] - r[0], r[3] - r[2]), dtype=a.dtype)
    for i in range(r[0], r[1]):
        for j in range(r[2], r[3]):
            out[i - r[0], j - r[2]] = a[i, j]
    return out


def tup(r, n=4):
    if r is None:
        return None
    return tuple(int(r[k]) for k in range(n))


def arr(x):
    return np.array(x)


# ----------------------------------------------------------------------------- run_case


def run_case(case):
    import autoarray as aa
    from autoarray import exc
    from autoarray.layout import layout_util as lu

    v = V(ID)
    kind = case[0]
    if kind == "v1":
        run_v1(aa, exc, v, (case[1], case[2]))
    elif kind == "v2":
        run_v2(aa, exc, lu, v, tuple(case[1:5]))
    elif kind == "arr":
        run_arr(aa, lu, v, (case[1], case[2]), case[3])
    elif kind == "r1":
        run_r1(aa, exc, lu, v, case[1], (case[2], case[3]), case[4])
    elif kind == "reg":
        run_reg(aa, exc, lu, v, (case[1], case[2]), tuple(case[3:7]), case[7])
    elif kind == "ext":
        run_ext(aa, lu, v, (case[1], case[2]), tuple(case[3:7]), tuple(case[7:11]), case[11])
    else:
        raise ValueError("unknown case kind %r" % (kind,))
    return v.result()


# ----------------------------------------------------------------------------- validation


def _try(fn):
    """-> (value, None) or (None, exception)"""
    try:
        return fn(), None
    except Exception as e:  # noqa: BLE001 - classified by the caller
        return None, e


def bad2(t):
    """invalidity classes of a 4-tuple offered as a Region2D ([] = valid)."""
    bad = []
    if min(t) < 0:
        bad.append("negative")
    if t[0] >= t[1]:
        bad.append("empty-rows")
    if t[2] >= t[3]:
        bad.append("empty-columns")
    return bad


def bad1(t):
    bad = []
    if t[0] < 0 or t[1] < 0:
        bad.append("negative")
    if t[0] >= t[1]:
        bad.append("empty")
    return bad


def _call(v, fid, fn, desc):
    """Run a library call that is specified to succeed; an exception is a violation of class fid."""
    val, e = _try(fn)
    if e is not None:
        v.fail(fid, lambda: "%s raised %s: %s" % (desc() if callable(desc) else desc, type(e).__name__, e))
        return False, None
    return True, val


def _validate(v, exc, site, fn, t, bad, group=None):
    """One constructor site offered tuple t.  bad = sorted list of invalidity classes ([] = valid).
    Returns True when the site behaved as specified."""
    val, e = _try(fn)
    if bad:
        fid = group or "%s.validation:accepted:%s" % (site, "+".join(bad))
        ok = v.ok(e is not None, fid, lambda: "%s(%s) accepted an invalid region (%s) -> %r" % (site, t, "+".join(bad), val))
        if ok:
            ok = v.ok(
                isinstance(e, exc.RegionException),
                group or "%s.validation:wrong-exception-type" % site,
                lambda: "%s(%s) raised %s instead of RegionException" % (site, t, type(e).__name__),
            )
        return ok
    fid = group or "%s.validation:valid-rejected" % site
    ok = v.ok(e is None, fid, lambda: "%s(%s) rejected a valid region: %s: %s" % (site, t, type(e).__name__, e))
    if ok:
        ok = v.ok(tup(val, len(t)) == tuple(t), group or "%s.coordinates" % site, lambda: "%s(%s) holds %s" % (site, t, tup(val, len(t))))
    return ok


def run_v1(aa, exc, v, t):
    bad = bad1(t)
    v.nontrivial = bool(bad)
    v.outcome = "v1:" + ("+".join(bad) if bad else "valid")
    ok = _validate(v, exc, "Region1D", lambda: aa.Region1D(region=t), t, bad)
    grp = None if ok else ("Region1D.validation:accepted:%s" % "+".join(bad) if bad else "Region1D.validation:valid-rejected")
    _validate(v, exc, "Layout1D.prescan", lambda: aa.Layout1D(shape_1d=(8,), prescan=t).prescan, t, bad, grp)
    _validate(v, exc, "Layout1D.overscan", lambda: aa.Layout1D(shape_1d=(8,), overscan=t).overscan, t, bad, grp)
    if not bad:
        r = aa.Region1D(region=t)
        a = np.arange(10.0) * 3 + 1
        v.ok(dom.exact(a[r.slice], a[t[0] : t[1]]), "Region1D.slice", lambda: "%s" % (t,))


def run_v2(aa, exc, lu, v, t):
    bad = bad2(t)
    v.nontrivial = bool(bad)
    v.outcome = "v2:" + ("+".join(bad) if bad else "valid")
    ok = _validate(v, exc, "Region2D", lambda: aa.Region2D(region=t), t, bad)
    # sites that construct a Region2D from the caller's tuple: same defect => same id
    grp = None if ok else ("Region2D.validation:accepted:%s" % "+".join(bad) if bad else "Region2D.validation:valid-rejected")
    _validate(
        v, exc, "rotate_region_via_roe_corner_from[roe10]",
        lambda: lu.rotate_region_via_roe_corner_from(region=t, shape_native=(6, 6), roe_corner=(1, 0)), t, bad, grp,
    )
    for slot in SLOTS:
        _validate(
            v, exc, "Layout2D.%s" % slot,
            lambda: getattr(aa.Layout2D(shape_2d=(6, 6), **{slot: t}), slot), t, bad, grp,
        )
    _validate(
        v, exc, "Layout2D.rotated_from_roe_corner[roe10]",
        lambda: aa.Layout2D.rotated_from_roe_corner(roe_corner=(1, 0), shape_native=(6, 6), serial_overscan=t).serial_overscan,
        t, bad, grp,
    )
    if not bad:
        r = aa.Region2D(region=t)
        a = np.arange(49.0).reshape(7, 7) * 2 - 5
        v.ok(dom.exact(a[r.slice], content(a, t)), "Region2D.slice", lambda: "%s" % (t,))


# ----------------------------------------------------------------------------- arrays only


FILL = 7777.0  # padding value of the parent buffers of the strided windows (never a label)


def layouts_of(a):
    """The same 2D contents in memory layouts other than C order: (name, array)."""
    H, W = a.shape
    big = np.full((H, 2 * W), FILL)
    big[:, ::2] = a
    bigf = np.asfortranarray(np.full((2 * H + 1, W), FILL))
    bigf[1::2, :] = a
    out = [
        ("fortran", np.asfortranarray(a)),
        ("transposed-view", np.ascontiguousarray(a.T).T),
        ("strided-window", big[:, ::2]),
        ("fortran-strided-window", bigf[1::2, :]),
        ("negative-strides", np.ascontiguousarray(a[::-1, ::-1])[::-1, ::-1]),
    ]
    for name, x in out:
        assert x.shape == a.shape and np.array_equal(x, a), name
    return out


def _edits(storage, shape):
    """Three in-place edits through Array2D.__setitem__: (name, key for this storage, native boolean footprint, value)."""
    import autoarray as aa

    H, W = shape
    i, j = H - 1, (W - 1) // 2
    reg = (0, (H + 1) // 2, W // 2, W)
    foot_item = np.zeros(shape, bool)
    foot_item[i, j] = True
    foot_reg = np.zeros(shape, bool)
    for (y, x) in pixels_of(reg):
        foot_reg[y, x] = True
    foot_bool = np.array([[(y + 2 * x) % 3 == 0 for x in range(W)] for y in range(H)])
    if storage == "native-stored":
        return [
            ("item", (i, j), foot_item, 1000.5),
            ("region-slice", aa.Region2D(region=reg).slice, foot_reg, 0.0),
            ("boolean-key", foot_bool.copy(), foot_bool, -7.25),
        ]
    k0, k1 = (H * W) // 3, max((H * W) // 3 + 1, (2 * H * W) // 3)
    foot_sl = np.zeros(H * W, bool)
    foot_sl[k0:k1] = True
    return [
        ("item", i * W + j, foot_item, 1000.5),
        ("slim-slice", slice(k0, k1), foot_sl.reshape(shape), 0.0),
        ("boolean-key", foot_bool.reshape(-1).copy(), foot_bool, -7.25),
    ]


def _held(A, shape):
    """Contents an unmasked Array2D holds right now, read from its raw storage (not through .native)."""
    return np.array(A.array, dtype=float).reshape(shape)


def orientation_history(aa, v, A, first, storage, cur, c, shape, lay):
    """Read / write / read histories on ONE Array2D whose original_orientation has just been read (-> first) and was right.
    cur = model of the contents A holds (common orientation); expected read = ref_rot_array(model, c) at every point."""
    base = "Array2D.original_orientation"
    tag = "shape %s corner %s %s" % (shape, c, storage)

    def read(X, model, fid, what):
        val, e = _try(lambda: X.original_orientation)
        want = ref_rot_array(model, c)
        return v.ok(
            e is None and dom.exact(arr(val), want), fid,
            lambda: "%s: original_orientation %s -> %s, want the rotation of the contents held now %s"
            % (tag, what, ("%s: %s" % (type(e).__name__, e)) if e is not None else arr(val).tolist(), want.tolist()),
        )

    # ---- the returned ndarray belongs to the caller
    wrote = False
    if isinstance(first, np.ndarray) and first.flags.writeable and first.size:
        first[0, 0] = -99.0
        wrote = True
    if wrote:
        okh = v.ok(dom.exact(_held(A, shape), cur), base + ":returned-array-aliased",
                   lambda: "%s: writing into the returned ndarray changed the Array2D itself: %s" % (tag, _held(A, shape).tolist()))
        if okh:
            read(A, cur, base + ":returned-array-aliased", "read again after out[0, 0] = -99 on the first result")
    B = A.copy()  # taken after the first read
    curB = cur.copy()

    # ---- in-place edits, each followed by a read
    ok_edit = True
    for name, key, foot, val in _edits(storage, shape):
        A[key] = val
        cur = np.where(foot, val, cur)
        if not dom.exact(_held(A, shape), cur):
            return  # __setitem__ itself did something else: not this property's business, nothing to compare with
        ok_edit &= read(A, cur, base + ":after-in-place-edit", "after %s assignment" % name)
    if storage == "native-stored":
        val, e = _try(lambda: lay.original_orientation_from(array=A))
        want = ref_rot_array(cur, c)
        v.ok(e is None and dom.exact(arr(val), want), base + ":after-in-place-edit" if not ok_edit else "Layout2D.original_orientation_from:after-in-place-edit",
             lambda: "%s: Layout2D.original_orientation_from(edited Array2D) -> %s want %s"
             % (tag, ("%s: %s" % (type(e).__name__, e)) if e is not None else arr(val).tolist(), want.tolist()))

    # ---- the copy taken after the first read, then edited
    name, key, foot, val = _edits(storage, shape)[0]
    B[key] = 555.5
    curB = np.where(foot, 555.5, curB)
    if dom.exact(_held(B, shape), curB):
        read(B, curB, base + (":after-in-place-edit:copy" if ok_edit else ":after-in-place-edit"), "of a copy() taken after the first read, then edited")
    if dom.exact(_held(A, shape), cur):
        read(A, cur, base + (":after-in-place-edit:copy" if ok_edit else ":after-in-place-edit"), "of the original after its copy was edited")


def run_arr(aa, lu, v, shape, seed):
    H, W = shape
    a = labels(shape, seed)
    v.nontrivial = H > 1 and W > 1
    v.outcome = "arr:%s" % ("1x1" if H * W == 1 else "1xN" if H == 1 else "Nx1" if W == 1 else "HxW")
    mask = aa.Mask2D.all_false(shape_native=shape, pixel_scales=1.0)
    for c in CORNERS:
        key = ck(c)
        ref = ref_rot_array(a, c)
        keep = a.copy()
        aid = "rotate_array_via_roe_corner_from:" + key
        okA, got = _call(v, aid, lambda: lu.rotate_array_via_roe_corner_from(array=a, roe_corner=c), "shape %s corner %s" % (shape, c))
        okA = okA and v.ok(dom.exact(got, ref), aid, lambda: "shape %s corner %s got %s want %s" % (shape, c, arr(got).tolist(), ref.tolist()))
        v.ok(dom.exact(a, keep), "rotate_array_via_roe_corner_from:input-mutated", key)
        if okA:
            okc, twice = _call(v, aid, lambda: lu.rotate_array_via_roe_corner_from(array=got, roe_corner=c), "twice")
            v.ok(okc and dom.exact(twice, a), "rotate:involution:array:" + key,
                 lambda: "shape %s corner %s rot(rot(a)) = %s, a = %s" % (shape, c, arr(twice).tolist(), a.tolist()))

        # the same contents in other memory layouts (contents, not strides, are the value of an ndarray)
        mid = aid if not okA else "rotate_array_via_roe_corner_from:memory-layout:" + key
        okM = okA
        for lname, x in layouts_of(a):
            okc, g = _call(v, mid, lambda: lu.rotate_array_via_roe_corner_from(array=x, roe_corner=c), "shape %s corner %s %s" % (shape, c, lname))
            okM &= okc and v.ok(dom.exact(g, ref), mid, lambda: "shape %s corner %s, %s array (strides %s): got %s want %s"
                                % (shape, c, lname, x.strides, arr(g).tolist(), ref.tolist()))
            v.ok(dom.exact(x, keep), "rotate_array_via_roe_corner_from:input-mutated", lambda: "%s %s" % (key, lname))

        # Layout2D.original_orientation_from: an array held in the common orientation goes back to its original one
        lay = aa.Layout2D(shape_2d=shape, original_roe_corner=c)
        for lname, x in layouts_of(ref):
            lid = mid if not okM else "Layout2D.original_orientation_from:memory-layout"
            okc, back = _call(v, lid, lambda: lay.original_orientation_from(array=x), "%s %s" % (key, lname))
            v.ok(okc and dom.exact(back, a), lid, lambda: "shape %s corner %s, %s array (strides %s): got %s want %s"
                 % (shape, c, lname, x.strides, arr(back).tolist(), a.tolist()))
        okc, back = _call(v, aid if not okA else "Layout2D.original_orientation_from:ndarray",
                          lambda: lay.original_orientation_from(array=ref.copy()), key)
        v.ok(okc and dom.exact(back, a), aid if not okA else "Layout2D.original_orientation_from:ndarray",
             lambda: "shape %s corner %s got %s want %s" % (shape, c, arr(back).tolist(), a.tolist()))

        hdr = aa.Header(original_roe_corner=c)
        forms = [
            ("native-stored", lambda: aa.Array2D(values=ref.copy(), mask=mask, header=hdr, store_native=True)),
            ("native-stored", lambda: aa.Array2D.no_mask(values=ref.copy(), pixel_scales=1.0, header=hdr).native),
            ("slim-stored", lambda: aa.Array2D.no_mask(values=ref.copy(), pixel_scales=1.0, header=hdr)),
            ("slim-stored", lambda: aa.Array2D(values=ref.copy(), mask=mask, header=hdr, store_native=False)),
        ]
        for storage, mk in forms:
            A = mk()
            # Array2D.original_orientation
            val, e = _try(lambda: A.original_orientation)
            fid = aid if (not okA and storage == "native-stored") else "Array2D.original_orientation:" + storage
            ok1 = v.ok(
                e is None and dom.exact(arr(val), a), fid,
                lambda: "shape %s corner %s %s Array2D.original_orientation -> %s, want %s"
                % (shape, c, storage, ("%s: %s" % (type(e).__name__, e)) if e is not None else arr(val).tolist(), a.tolist()),
            )
            if ok1:
                # a second structure of the same form carries the history (A itself stays pristine for the checks below)
                H_ = mk()
                first, e = _try(lambda: H_.original_orientation)
                if e is None and dom.exact(arr(first), a):
                    orientation_history(aa, v, H_, first, storage, ref.copy(), c, shape, lay)
            # Layout2D.original_orientation_from given the Array2D itself (native-stored only: the method documents an
            # ndarray argument and makes no promise for a slim-stored structure, so that form is not demanded)
            if storage != "native-stored":
                continue
            val, e = _try(lambda: lay.original_orientation_from(array=A))
            fid = aid if (not okA and storage == "native-stored") else "Layout2D.original_orientation_from:%s-Array2D" % storage
            v.ok(
                e is None and dom.exact(arr(val), a), fid,
                lambda: "shape %s corner %s Layout2D.original_orientation_from(%s Array2D) -> %s, want %s"
                % (shape, c, storage, ("%s: %s" % (type(e).__name__, e)) if e is not None else arr(val).tolist(), a.tolist()),
            )


# ----------------------------------------------------------------------------- 1D regions


def _sub1(v, exc, fid, fn, exp, a, desc):
    """exp = expected (x0, x1) or None when the requested range is empty / reversed (=> RegionException)."""
    val, e = _try(fn)
    if exp is None:
        if e is None:
            # an invalid region came out: the constructor's validation is what failed; a valid one: the method's arithmetic
            b = bad1(tup(val, 2))
            f = "Region1D.validation:accepted:" + "+".join(b) if b else fid + ":empty-range-accepted"
            v.fail(f, lambda: "%s returned %s for an empty/reversed range" % (desc, tup(val, 2)))
        else:
            v.ok(isinstance(e, exc.RegionException), fid + ":empty-range:wrong-exception-type", lambda: "%s raised %s: %s" % (desc, type(e).__name__, e))
        return
    if not v.ok(e is None, fid, lambda: "%s raised %s: %s, want %s" % (desc, type(e).__name__, e, exp)):
        return
    v.ok(tup(val, 2) == exp, fid, lambda: "%s -> %s want %s" % (desc, tup(val, 2), exp))
    v.ok(dom.exact(a[val.slice], np.array([a[k] for k in range(exp[0], exp[1])])), fid, lambda: "%s content" % desc)


def run_r1(aa, exc, lu, v, L, r, seed):
    x0, x1 = r
    a = labels((L,), seed)
    n = x1 - x0
    v.nontrivial = n < L
    v.outcome = "r1:%s%s%s" % ("L" if x0 == 0 else "-", "R" if x1 == L else "-", "1" if n == 1 else "n")
    R = aa.Region1D(region=r)
    cells = list(range(x0, x1))
    v.ok((R.x0, R.x1, R.total_pixels) == (x0, x1, n), "Region1D.accessors", lambda: "%s" % ((R.x0, R.x1, R.total_pixels),))
    ref = np.array([a[k] for k in cells])
    v.ok(dom.exact(a[R.slice], ref), "Region1D.slice", lambda: "%s" % (r,))
    v.ok(dom.exact(a[R.x_slice], ref), "Region1D.x_slice", lambda: "%s" % (r,))

    # front: pixels counted from x0 (the edge nearest the read-out at index 0)
    for p0 in range(0, n + 1):
        for p1 in range(0, n + 1):
            sel = cells[p0:p1]
            exp = (sel[0], sel[-1] + 1) if sel else None
            _sub1(v, exc, "Region1D.front_region_from:pixels", lambda: R.front_region_from(pixels=(p0, p1)), exp, a,
                  "Region1D%s.front_region_from(pixels=%s)" % (r, (p0, p1)))
    for k in range(0, n + 1):
        sel = cells[n - k :] if k else []
        exp = (sel[0], sel[-1] + 1) if sel else None
        _sub1(v, exc, "Region1D.front_region_from:pixels_from_end", lambda: R.front_region_from(pixels_from_end=k), exp, a,
              "Region1D%s.front_region_from(pixels_from_end=%d)" % (r, k))
    # trailing: pixels counted from x1 outwards (away from the read-out)
    after = list(range(x1, L))
    for p0 in range(0, len(after) + 1):
        for p1 in range(0, len(after) + 1):
            sel = after[p0:p1]
            exp = (sel[0], sel[-1] + 1) if sel else None
            _sub1(v, exc, "Region1D.trailing_region_from", lambda: R.trailing_region_from(pixels=(p0, p1)), exp, a,
                  "Region1D%s.trailing_region_from(pixels=%s)" % (r, (p0, p1)))

    # Layout1D extraction of the overscan
    A = aa.Array1D.no_mask(values=a.copy(), pixel_scales=1.0)
    for form in (r, R):
        lay = aa.Layout1D(shape_1d=(L,), overscan=form, prescan=form)
        got = lay.extract_overscan_array_1d_from(array=A)
        v.ok(dom.exact(arr(got.native), ref), "Layout1D.extract_overscan_array_1d_from", lambda: "%s -> %s" % (r, arr(got.native).tolist()))
        v.ok(tup(lay.prescan, 2) == r and tup(lay.overscan, 2) == r, "Layout1D.regions", lambda: "%s" % (r,))

    # 1D interval clipping against every window of the array
    for (e0, e1) in _intervals(L):
        got = lu.x0x1_after_extraction(x0o=x0, x1o=x1, x0e=e0, x1e=e1)
        exp = ref_interval(x0, x1, e0, e1)
        fid = "x0x1_after_extraction:" + rel_class(x0, x1, e0, e1)
        if v.ok(tuple(got) == exp, fid, lambda: "original %s window %s -> %s want %s" % (r, (e0, e1), tuple(got), exp)):
            if exp[0] is not None:
                w = a[e0:e1]
                v.ok(dom.exact(w[got[0] : got[1]], np.array([a[k] for k in cells if e0 <= k < e1])), fid, "content")


# ----------------------------------------------------------------------------- 2D regions: rotation and sub-regions


def _sub2(v, exc, fid, fn, exp, a, desc):
    """exp = expected (y0, y1, x0, x1) or None when the requested range is empty / reversed (=> RegionException)."""
    val, e = _try(fn)
    if exp is None:
        if e is None:
            # an invalid region came out: the constructor's validation is what failed; a valid one: the method's arithmetic
            b = bad2(tup(val))
            f = "Region2D.validation:accepted:" + "+".join(b) if b else fid + ":empty-range-accepted"
            v.fail(f, lambda: "%s returned %s for an empty/reversed range" % (desc, tup(val)))
        else:
            v.ok(isinstance(e, exc.RegionException), fid + ":empty-range:wrong-exception-type", lambda: "%s raised %s: %s" % (desc, type(e).__name__, e))
        return
    if not v.ok(e is None, fid, lambda: "%s raised %s: %s, want %s" % (desc, type(e).__name__, e, exp)):
        return
    v.ok(tup(val) == exp, fid, lambda: "%s -> %s want %s" % (desc, tup(val), exp))
    v.ok(dom.exact(a[val.slice], content(a, exp)), fid, lambda: "%s content %s want %s" % (desc, a[val.slice].tolist(), content(a, exp).tolist()))


def _span(sel):
    return (sel[0], sel[-1] + 1) if sel else None


def run_reg(aa, exc, lu, v, shape, r, seed):
    H, W = shape
    y0, y1, x0, x1 = r
    a = labels(shape, seed)
    rows, cols = list(range(y0, y1)), list(range(x0, x1))
    nr, nc = len(rows), len(cols)
    v.nontrivial = (nr, nc) != (H, W)
    v.outcome = "reg:%s%s%s%s:%s%s" % (
        "T" if y0 == 0 else "-", "B" if y1 == H else "-", "L" if x0 == 0 else "-", "R" if x1 == W else "-",
        "1" if nr == 1 else "n", "1" if nc == 1 else "n",
    )
    R = aa.Region2D(region=r)
    cont = content(a, r)

    # ---- accessors and slices
    v.ok((R.y0, R.y1, R.x0, R.x1) == r, "Region2D.accessors", lambda: "%s" % ((R.y0, R.y1, R.x0, R.x1),))
    v.ok((R.total_rows, R.total_columns) == (nr, nc) and tuple(R.shape) == (nr, nc), "Region2D.totals",
         lambda: "%s rows %s cols %s shape %s" % (r, R.total_rows, R.total_columns, R.shape))
    v.ok(dom.exact(a[R.slice], cont), "Region2D.slice", lambda: "%s -> %s" % (r, a[R.slice].tolist()))
    v.ok(dom.exact(a[R.y_slice], np.array([a[i] for i in rows])), "Region2D.y_slice", lambda: "%s" % (r,))
    v.ok(dom.exact(a[:, R.x_slice], np.array([[a[i, j] for j in cols] for i in range(H)])), "Region2D.x_slice", lambda: "%s" % (r,))

    # ---- rotation, all corners
    r2 = ref_rot_region(r, shape, (0, 1))  # a second, generally different, valid region
    for c in CORNERS:
        key = ck(c)
        aid = "rotate_array_via_roe_corner_from:" + key
        rid = "rotate_region_via_roe_corner_from:" + key
        ar_ref = ref_rot_array(a, c)
        rr_ref = ref_rot_region(r, shape, c)
        okA, ar = _call(v, aid, lambda: lu.rotate_array_via_roe_corner_from(array=a, roe_corner=c), "shape %s corner %s" % (shape, c))
        okA = okA and v.ok(dom.exact(ar, ar_ref), aid, lambda: "shape %s corner %s" % (shape, c))
        okS, rhs = _call(v, aid, lambda: lu.rotate_array_via_roe_corner_from(array=a[R.slice], roe_corner=c), "content of %s corner %s" % (r, c))
        okA = okA and okS and v.ok(dom.exact(rhs, ref_rot_array(cont, c)), aid, lambda: "content of %s corner %s" % (r, c))
        okR = True
        for fname, form in (("tuple", r), ("Region2D", R), ("second-region", r2)):
            want_rr = ref_rot_region(tup(form), shape, c)
            desc = "region %s (%s) shape %s corner %s" % (tup(form), fname, shape, c)
            okc, rr = _call(v, rid, lambda: lu.rotate_region_via_roe_corner_from(region=form, shape_native=shape, roe_corner=c), desc)
            if not okc:
                okR = False
                continue
            okR &= v.ok(isinstance(rr, aa.Region2D) and tup(rr) == want_rr, rid, lambda: "%s -> %s want %s" % (desc, tup(rr), want_rr))
            if fname == "second-region":
                continue
            # the law itself: the rotated region slices from the rotated array the rotated content of the region
            if okA:
                lhs = ar[rr.slice]
                v.ok(dom.exact(lhs, rhs), rid if not okR else "rotate:commute:" + key,
                     lambda: "%s: rot(a)[rot(r)] = %s, rot(a[r]) = %s" % (desc, arr(lhs).tolist(), arr(rhs).tolist()))
            # same rotation twice restores the region
            okc, back = _call(v, rid, lambda: lu.rotate_region_via_roe_corner_from(region=rr, shape_native=shape, roe_corner=c), desc + " twice")
            if okc:
                v.ok(tup(back) == r, rid if not okR else "rotate:involution:region:" + key, lambda: "%s rotated twice -> %s" % (desc, tup(back)))
        if okA:
            okc, twice = _call(v, aid, lambda: lu.rotate_array_via_roe_corner_from(array=ar, roe_corner=c), "twice")
            v.ok(okc and dom.exact(twice, a), "rotate:involution:array:" + key, lambda: "shape %s corner %s" % (shape, c))
        v.ok(lu.rotate_region_via_roe_corner_from(region=None, shape_native=shape, roe_corner=c) is None,
             "rotate_region_via_roe_corner_from:None", key)

        A_rot = aa.Array2D.no_mask(values=ar_ref.copy(), pixel_scales=1.0)
        for k in range(3):
            slots = [None, None, None]
            slots[k] = r
            slots[(k + 1) % 3] = r2
            kw = dict(zip(SLOTS, slots))
            want = [ref_rot_region(s, shape, c) for s in slots]
            lay0 = aa.Layout2D(shape_2d=shape, original_roe_corner=(1, 0), **kw)
            for mname, mk in (
                ("Layout2D.rotated_from_roe_corner", lambda: aa.Layout2D.rotated_from_roe_corner(roe_corner=c, shape_native=shape, **kw)),
                ("Layout2D.new_rotated_from", lambda: lay0.new_rotated_from(roe_corner=c)),
            ):
                okc, L = _call(v, rid if not okR else mname, mk, lambda: "%s corner %s shape %s regions %s" % (mname, c, shape, slots))
                if not okc:
                    continue
                got = [tup(getattr(L, s)) for s in SLOTS]
                okL = True
                for s, g, w_ in zip(SLOTS, got, want):
                    okL &= v.ok(g == w_, rid if not okR else "%s:%s" % (mname, s),
                                lambda: "%s corner %s shape %s regions %s: %s -> %s want %s" % (mname, c, shape, slots, s, g, w_))
                v.ok(tuple(L.original_roe_corner) == c and tuple(L.shape_2d) == shape, mname + ":attributes",
                     lambda: "%s roe %s shape %s" % (mname, L.original_roe_corner, L.shape_2d))
                if not okL:
                    continue
                # twice restores every region
                okc, L2 = _call(v, rid if not okR else "Layout2D.new_rotated_from", lambda: L.new_rotated_from(roe_corner=c),
                                lambda: "%s then new_rotated_from, corner %s regions %s" % (mname, c, slots))
                if okc:
                    got2 = [tup(getattr(L2, s)) for s in SLOTS]
                    v.ok(got2 == [tup(s) for s in slots], rid if not okR else "rotate:involution:Layout2D.new_rotated_from:" + key,
                         lambda: "%s then new_rotated_from corner %s: %s want %s" % (mname, c, got2, slots))
                # extraction through the rotated layout from the rotated array = rotated content of the region
                if slots[0] is not None:
                    ex = L.extract_parallel_overscan_array_2d_from(array=A_rot)
                    v.ok(dom.exact(arr(ex.native), ref_rot_array(content(a, slots[0]), c)),
                         "Layout2D.extract_parallel_overscan_array_2d_from",
                         lambda: "corner %s region %s -> %s" % (c, slots[0], arr(ex.native).tolist()))
                if slots[2] is not None:
                    ex = L.extract_serial_overscan_array_from(array=A_rot)
                    v.ok(dom.exact(arr(ex.native), ref_rot_array(content(a, slots[2]), c)),
                         "Layout2D.extract_serial_overscan_array_from",
                         lambda: "corner %s region %s -> %s" % (c, slots[2], arr(ex.native).tolist()))
            # the layout rotates an array back to the orientation it is named for
            okc, back = _call(v, aid if not okA else "Layout2D.original_orientation_from:ndarray",
                              lambda: aa.Layout2D(shape_2d=shape, original_roe_corner=c, **kw).original_orientation_from(array=ar_ref.copy()), key)
            if okc:
                v.ok(dom.exact(back, a), aid if not okA else "Layout2D.original_orientation_from:ndarray", key)

    # ---- front / trailing / full sub-regions (unrotated frame: read-out at index (0, 0))
    tag = "Region2D%s in %s" % (r, shape)
    for p0 in range(0, nr + 1):
        for p1 in range(0, nr + 1):
            s = _span(rows[p0:p1])
            exp = (s[0], s[1], x0, x1) if s else None
            _sub2(v, exc, "Region2D.parallel_front_region_from:pixels", lambda: R.parallel_front_region_from(pixels=(p0, p1)), exp, a,
                  "%s.parallel_front_region_from(pixels=%s)" % (tag, (p0, p1)))
    for k in range(0, nr + 1):
        s = _span(rows[nr - k :] if k else [])
        exp = (s[0], s[1], x0, x1) if s else None
        _sub2(v, exc, "Region2D.parallel_front_region_from:pixels_from_end", lambda: R.parallel_front_region_from(pixels_from_end=k), exp, a,
              "%s.parallel_front_region_from(pixels_from_end=%d)" % (tag, k))
    below = list(range(y1, H))
    for p0 in range(0, len(below) + 1):
        for p1 in range(0, len(below) + 1):
            s = _span(below[p0:p1])
            exp = (s[0], s[1], x0, x1) if s else None
            _sub2(v, exc, "Region2D.parallel_trailing_region_from", lambda: R.parallel_trailing_region_from(pixels=(p0, p1)), exp, a,
                  "%s.parallel_trailing_region_from(pixels=%s)" % (tag, (p0, p1)))
    if below:
        _sub2(v, exc, "Region2D.parallel_trailing_region_from", lambda: R.parallel_trailing_region_from(), (y1, y1 + 1, x0, x1), a,
              "%s.parallel_trailing_region_from()" % tag)
    for p0 in range(0, nc + 1):
        for p1 in range(0, nc + 1):
            s = _span(cols[p0:p1])
            exp = (y0, y1, s[0], s[1]) if s else None
            _sub2(v, exc, "Region2D.serial_front_region_from:pixels", lambda: R.serial_front_region_from(pixels=(p0, p1)), exp, a,
                  "%s.serial_front_region_from(pixels=%s)" % (tag, (p0, p1)))
            expf = (0, H, s[0], s[1]) if s else None
            _sub2(v, exc, "Region2D.serial_towards_roe_full_region_from",
                  lambda: R.serial_towards_roe_full_region_from(shape_2d=shape, pixels=(p0, p1)), expf, a,
                  "%s.serial_towards_roe_full_region_from(pixels=%s)" % (tag, (p0, p1)))
            if s:
                got = R.serial_x_front_range_from(pixels=(p0, p1))
                v.ok(tuple(got) == s, "Region2D.serial_x_front_range_from", lambda: "%s pixels %s -> %s want %s" % (tag, (p0, p1), tuple(got), s))
    _sub2(v, exc, "Region2D.serial_towards_roe_full_region_from", lambda: R.serial_towards_roe_full_region_from(shape_2d=shape),
          (0, H, x0, x0 + 1), a, "%s.serial_towards_roe_full_region_from()" % tag)
    for k in range(0, nc + 1):
        s = _span(cols[nc - k :] if k else [])
        exp = (y0, y1, s[0], s[1]) if s else None
        _sub2(v, exc, "Region2D.serial_front_region_from:pixels_from_end", lambda: R.serial_front_region_from(pixels_from_end=k), exp, a,
              "%s.serial_front_region_from(pixels_from_end=%d)" % (tag, k))
    right = list(range(x1, W))
    for p0 in range(0, len(right) + 1):
        for p1 in range(0, len(right) + 1):
            s = _span(right[p0:p1])
            exp = (y0, y1, s[0], s[1]) if s else None
            _sub2(v, exc, "Region2D.serial_trailing_region_from", lambda: R.serial_trailing_region_from(pixels=(p0, p1)), exp, a,
                  "%s.serial_trailing_region_from(pixels=%s)" % (tag, (p0, p1)))
    if right:
        _sub2(v, exc, "Region2D.serial_trailing_region_from", lambda: R.serial_trailing_region_from(), (y0, y1, x1, x1 + 1), a,
              "%s.serial_trailing_region_from()" % tag)
    _sub2(v, exc, "Region2D.parallel_full_region_from", lambda: R.parallel_full_region_from(shape_2d=shape), (y0, y1, 0, W), a,
          "%s.parallel_full_region_from" % tag)

    # ---- unrotated Layout2D extraction of overscans, slim- and native-stored Array2D
    A = aa.Array2D.no_mask(values=a.copy(), pixel_scales=1.0)
    lay = aa.Layout2D(shape_2d=shape, parallel_overscan=r, serial_overscan=R, serial_prescan=r2)
    for storage, AA in (("slim", A), ("native", A.native)):
        ex = lay.extract_parallel_overscan_array_2d_from(array=AA)
        v.ok(dom.exact(arr(ex.native), cont) and tuple(ex.shape_native) == (nr, nc), "Layout2D.extract_parallel_overscan_array_2d_from",
             lambda: "%s %s -> %s" % (storage, r, arr(ex.native).tolist()))
        ex = lay.extract_serial_overscan_array_from(array=AA)
        v.ok(dom.exact(arr(ex.native), cont) and tuple(ex.shape_native) == (nr, nc), "Layout2D.extract_serial_overscan_array_from",
             lambda: "%s %s -> %s" % (storage, r, arr(ex.native).tolist()))


# ----------------------------------------------------------------------------- 2D extraction


def _check_extracted(v, fid, got, exp, window_content, exp_content, desc):
    """got: Region2D or None returned by the library; exp: tuple or None."""
    if exp is None:
        return v.ok(got is None, fid, lambda: "%s -> %s but region and window do not overlap" % (desc, tup(got)))
    if not v.ok(got is not None, fid, lambda: "%s -> None but the overlap is %s" % (desc, exp)):
        return False
    ok = v.ok(tup(got) == exp, fid, lambda: "%s -> %s want %s" % (desc, tup(got), exp))
    ok &= v.ok(dom.exact(window_content[got.slice], exp_content), fid,
               lambda: "%s: window[result] = %s, overlap content = %s" % (desc, window_content[got.slice].tolist(), exp_content.tolist()))
    return ok


def _overlap_content(a, r, e):
    o = (max(r[0], e[0]), min(r[1], e[1]), max(r[2], e[2]), min(r[3], e[3]))
    rows = [i for i in range(r[0], r[1]) if e[0] <= i < e[1]]
    cols = [j for j in range(r[2], r[3]) if e[2] <= j < e[3]]
    return np.array([[a[i, j] for j in cols] for i in rows]).reshape(len(rows), len(cols)), o


def _util_fid(v, lu, r, e):
    """x0x1_after_extraction on both axes; returns the finding id that explains a 2D failure (or None)."""
    bad = None
    for (o0, o1, e0, e1) in ((r[0], r[1], e[0], e[1]), (r[2], r[3], e[2], e[3])):
        exp = ref_interval(o0, o1, e0, e1)
        fid = "x0x1_after_extraction:" + rel_class(o0, o1, e0, e1)
        okc, got = _call(v, fid, lambda: tuple(lu.x0x1_after_extraction(x0o=o0, x1o=o1, x0e=e0, x1e=e1)),
                         "original %s window %s" % ((o0, o1), (e0, e1)))
        if not (okc and v.ok(got == exp, fid, lambda: "original %s window %s -> %s want %s" % ((o0, o1), (e0, e1), got, exp))):
            bad = bad or fid
    return bad


def _pair_fid(v, lu, r, e, exp):
    """Finding id of the util-level defect (1D clipping, else the 2D wrapper) on this (region, window) pair, or None."""
    u = _util_fid(v, lu, r, e)
    if u:
        return u
    fid = "region_after_extraction:overlap" if exp is not None else "region_after_extraction:no-overlap"
    okc, got = _call(v, fid, lambda: lu.region_after_extraction(original_region=r, extraction_region=e), "region %s window %s" % (r, e))
    if not (okc and v.ok(tup(got) == exp, fid, lambda: "region_after_extraction(original=%s, extraction=%s) -> %s want %s" % (r, e, tup(got), exp))):
        return fid
    return None


def run_ext(aa, lu, v, shape, r, e, seed):
    H, W = shape
    a = labels(shape, seed)
    cy, cx = rel_class(r[0], r[1], e[0], e[1]), rel_class(r[2], r[3], e[2], e[3])
    exp = ref_extract(r, e)
    v.outcome = "ext:%s/%s" % (cy, cx)
    v.nontrivial = exp is not None and (cy, cx) != ("covers", "covers")

    R, E = aa.Region2D(region=r), aa.Region2D(region=e)
    ufid = _util_fid(v, lu, r, e)
    win = content(a, e)
    ocont, _ = _overlap_content(a, r, e)
    fid2 = ufid or ("region_after_extraction:overlap" if exp is not None else "region_after_extraction:no-overlap")
    for oname, o in (("tuple", r), ("Region2D", R)):
        for ename, ee in (("tuple", e), ("Region2D", E)):
            desc = "region_after_extraction(original=%s %s, extraction=%s %s)" % (oname, r, ename, e)
            okc, got = _call(v, fid2, lambda: lu.region_after_extraction(original_region=o, extraction_region=ee), desc)
            if okc:
                _check_extracted(v, fid2, got, exp, win, ocont, desc)
    v.ok(lu.region_after_extraction(original_region=None, extraction_region=e) is None, "region_after_extraction:None", "")

    # ---- Layout2D.layout_extracted_from, every slot, on the layout rotated for every corner
    r2 = ref_rot_region(r, shape, (0, 1))
    for ci, c in enumerate(CORNERS):
        key = ck(c)
        slots = [None, None, None]
        slots[ci % 3] = r
        slots[(ci + 1) % 3] = r2
        kw = dict(zip(SLOTS, slots))
        rid = "rotate_region_via_roe_corner_from:" + key
        if ci == 0:
            L = aa.Layout2D(shape_2d=shape, original_roe_corner=c, **kw)
        else:
            okc, L = _call(v, rid, lambda: aa.Layout2D.rotated_from_roe_corner(roe_corner=c, shape_native=shape, **kw),
                           "Layout2D.rotated_from_roe_corner corner %s %s" % (c, slots))
            if not okc:
                continue
        rs = [ref_rot_region(s, shape, c) for s in slots]
        if not v.ok([tup(getattr(L, s)) for s in SLOTS] == rs, rid, lambda: "Layout2D.rotated_from_roe_corner corner %s %s" % (c, slots)):
            continue
        er = ref_rot_region(e, shape, c)
        ar = ref_rot_array(a, c)
        winr = content(ar, er)
        exps = [ref_extract(reg, er) for reg in rs]
        # a util-level defect on these very pairs explains a failure of the layout method: same id
        ufids = [None if reg is None else _pair_fid(v, lu, reg, er, x) for reg, x in zip(rs, exps)]
        anyu = next((u for u in ufids if u), None)
        for ename, ee in (("tuple", er), ("Region2D", aa.Region2D(region=er))):
            okc, Lx = _call(v, anyu or "Layout2D.layout_extracted_from", lambda: L.layout_extracted_from(extraction_region=ee),
                            lambda: "Layout2D(roe %s, %s).layout_extracted_from(%s %s)" % (c, rs, ename, er))
            if not okc:
                continue
            for s, reg, expr, u in zip(SLOTS, rs, exps, ufids):
                got = getattr(Lx, s)
                if reg is None:
                    v.ok(got is None, "Layout2D.layout_extracted_from:%s:None" % s, lambda: "absent region became %s" % (tup(got),))
                    continue
                oc, _ = _overlap_content(ar, reg, er)
                _check_extracted(v, u or ("Layout2D.layout_extracted_from:%s" % s), got, expr, winr, oc,
                                 "Layout2D(roe %s, %s=%s).layout_extracted_from(%s %s)" % (c, s, reg, ename, er))
            v.ok(tuple(Lx.original_roe_corner) == c, "Layout2D.layout_extracted_from:original_roe_corner",
                 lambda: "%s" % (Lx.original_roe_corner,))
