"""C09 - over-sampling: uniform partition, exact per-pixel means, the @over_sample decorator, the iterative rule."""
import itertools

import numpy as np

from mc import dom
from mc.core import V
from mc.ref import oversampling as ref

ID = "C09"
ENGINE = "scope"
CHUNK = 8

# ----------------------------------------------------------------------------- programs (user functions of (y, x))

AFFINE = [(a, b, c) for a in (-1, 0, 2) for b in (-1, 0, 2) for c in (-1, 0, 2)]  # includes the constants -1, 0, 2
NONLIN = ["yx", "absx", "gauss", "gaussn", "relux", "relud", "negq", "negg", "sincos", "peak", "rad", "indic", "quant"]
PROGRAMS = ["aff:%d:%d:%d" % t for t in AFFINE] + NONLIN
N_PROGRAMS = len(PROGRAMS)  # 40

# programs run through the iterative scheme: constants (0 => all-zero early return), positive / sign-changing affine,
# sign change, kink, smooth profiles, exact zeros on a half plane, negative-valued, strongly peaked
IT_PROGRAMS = ["aff:0:0:2", "aff:0:0:-1", "aff:0:0:0", "aff:2:2:2", "aff:-1:2:0", "yx", "absx", "gauss", "gaussn",
               "relux", "relud", "negq", "peak", "sincos"]
# programs whose BINNED value in a pixel changes sign from one sub-size level to the next. They are placed relative to the
# pixel centres of the case (parameters cy, cx, sy, sx, top, left, h, w are added to the function parameters by run_I).
# With c_s = 1 - 1/s^2 (c_1 = 0, c_2 = .75, c_3 = .8889, c_4 = .9375, c_5 = .96, c_8 = .984) and Q = (sy^2 + sx^2)/12 the
# exact mean of r^2 (r = distance to the pixel's centre) over the s x s partition of the pixel is Q*c_s, so
#   cap:a:A  = A*(a - r^2/Q)   has level values A*(a - c_s) in the target pixel (positive at level 1, decreasing in s) and
#   bowl:a:A = -cap:a:A        the opposite sign order (negative at level 1, increasing).
# a between c_s and c_s' puts the sign change between levels s and s'; the closer a to their midpoint the closer the
# MAGNITUDE ratio min(|prev|,|cur|)/max(|prev|,|cur|) to 1, while the ratio of the statement (smaller / larger value,
# previous value positive) is negative there and meets no accuracy. Menu = sign change at the first / second comparison of
# each schedule with magnitude ratio below .5, in [.5,.99), [.99,.9999), >= .9999, |prev| < |cur| and |prev| > |cur|,
# amplitude 1 (absolute differences >> 0.01) and 0.01 (absolute differences < 0.01 = the tolerance of the menu).
#   cosb:b   = cos(1.6 pi (y-cy)/sy) cos(1.6 pi (x-cx)/sx) - b   (level values 1-b, .0955-b, .0695-b, .0625-b, .0595-b, .0565-b
#              for s = 1,2,3,4,5,8 in the target pixel; other phases of the same wave in the other pixels)
#   cell:r   = in EVERY cell (iy,ix) of the frame its own cap/bowl around the cell's centre, entry (iy*w+ix+r) mod 12 of
#              CELL_MENU - all pixels of the mask change sign at their own level / ratio in ONE call, so pixels that are
#              accepted early sit next to sign-changing pixels that must carry on
SIGN_SMOOTH = ["cap:0.3:1", "cap:0.376:1", "cap:0.85:0.01", "cap:0.9245:1", "bowl:0.3:1", "cosb:0.5", "cosb:0.08"]
CELL_MENU = [(1, 0.3, 1.0), (1, 0.376, 1.0), (1, 0.37501, 1.0), (1, 0.445, 0.01), (1, 0.1, 1.0), (1, 0.844, 1.0),
             (1, 0.85, 0.01), (1, 0.9245, 1.0), (-1, 0.3, 1.0), (-1, 0.85, 1.0), (1, 1.3, 1.0), (1, 0.6, 1.0)]
SIGN_CELL = ["cell:0", "cell:6"]
IT_PROGRAMS = IT_PROGRAMS + SIGN_SMOOTH + SIGN_CELL
SCHEDULES = [[2, 4], [2, 4, 8], [3, 5, 2]]
FRACS = [0.5, 0.99, 0.9999]
TOLS = [None, 0.01]
TOLS_NOFRAC = [None, 0.01]  # tolerances paired with fractional_accuracy=None
# histories on ONE iterative sampler / ONE grid: (f1, f2) -> f1, f2, f1 again. f1 converges at an intermediate sub-size in
# some pixels (constants: in all), f2 runs to the last sub-size in some of them (and vice versa on the way back)
HIST_PAIRS = [("aff:0:0:2", "gaussn"), ("gauss", "peak"), ("peak", "sincos"), ("relux", "gauss"), ("cell:0", "peak")]
HIST_CONFIGS = [([2, 4, 8], 0.99, None), ([2, 4, 8], 0.9999, None), ([3, 5, 2], 0.99, 0.01)]

RULE = (
    "cases = (kind, mask, geometry): every boolean mask (>=1 unmasked pixel) of every shape HxW with H*W <= 9 x "
    "geometry menu (4 pixel-scale pairs x 3 origins) x kind in {G: sampler tables/positions/binning over every "
    "sub-size map of the menu, F: all %d programs through the decorator / array_via_func_from / Grid2DOverSampled / "
    "(also swept over a class of per-pixel maps: every map of {1,2,3}^n n<=3 and every alternating map [a,b,a,b..] a!=b in 1..4) / "
    "config-driven adaptive scheme, I: iterative scheme over programs x schedules x accuracies (a value or None = no "
    "fractional accuracy requested) x tolerances, each on a "
    "fresh sampler, followed by call histories f1,f2,f1 on ONE sampler object and on ONE grid through the decorator; the "
    "iterate programs include %d functions placed relative to the pixel centres of the case whose BINNED value changes "
    "sign between successive sub-size levels (paraboloid caps/bowls offset - r^2 around a target pixel, a cosine wave "
    "minus an offset, and cell-wise caps/bowls giving every pixel of the mask its own sign change)}; "
    "plus kind T = (mask with n unmasked pixels out of 4-5 shapes per n, block of 120 maps): the COMPLETE product of "
    "per-pixel sub-size maps over larger alphabets (up to 1..8), each map through the sampler tables only "
    "(over-sampled grid count/positions/order, slim_for_sub_slim, sub_total, sub-pixel areas and their sum, binning of "
    "labelled values, one affine function); "
    "non-trivial = G/F: mask has masked pixels and >= 2 unmasked pixels; I: at least two different stopping levels "
    "were observed among the runs of the case; T: n >= 2 and the block holds non-uniform maps (outcome lists which "
    "aggregate identities of a uniform map - sum of squares = n*first^2 / n*last^2, sum = n*first / n*last, "
    "first = last - some non-uniform map of the block satisfies by coincidence)" % (N_PROGRAMS, len(SIGN_SMOOTH) + len(SIGN_CELL))
)
ASSUMPTIONS = [
    "binning is value-oblivious (a weighted gather), so three labellings (injective signed, adversarial with "
    "zeros/negatives/denormal-small, seeded normal) plus the %d-program grammar represent all value arrays" % N_PROGRAMS,
    "sub-pixel positions are affine in (pixel scales, origin): 4 scale pairs (isotropic, two anisotropic, small "
    "non-dyadic) x 3 origins (zero and two non-zero) suffice to expose a wrong or forgotten term",
    "iterative rule: per-pixel decisions are independent, so masks with <= 6 cells (quick) expose every combination "
    "of stopping levels of neighbouring pixels; a pixel is excluded (outcome string 'skip<..%') when its decision "
    "would change under the uncertainty of the reference level values (spread under +-1e-12 position shifts + 1e-14 "
    "relative + summation rounding), when the ratio lies within 1e-9 of the threshold or |difference| within 1e-9 of "
    "the tolerance, or when a level value is zero only up to rounding (sign of 'previous value positive' undecidable)",
    "iterative rule, sign changes between levels: the agreement of the statement is the ratio of the smaller to the larger "
    "VALUE (signed) and exists only for a positive previous value, so a level whose value is negative after a positive "
    "previous level has a negative ratio and is never accepted however close the magnitudes, and a negative previous "
    "level accepts nothing; the reference transcribes exactly that (no absolute values, no sign normalisation). The "
    "level values of offset - r^2 in its own pixel are A*(a - (1 - 1/s^2)) for every geometry, so the menu of offsets a "
    "(0.1, 0.3, 0.376, 0.37501, 0.445, 0.6, 0.844, 0.85, 0.9245, 1.3) x amplitudes A (1, 0.01) x orientation (cap, "
    "bowl) puts the sign change at the first or the second comparison of each schedule of the menu with a magnitude "
    "ratio below 0.5, in [0.5,0.99), [0.99,0.9999) and above 0.9999, with |previous| < |next| and |previous| > |next|, "
    "with absolute differences above and below the tolerance 0.01 (outcome 'flip[...]' lists the classes the reference "
    "walked through: '+-hi</>@1/@2' positive->negative with a magnitude ratio that reaches the accuracy, '+-lo' one "
    "that does not, '-+' negative->positive); none of these ratios is within 1e-9 of a threshold under the statement's "
    "signed ratio, so no tie band is involved",
    "iterative rule without a requested fractional accuracy (fractional_accuracy=None, which the library's constructor "
    "and its 'is not None' guards accept): there is no fractional requirement to meet, so a level is accepted iff the "
    "absolute-difference tolerance, if set, is met (with neither set: the first sub-size of the schedule for every pixel)",
    "Grid2DOverSampled through the decorator: the result is the sampler's per-pixel mean whatever the map, so the sweep "
    "holds non-uniform maps whose total sub-pixel count is a multiple of the pixel count ([1,3], [1,2,2], [2,4,2,4], ...; "
    "outcome ':e4mapsN:div') next to those where it is not, all compared with the reference means",
    "samplers hold no state between calls by specification: within one case one uniform sampler / one grid serves all "
    "programs and labellings in turn (a mismatch that a fresh sampler does not show is classed "
    "'...:second-call-on-same-sampler' / '...:second-call-on-same-grid'), and one iterative sampler (and one grid with a "
    "cached iterative sampler) is called with f1, f2, f1 for 5 function pairs chosen so that pixels which stop at an "
    "intermediate sub-size under one function run to the last sub-size under the other (outcome 'hist-crossK/5' = number "
    "of pairs for which the reference stopping levels show such a pixel); each result must equal bitwise the value a "
    "fresh sampler returned (which is itself checked against the reference), so tie bands do not matter here",
    "the two step-valued programs (indic, quant) are skipped for a (geometry, map) when a sub-pixel centre lies within "
    "1e-7 of one of their jumps (never for seed 0, where the smallest margin over all geometries/sub-sizes is 2e-5; "
    "outcome ':jump-tie-skip')",
    "T: the index tables of a per-pixel map depend on the mask only through the number and slim order of its unmasked "
    "pixels and on the map through each pixel's own entry (pixel k owns s_k^2 consecutive sub-pixels inside its own "
    "cell), so the expected grid of a map is the concatenation over pixels of the reference grid rows of pixel k at "
    "uniform sub-size s_k (the splice is asserted equal to ref.sub_grid on the map itself for the first and last map of "
    "every block); an implementation shortcut keyed on ANY aggregate of the map (total sub-pixel count, sum, extremes, "
    "first/last entry) that a non-uniform map shares with a uniform one by coincidence is reached because the product "
    "over the alphabet is complete within the bound (e.g. [5,1,7], [3,1,1,5], [3,5,3,1,1], [2,4,1,1,1,1] all have "
    "sum of squares = n*first^2)",
    "program count: %d distinct functions = 27 affine a*y+b*x+c (a,b,c in {-1,0,2}; includes 3 constants) + %d "
    "non-linear (y*x, |x|, 2 Gaussians, 2 half-plane-zero ReLUs, 2 negative-valued, sin*cos, peaked 1/(0.1+r^2), r); "
    "each is also called through 3 method styles (bare self-named, bare obj-named, stacked on to_array); the iterative "
    "scheme runs 14 of them + %d geometry-relative sign-changing programs (%s)"
    % (N_PROGRAMS, len(NONLIN), len(SIGN_SMOOTH) + len(SIGN_CELL), ", ".join(SIGN_SMOOTH + SIGN_CELL)),
]
BOUNDS = {
    "quick": "masks with <= 9 cells (3187, all shapes incl. 1xN/Nx1) x 12 geometries (4 scale pairs x 3 origins). "
    "G (sampler tables, positions, binning of labelled values, affine exactness, GridsDataset): geometry #4 with "
    "uniform 1..4 (int form) + 2 cyclic 1..4 patterns + every map in {1,2,3}^n for n<=4 unmasked pixels (array form), "
    "geometry #8 with uniform 1..4 + 2 cyclic patterns, the other 10 geometries with uniform 3 + cyclic. "
    "F (38 programs): maps {1, all-ones array, 2, 3, cyclic} x entry points {bare/obj-named/stacked decorated method "
    "on Grid2D.from_mask / Grid2D(values) / Grid2D.uniform / grid.native, Grid2DOverSampled, array_via_func_from with "
    "and without obj, config-driven adaptive scheme (2 configs)} on geometry #4 for every mask and on geometry #8 for "
    "masks <= 6 cells, and there also Grid2DOverSampled (bare and stacked decorated method, 3 programs) over the 12 "
    "alternating maps [a,b,a,b..] a!=b in 1..4 for every n and every map in {1,2,3}^n for n<=3; "
    "cyclic map x {bare decorated method, array_via_func_from} on the other 10 geometries for "
    "masks <= 6 cells. I: masks <= 6 cells x geometries {#0, #4} x 23 programs (14 of the grammar + 7 smooth sign-changing "
    "programs centred on the middle unmasked pixel + 2 cell-wise ones over a 12-entry offset/amplitude/orientation menu "
    "rotated by 0 and 6 cells) x schedules {[2,4],[2,4,8],[3,5,2]} x "
    "fractional accuracies {0.5,0.99,0.9999} x absolute tolerances {None,0.01} + fractional accuracy None x tolerances "
    "{None,0.01} (24 configurations), direct call + decorated call; then "
    "5 pairs (f1,f2) x call history f1,f2,f1 on one OverSamplerIterate and on one Grid2D(OverSamplingIterate) "
    "(configs ([2,4,8],0.99), ([2,4,8],0.9999), ([3,5,2],0.99,tol 0.01) rotating over the pairs). "
    "T (tables only, array-form maps): every map in {1..8}^n for n<=4, {1,2,3,4,5}^5, {1,2,4}^6 (8+64+512+4096+3125+729 "
    "maps) on each of 4-5 masks per pixel count n (full row 1xn, full column nx1, and the first / middle / last 3x3 "
    "mask with n unmasked pixels in bit-pattern order), geometries #4/#8 alternating over the masks",
    "thorough": "T with {1..8}^n n<=4, {1,2,3,4,5,7}^5, {1,2,3,4}^6 u {1,2,4,8}^6, {1,2,4}^n n=7,8 (3x4 frame for n>=7); "
    "otherwise as quick with uniform maps 1..8, every map in {1,2,3}^n for n<=5 on geometries #4/#8 and n<=4 on "
    "the other 10, F with all entry points (+ uniform 4 and 8) on all 12 geometries for every mask, I on masks <= 9 "
    "cells x geometries {#0,#4,#8,#10}",
}

MAIN_GEOMS = (4, 8)  # indexes into geoms(): anisotropic scales with non-zero origins
IT_GEOMS = (0, 4)  # iterative scheme, quick tier: unit scales / zero origin (exact zeros on the axes) + anisotropic


def geoms(seed):
    """4 pixel-scale pairs x 3 origins; (1,1) and (0,0) stay exact for every seed, the rest is seed-jittered."""
    if int(seed) == 0:
        j = lambda: 0.0
    else:
        r = dom.rng(seed, "C09geom")
        j = lambda: float(np.round(r.uniform(-0.2, 0.2), 3))
    scales = [(1.0, 1.0), (0.5 * (1 + j()), 2.0 * (1 + j())), (1.5 * (1 + j()), 0.3 * (1 + j())),
              (0.05 * (1 + j()), 0.07 * (1 + j()))]
    origins = [(0.0, 0.0), (0.3 + j(), -1.1 + j()), (-2.5 + j(), 0.75 + j())]
    return [(s[0], s[1], o[0], o[1]) for s in scales for o in origins]


def fun_params(seed):
    if int(seed) == 0:
        return {"gy": 0.2, "gx": -0.1, "sig": 1.0, "sign": 0.3, "ny": -0.15, "nx": 0.25, "ampj": 1.0}
    r = dom.rng(seed, "C09fun")
    u = lambda lo, hi: float(np.round(r.uniform(lo, hi), 3))
    return {"gy": u(-0.3, 0.3), "gx": u(-0.3, 0.3), "sig": u(0.8, 1.2), "sign": u(0.25, 0.4), "ny": u(-0.3, 0.3),
            "nx": u(-0.3, 0.3), "ampj": u(0.8, 1.25)}  # ampj: amplitude of the unit-amplitude sign-changing programs


def feval(name, y, x, p):
    """The program grammar. All programs are continuous (no value jumps), so 1e-16 position noise cannot flip them."""
    if name.startswith("aff:"):
        a, b, c = (float(t) for t in name.split(":")[1:])
        return a * y + b * x + c
    if name == "yx":
        return y * x
    if name == "absx":
        return np.abs(x) + 0.0 * y
    if name == "gauss":
        return np.exp(-((y - p["gy"]) ** 2 + (x - p["gx"]) ** 2) / (2.0 * p["sig"] ** 2))
    if name == "gaussn":
        return 3.0 * np.exp(-((y - p["ny"]) ** 2 + (x - p["nx"]) ** 2) / (2.0 * p["sign"] ** 2))
    if name == "relux":  # exact zeros on the half plane x <= 0
        return np.maximum(x, 0.0) + 0.0 * y
    if name == "relud":  # exact zeros on the half plane y <= x + 0.1
        return np.maximum(y - x - 0.1, 0.0)
    if name == "negq":  # negative everywhere
        return -(1.0 + y * y + 0.5 * x * x)
    if name == "negg":
        return -2.0 * np.exp(-(y * y + x * x) / 2.0) - 0.01
    if name == "sincos":
        return np.sin(1.3 * y) * np.cos(0.7 * x)
    if name == "peak":
        return 1.0 / (0.1 + y * y + x * x)
    if name == "rad":
        return np.sqrt(y * y + x * x)
    # programs placed relative to the pixel centres of the case (iterative scheme only; p carries the geometry)
    if name.startswith("cap:") or name.startswith("bowl:"):
        kind, alpha, amp = name.split(":")
        q = (p["sy"] ** 2 + p["sx"] ** 2) / 12.0
        amp = float(amp) * (p["ampj"] if float(amp) >= 1.0 else 1.0)
        val = amp * (float(alpha) - ((y - p["cy"]) ** 2 + (x - p["cx"]) ** 2) / q)
        return val if kind == "cap" else -val
    if name.startswith("cosb:"):
        wy, wx = 1.6 * np.pi / p["sy"], 1.6 * np.pi / p["sx"]
        return np.cos(wy * (y - p["cy"])) * np.cos(wx * (x - p["cx"])) - float(name.split(":")[1])
    if name.startswith("cell:"):
        # piecewise: the cell of the frame that holds the point decides centre, orientation, offset and amplitude. Sub-pixel
        # centres stay >= 1/16 of a pixel away from the cell borders, so the cell of a point is never in doubt.
        rot = int(name.split(":")[1])
        iy = np.clip(np.floor((p["top"] - y) / p["sy"]), 0, p["h"] - 1)
        ix = np.clip(np.floor((x - p["left"]) / p["sx"]), 0, p["w"] - 1)
        ccy = p["top"] - (iy + 0.5) * p["sy"]
        ccx = p["left"] + (ix + 0.5) * p["sx"]
        ent = ((iy * p["w"] + ix).astype(int) + rot) % len(CELL_MENU)
        menu = np.array(CELL_MENU)
        sgn, alpha, amp = menu[ent, 0], menu[ent, 1], menu[ent, 2]
        amp = np.where(amp >= 1.0, amp * p["ampj"], amp)
        q = (p["sy"] ** 2 + p["sx"] ** 2) / 12.0
        return sgn * amp * (alpha - ((y - ccy) ** 2 + (x - ccx) ** 2) / q)
    # integer / boolean valued programs (the binned value is still the arithmetic mean). Their jumps sit on curves that the
    # sub-pixel centres of the seed-0 geometries stay > 2e-5 away from; seed-jittered geometries (3-decimal parameters) can
    # put a centre exactly on a jump, so run_F skips such a program for a map when jump_margin() < 1e-7 (tie band).
    if name == "indic":
        return (np.sqrt((y - 0.0123) ** 2 + (x + 0.0271) ** 2) < 1.03719).astype(int)
    if name == "quant":
        return np.floor(1.7 * y - 0.9 * x + 0.31337).astype(int)
    raise KeyError(name)


JUMPY = ("indic", "quant")


def jump_margin(name, y, x):
    """Smallest distance (in units of the argument of the step) of the points to a discontinuity of a JUMPY program."""
    if name == "indic":
        return float(np.abs(np.sqrt((y - 0.0123) ** 2 + (x + 0.0271) ** 2) - 1.03719).min())
    t = 1.7 * y - 0.9 * x + 0.31337
    return float(np.abs(t - np.round(t)).min())


def is_affine(name):
    return name.startswith("aff:")


# ----------------------------------------------------------------------------- profile classes (built after import)

_CLS = None


def classes():
    global _CLS
    if _CLS is not None:
        return _CLS
    import autoarray as aa

    class VerifC09Prof:
        def __init__(self, name, par, centre=(0.0, 0.0)):
            self.name, self.par, self.centre = name, par, centre
            self.calls = []

        def raw(self, grid, *args, **kwargs):
            g = np.array(grid)
            self.calls.append(g.shape[0])
            return feval(self.name, g[:, 0], g[:, 1], self.par)

        @aa.over_sample
        def bare_self(self, grid, *args, **kwargs):
            return VerifC09Prof.raw(self, grid)

        @aa.over_sample
        def bare_obj(obj, grid, *args, **kwargs):
            return VerifC09Prof.raw(obj, grid)

        @aa.over_sample
        @aa.grid_dec.to_array
        def stacked(self, grid, *args, **kwargs):
            return VerifC09Prof.raw(self, grid)

    class VerifC09AdaptA(VerifC09Prof):  # grids.yaml: radial factors [0.75, 1.6], sub sizes [3, 2, 1]
        pass

    class VerifC09AdaptB(VerifC09Prof):  # grids.yaml: radial factors [1.2], sub sizes [4, 2]
        pass

    def plain(grid, *args, **kwargs):  # a free function, for array_via_func_from(obj=None)
        g = np.array(grid)
        return feval(plain.name, g[:, 0], g[:, 1], plain.par)

    _CLS = {"P": VerifC09Prof, "A": VerifC09AdaptA, "B": VerifC09AdaptB, "plain": plain}
    return _CLS


E4_PROGRAMS = ["aff:2:-1:2", "gauss", "sincos"]  # programs of the Grid2DOverSampled map sweep (last one through the stacked decorator)
ADAPT_CFG = {"A": ([0.75, 1.6], [3, 2, 1]), "B": ([1.2], [4, 2])}

# ----------------------------------------------------------------------------- enumeration


def cases(tier, seed):
    t = "q" if tier == "quick" else "t"
    ng = 12
    it_geoms = IT_GEOMS if tier == "quick" else (0, 4, 8, 10)
    for (h, w, bits) in dom.all_mask_cases(9):
        cells = h * w
        for gi in range(ng):
            yield ["G", h, w, bits, gi, int(seed), t]
        for gi in range(ng):
            if tier == "thorough" or gi == MAIN_GEOMS[0] or cells <= 6:
                yield ["F", h, w, bits, gi, int(seed), t]
        if cells <= 6 or tier == "thorough":
            for gi in it_geoms:
                yield ["I", h, w, bits, gi, int(seed), t]
    # T: complete sub-size-map products (per-pixel maps over larger alphabets) on a few mask shapes per pixel count
    for n in range(1, TABLE_NMAX[t] + 1):
        nblocks = -(-table_map_count(n, t) // TABLE_BLOCK)
        for mi, (h, w, bits) in enumerate(table_masks(n)):
            for blk in range(nblocks):
                yield ["T", h, w, bits, MAIN_GEOMS[mi % 2], int(seed), t, blk]


def sub_maps(n, full, tier):
    """(tag, map, int_form). int_form: the sampler is given a python int (uniform) instead of an Array2D.
    full: -1 = light menu (uniform 3 + cyclic), 0 = uniform menu + cyclic patterns, 1 = + every map in {1,2,3}^n for
    n <= 4, 2 = + every map in {1,2,3}^n for n <= 5 (thorough main geometries)."""
    cyc = ("cyc", [(k % 4) + 1 for k in range(n)], False)
    if full < 0:
        return [("u3", [3] * n, True), cyc]
    top = 4 if tier == "q" else 8
    out = [("u%d" % s, [s] * n, True) for s in range(1, top + 1)]
    out.append(cyc)
    if n >= 2:
        out.append(("cyc2", [((k + 2) % 4) + 1 for k in range(n)], False))
    if full >= 1 and n <= (5 if full == 2 else 4):
        for mp in itertools.product((1, 2, 3), repeat=n):
            out.append(("p" + "".join(map(str, mp)), list(mp), False))
    return out


# T: per-pixel maps over larger alphabets, enumerated completely (itertools.product order) and cut into blocks of
# TABLE_BLOCK maps per case. A non-uniform map can share any aggregate of a uniform map (sum of squares = n*s0^2 as in
# [5,1,7] / [3,1,1,5] / [2,4,1,1,1,1], equal sums, equal extremes, first == last, ...) only by coincidence; the complete
# product contains every such coincidence within the bound, whatever aggregate a shortcut might test.
TABLE_BLOCK = 120
TABLE_NMAX = {"q": 6, "t": 8}
TABLE_ALPHABETS = {
    # n unmasked pixels -> alphabets whose complete n-fold products are enumerated (union, first occurrence kept)
    "q": {1: [(1, 2, 3, 4, 5, 6, 7, 8)], 2: [(1, 2, 3, 4, 5, 6, 7, 8)], 3: [(1, 2, 3, 4, 5, 6, 7, 8)],
          4: [(1, 2, 3, 4, 5, 6, 7, 8)], 5: [(1, 2, 3, 4, 5)], 6: [(1, 2, 4)]},
    "t": {1: [(1, 2, 3, 4, 5, 6, 7, 8)], 2: [(1, 2, 3, 4, 5, 6, 7, 8)], 3: [(1, 2, 3, 4, 5, 6, 7, 8)],
          4: [(1, 2, 3, 4, 5, 6, 7, 8)], 5: [(1, 2, 3, 4, 5, 7)], 6: [(1, 2, 3, 4), (1, 2, 4, 8)],
          7: [(1, 2, 4)], 8: [(1, 2, 4)]},
}
_TM = {}


def table_maps(n, t):
    """Every map of the T kind for n unmasked pixels, in a fixed order."""
    if (n, t) not in _TM:
        out, seen = [], set()
        for alpha in TABLE_ALPHABETS[t][n]:
            for mp in itertools.product(alpha, repeat=n):
                if mp not in seen:
                    seen.add(mp)
                    out.append(mp)
        _TM[(n, t)] = out
    return _TM[(n, t)]


def table_map_count(n, t):
    return len(table_maps(n, t))


def table_masks(n):
    """Mask shapes with exactly n unmasked pixels: the full row 1xn, the full column nx1, and (3x3 frame for n <= 6, 3x4
    frame above) the first, the middle and the last mask with n unmasked pixels in the enumeration order of the bit
    patterns (unmasked block at the end / scattered / unmasked block at the start of the frame)."""
    out = [(1, n, 0)]
    if n > 1:
        out.append((n, 1, 0))
    h, w = (3, 3) if n <= 6 else (3, 4)
    cells = h * w
    pats = [b for b in range(2 ** cells - 1) if cells - bin(b).count("1") == n]
    for b in (pats[0], pats[len(pats) // 2], pats[-1]):
        if (h, w, b) not in out:
            out.append((h, w, b))
    return out


# ----------------------------------------------------------------------------- helpers


def _a(x):
    return np.array(x)


def _close(got, want, scale=1.0):
    got, want = np.asarray(got, dtype=float), np.asarray(want, dtype=float)
    if got.shape != want.shape:
        return False
    return bool(np.all(np.abs(got - want) <= 1e-11 * scale + 1e-10 * np.abs(want)))


def _mk_mask(aa, m, g):
    return aa.Mask2D(mask=m.copy(), pixel_scales=(g[0], g[1]), origin=(g[2], g[3]))


def _sampler(aa, mask, smap, int_form):
    if int_form:
        return aa.OverSamplerUniform(mask=mask, sub_size=int(smap[0]))
    return aa.OverSamplerUniform(mask=mask, sub_size=aa.Array2D(values=np.array(smap, dtype=int), mask=mask))


def _over_sampling(aa, mask, smap, int_form):
    if int_form:
        return aa.OverSamplingUniform(sub_size=int(smap[0]))
    return aa.OverSamplingUniform(sub_size=aa.Array2D(values=np.array(smap, dtype=int), mask=mask))


def check_grid(v, g, pts, tol, tag):
    """positions / order / count of the over-sampled grid, classified separately."""
    if g.shape != pts.shape:
        v.fail("over_sampled_grid:count", "%s shape %s, want %s" % (tag, g.shape, pts.shape))
        return False
    v.ok(True, "over_sampled_grid:count")
    if np.all(np.abs(g - pts) <= tol):
        v.ok(True, "over_sampled_grid:positions")
        v.ok(True, "over_sampled_grid:order")
        return True

    def canon(a):
        k = np.round(a / (1e3 * tol)).astype(np.int64)
        return a[np.lexsort((k[:, 1], k[:, 0]))]

    same_set = bool(np.all(np.abs(canon(g) - canon(pts)) <= tol))
    bad = int(np.argmax(np.abs(g - pts).max(axis=1) > tol))
    msg = "%s first differing sub-pixel %d: got %s want %s" % (tag, bad, g[bad].tolist(), pts[bad].tolist())
    if same_set:
        v.ok(True, "over_sampled_grid:positions")
        v.fail("over_sampled_grid:order", msg)
    else:
        v.fail("over_sampled_grid:positions", msg)
    return False


_RND = {}


def labellings(T, seed, lean=False):
    k = np.arange(T)
    inj = np.where(k % 3 == 1, -1.0, 1.0) * (1.0 + k) * 0.37
    menu = np.array([0.0, -0.0, -2.5, 1e-300, 3.0, -7.0, 7.25, 0.0, -1e-300])
    adv = menu[(k * 5 + 2) % len(menu)]
    if lean:
        return [("inj", inj), ("adv", adv)]
    if seed not in _RND:
        _RND.clear()
        _RND[seed] = dom.rng(seed, "C09lab").normal(size=9 * 64 + 1)
    rnd = _RND[seed][:T].copy()
    return [("inj", inj), ("adv", adv), ("rnd", rnd)]


# ----------------------------------------------------------------------------- run_case


class V9(V):
    """V with a per-finding-class cap (3 per case) so that one defect cannot exhaust the 20-violation list of a case
    and hide a different finding class."""

    __slots__ = ("per",)

    def __init__(self, pid):
        V.__init__(self, pid)
        self.per = {}

    def fail(self, finding, msg="", counted=False):
        k = self.per.get(finding, 0)
        self.per[finding] = k + 1
        if k >= 3:
            if not counted:
                self.checks += 1
            return
        V.fail(self, finding, msg, counted)


def run_case(case):
    import autoarray as aa

    kind, h, w, bits, gi, seed, t = case[:7]
    v = V9(ID)
    m = dom.mask_from_bits(h, w, bits)
    g = geoms(seed)[gi]
    if kind == "G":
        run_G(aa, v, m, g, gi, seed, t)
    elif kind == "F":
        run_F(aa, v, m, g, gi, seed, t)
    elif kind == "T":
        run_T(aa, v, m, g, gi, seed, t, case[7])
    else:
        run_I(aa, v, m, g, gi, seed, t)
    return v.result()


# ---- one sampler, one map: all tables ---------------------------------------------------------------------------------


def check_map(aa, v, mask, m, g, cen, cscale, tol, seed, par, tag, smap, int_form, pts, owner, lean):
    """Every table / position / binning observable of ONE uniform sampler for ONE sub-size map against the reference
    (pts, owner) = sub-pixel centres and owning pixel of every sub-pixel, listed pixel by pixel in slim order."""
    sy, sx, oy, ox = g
    n = int((~m).sum())
    P = classes()["P"]
    T = pts.shape[0]
    os_ = _sampler(aa, mask, smap, int_form)
    gg = _a(os_.over_sampled_grid)
    check_grid(v, gg, pts, tol, "map=%s" % tag)
    # index table / areas / totals
    sfs = _a(os_.slim_for_sub_slim)
    v.ok(dom.exact(sfs, owner), "slim_for_sub_slim", lambda: "map=%s got %s want %s" % (tag, sfs.tolist(), owner.tolist()))
    v.ok(int(os_.sub_total) == T, "sub_total", lambda: "map=%s got %s want %d" % (tag, os_.sub_total, T))
    areas = _a(os_.sub_pixel_areas)
    want_areas = np.array([sy * sx / (smap[k] ** 2) for k in owner.tolist()])
    v.ok(areas.shape == want_areas.shape and bool(np.all(np.abs(areas - want_areas) <= 1e-12 * sy * sx)),
         "sub_pixel_areas", lambda: "map=%s got %s want %s" % (tag, areas.tolist(), want_areas.tolist()))
    v.ok(abs(float(areas.sum()) - n * sy * sx) <= 1e-12 * n * sy * sx * 10, "sub_pixel_areas:sum",
         lambda: "map=%s sum %r want %r" % (tag, float(areas.sum()), n * sy * sx))
    if int_form or len(set(smap)) == 1:
        nat = _a(os_.sub_mask_native_for_sub_mask_slim)
        want_nat = ref.sub_native_index(m, smap[0])
        v.ok(dom.exact(nat, want_nat), "sub_mask_native_for_sub_mask_slim",
             lambda: "map=%s got %s want %s" % (tag, nat.tolist(), want_nat.tolist()))
    # binning of labelled sub-values
    for lname, vals in labellings(T, seed, lean):
        want = ref.bin_mean(vals, owner, n)
        keep = vals.copy()
        b = os_.binned_array_2d_from(array=vals)
        sc = max(1.0, float(np.abs(vals).max()))
        if _close(_a(b), want, sc):
            v.ok(True, "binned_array_2d_from:mean")
        else:
            # the sampler has been used before (earlier labellings / maps share no state by specification): a fresh
            # sampler that gets it right pins the defect on state kept between calls
            bf = _sampler(aa, mask, smap, int_form).binned_array_2d_from(array=vals.copy())
            v.fail("binned_array_2d_from:second-call-on-same-sampler" if (lname != "inj" and _close(_a(bf), want, sc))
                   else "binned_array_2d_from:mean",
                   "map=%s labels=%s got %s want %s (fresh sampler: %s)" % (tag, lname, _a(b).tolist(), want.tolist(), _a(bf).tolist()))
        v.ok(dom.exact(vals, keep), "binned_array_2d_from:input-mutated", tag)
        v.ok(dom.exact(_a(b.mask), m), "binned_array_2d_from:result-mask", tag)
    b2 = os_.binned_array_2d_from(array=aa.ArrayIrregular(values=vals))
    v.ok(_close(_a(b2), want, sc), "binned_array_2d_from:mean", lambda: "map=%s ArrayIrregular input" % tag)
    # constants / affine functions are reproduced at pixel centres
    for name in (("aff:2:-1:2",) if lean else ("aff:0:0:-1", "aff:2:-1:2", "aff:-1:2:0")):
        prof = P(name, par)
        out = _a(os_.array_via_func_from(func=P.raw, obj=prof))
        want_c = feval(name, cen[:, 0], cen[:, 1], par)
        v.ok(_close(out, want_c, cscale * 3), "binned:affine-exact-at-centre",
             lambda: "map=%s f=%s got %s want %s" % (tag, name, out.tolist(), want_c.tolist()))


# ---- G: sampler tables, positions, binning -------------------------------------------------------------------------


def run_G(aa, v, m, g, gi, seed, t):
    sy, sx, oy, ox = g
    n = int((~m).sum())
    mask = _mk_mask(aa, m, g)
    cen = ref.pixel_centres(m, sy, sx, oy, ox)
    cscale = max(1.0, float(np.abs(cen).max()) + sy + sx)
    tol = 1e-12 * cscale
    if t == "t":
        full = 2 if gi in MAIN_GEOMS else 1
    else:
        full = 1 if gi == MAIN_GEOMS[0] else (0 if gi == MAIN_GEOMS[1] else -1)
    maps = sub_maps(n, full, t)
    v.nontrivial = bool(m.any()) and n >= 2
    v.outcome = "G:n%d:maps%d:%s" % (n, len(maps), "nonuniform" if any(len(set(mp[1])) > 1 for mp in maps) else "uniform-only")
    P = classes()["P"]
    par = fun_params(seed)
    for tag, smap, int_form in maps:
        pts, owner = ref.sub_grid(m, sy, sx, oy, ox, smap)
        check_map(aa, v, mask, m, g, cen, cscale, tol, seed, par, tag, smap, int_form, pts, owner, tag[0] == "p")
    # dataset grids (anchor autoarray/dataset/grids.py)
    from autoarray.dataset.grids import GridsDataset

    smap = [(k % 3) + 1 for k in range(n)]
    U = _over_sampling(aa, mask, smap, False)
    gd = GridsDataset(mask=mask, over_sampling=aa.OverSamplingDataset(uniform=U))
    gu = gd.uniform
    v.ok(np.all(np.abs(_a(gu) - cen) <= tol), "GridsDataset.uniform:values")
    pts, owner = ref.sub_grid(m, sy, sx, oy, ox, smap)
    check_grid(v, _a(gu.over_sampler.over_sampled_grid), pts, tol, "GridsDataset.uniform")
    v.ok(gd.non_uniform is None, "GridsDataset.non_uniform")
    pts4, _ = ref.sub_grid(m, sy, sx, oy, ox, [4] * n)
    g4 = _a(gd.over_sampler_pixelization.over_sampled_grid)
    if v.ok(g4.shape == pts4.shape, "GridsDataset.pixelization:default-sub-size-4", lambda: "shape %s want %s" % (g4.shape, pts4.shape)):
        check_grid(v, g4, pts4, tol, "GridsDataset.pixelization default")
    gd2 = GridsDataset(mask=mask, over_sampling=aa.OverSamplingDataset(pixelization=U, non_uniform=aa.OverSamplingUniform(sub_size=2)))
    g5 = _a(gd2.over_sampler_pixelization.over_sampled_grid)
    if v.ok(g5.shape == pts.shape, "GridsDataset.pixelization:sub-size", lambda: "shape %s want %s" % (g5.shape, pts.shape)):
        check_grid(v, g5, pts, tol, "GridsDataset.pixelization")
    pts2, _ = ref.sub_grid(m, sy, sx, oy, ox, [2] * n)
    g6 = _a(gd2.over_sampler_non_uniform.over_sampled_grid)
    if v.ok(g6.shape == pts2.shape, "GridsDataset.non_uniform:sub-size", lambda: "shape %s want %s" % (g6.shape, pts2.shape)):
        check_grid(v, g6, pts2, tol, "GridsDataset.non_uniform")
    v.ok(np.all(np.abs(_a(gd2.non_uniform) - cen) <= tol) and np.all(np.abs(_a(gd2.pixelization) - cen) <= tol),
         "GridsDataset:grid-values")


# ---- T: complete products of per-pixel sub-size maps (tables only, no function grammar) --------------------------------------
_AGG = (
    ("sumsq=n*first^2", lambda a: int((a ** 2).sum()) == a.size * int(a[0]) ** 2),
    ("sumsq=n*last^2", lambda a: int((a ** 2).sum()) == a.size * int(a[-1]) ** 2),
    ("sum=n*first", lambda a: int(a.sum()) == a.size * int(a[0])),
    ("first=last", lambda a: a[0] == a[-1]),
    ("sum=n*last", lambda a: int(a.sum()) == a.size * int(a[-1])),
)


def run_T(aa, v, m, g, gi, seed, t, blk):
    sy, sx, oy, ox = g
    n = int((~m).sum())
    mask = _mk_mask(aa, m, g)
    cen = ref.pixel_centres(m, sy, sx, oy, ox)
    cscale = max(1.0, float(np.abs(cen).max()) + sy + sx)
    tol = 1e-12 * cscale
    par = fun_params(seed)
    maps = table_maps(n, t)[blk * TABLE_BLOCK:(blk + 1) * TABLE_BLOCK]
    # reference, from the definition: the sub-pixels of pixel k are the centres of ITS s_k x s_k partition and pixels are
    # listed one after the other in slim order, so the expected grid of a map is the concatenation over k of pixel k's rows of
    # the reference grid with uniform sub-size s_k (ref.sub_grid is called once per sub-size, not once per map)
    blocks = {}
    for s in sorted(set(x for mp in maps for x in mp)):
        pu, ou = ref.sub_grid(m, sy, sx, oy, ox, [s] * n)
        for k in range(n):
            blocks[(k, s)] = pu[ou == k]
    coincide = set()
    nonuni = 0
    for j, mp in enumerate(maps):
        smap = list(mp)
        pts = np.concatenate([blocks[(k, s)] for k, s in enumerate(smap)], axis=0)
        owner = np.repeat(np.arange(n), np.array(smap, dtype=int) ** 2)
        if j in (0, len(maps) - 1):
            # harness self-check: the spliced reference is the reference model evaluated on the map itself
            p0, o0 = ref.sub_grid(m, sy, sx, oy, ox, smap)
            if not (dom.exact(p0, pts) and dom.exact(o0, owner)):
                raise RuntimeError("C09 harness: spliced reference differs from ref.sub_grid for map %s" % (smap,))
        if len(set(smap)) > 1:
            nonuni += 1
            a = np.array(smap, dtype=np.int64)
            for name, pred in _AGG:
                if pred(a):
                    coincide.add(name)
        check_map(aa, v, mask, m, g, cen, cscale, tol, seed, par, "t" + ".".join(map(str, smap)), smap, False, pts, owner, True)
    v.nontrivial = n >= 2 and nonuni > 0
    v.outcome = "T:n%d:%s" % (n, "coincide[%s]" % ",".join(sorted(coincide)) if coincide else "no-coincidence")


# ---- F: programs through the decorator and array_via_func_from ------------------------------------------------------


def _call_plain_self(v, prof, grid, tag, state):
    """bare @over_sample on a method whose first parameter is called `self`, on the plain (no over-sampling) path.
    Reported once per case (the violation list of a case is capped, other findings must stay visible)."""
    if state.get("self_kw"):
        return None
    try:
        return prof.bare_self(grid)
    except TypeError as e:
        if "self" in str(e) and "missing" in str(e):
            state["self_kw"] = True
            v.fail("decorator:sub-size-one:self-named-method-TypeError", "%s %s" % (tag, e))
            return None
        raise


def run_F(aa, v, m, g, gi, seed, t):
    sy, sx, oy, ox = g
    n = int((~m).sum())
    mask = _mk_mask(aa, m, g)
    cen = ref.pixel_centres(m, sy, sx, oy, ox)
    cscale = max(1.0, float(np.abs(cen).max()) + sy + sx)
    tol = 1e-12 * cscale
    par = fun_params(seed)
    C = classes()
    P = C["P"]
    light = not (t == "t" or gi in MAIN_GEOMS)
    cyc = [(k % 4) + 1 for k in range(n)]
    if light:
        maps = [("cyc", cyc, False)]
    else:
        maps = [("u1", [1] * n, True), ("ones", [1] * n, False), ("u2", [2] * n, True), ("u3", [3] * n, True), ("cyc", cyc, False)]
        if t == "t":
            maps += [("u4", [4] * n, True), ("u8", [8] * n, True)]
    v.nontrivial = bool(m.any()) and n >= 2
    v.outcome = "F:%s:n%d:p%d" % ("light" if light else "full", n, N_PROGRAMS)
    fully_unmasked = not m.any()
    state = {}
    # one over-sampling OBJECT used for two grids that share the mask pattern but not the geometry (second use must not be stale)
    g2 = (sy * 1.5 + 0.25, sx * 0.5 + 0.125, oy - 0.75, ox + 1.5)
    mask2 = _mk_mask(aa, m, g2)
    shared = aa.OverSamplingUniform(sub_size=2)
    for gg, mk in ((g, mask), (g2, mask2), (g, mask)):
        ptsS, ownerS = ref.sub_grid(m, gg[0], gg[1], gg[2], gg[3], [2] * n)
        grS = aa.Grid2D.from_mask(mask=mk, over_sampling=shared)
        for name in ("aff:2:-1:2", "gauss"):
            wantS = ref.bin_mean(feval(name, ptsS[:, 0], ptsS[:, 1], par), ownerS, n)
            gotS = P(name, par).bare_obj(grS)
            v.ok(_close(_a(gotS), wantS, max(1.0, float(np.abs(wantS).max()))), "decorator:binned:shared-over-sampling-object",
                 lambda: "f=%s geometry %s with an OverSamplingUniform object already used on another geometry: got %s want %s" % (name, gg, _a(gotS).tolist(), wantS.tolist()))
        v.ok(np.all(np.abs(_a(grS.over_sampler.over_sampled_grid) - ptsS) <= 1e-12 * (cscale + abs(gg[2]) + abs(gg[3]) + gg[0] + gg[1])),
             "over_sampled_grid:shared-over-sampling-object", lambda: "geometry %s" % (gg,))
    for tag, smap, int_form in maps:
        pts, owner = ref.sub_grid(m, sy, sx, oy, ox, smap)
        os_ = _sampler(aa, mask, smap, int_form)
        grid = aa.Grid2D.from_mask(mask=mask, over_sampling=_over_sampling(aa, mask, smap, int_form))
        v.ok(np.all(np.abs(_a(grid) - cen) <= tol), "Grid2D.from_mask:values")
        grid_b = aa.Grid2D(values=cen.copy(), mask=mask, over_sampling=_over_sampling(aa, mask, smap, int_form))
        grid_c = None
        if fully_unmasked and int_form:
            grid_c = aa.Grid2D.uniform(shape_native=m.shape, pixel_scales=(sy, sx), origin=(oy, ox),
                                       over_sampling=aa.OverSamplingUniform(sub_size=int(smap[0])))
        one = all(s == 1 for s in smap)
        all_entries = (not light) and tag in ("cyc", "u1", "ones")
        for name in PROGRAMS:
            if name in JUMPY and jump_margin(name, pts[:, 0], pts[:, 1]) < 1e-7:
                # a sub-pixel centre sits on a jump of this step function up to rounding: floating-point coin flip, excluded
                if not state.get("jump_tie"):
                    state["jump_tie"] = True
                    v.outcome += ":jump-tie-skip"
                continue
            fsub = feval(name, pts[:, 0], pts[:, 1], par)
            want = ref.bin_mean(fsub, owner, n)
            sc = max(1.0, float(np.abs(fsub).max()))
            prof = P(name, par)
            info = lambda what, got: "%s map=%s f=%s got %s want %s" % (what, tag, name, _a(got).tolist(), want.tolist())
            # E3: sampler entry point
            r3 = os_.array_via_func_from(func=P.raw, obj=prof)
            if _close(_a(r3), want, sc):
                v.ok(True, "array_via_func_from")
            else:
                # one sampler serves all programs of this map in turn; a fresh sampler that gets it right pins the defect
                # on state kept between calls
                rf = _sampler(aa, mask, smap, int_form).array_via_func_from(func=P.raw, obj=P(name, par))
                v.fail("array_via_func_from:second-call-on-same-sampler" if (name != PROGRAMS[0] and _close(_a(rf), want, sc))
                       else "array_via_func_from", info("array_via_func_from", r3) + " (fresh sampler: %s)" % _a(rf).tolist())
            if is_affine(name):
                wc = feval(name, cen[:, 0], cen[:, 1], par)
                v.ok(_close(_a(r3), wc, cscale * 3), "binned:affine-exact-at-centre", lambda: info("affine", r3))
            # E1: bare decorator
            if one:
                r1 = _call_plain_self(v, prof, grid, "map=%s f=%s" % (tag, name), state)
                if r1 is not None:
                    v.ok(_close(_a(r1), want, sc), "decorator:sub-size-one", lambda: info("bare_self", r1))
                r1o = prof.bare_obj(grid)
                v.ok(_close(_a(r1o), want, sc), "decorator:sub-size-one", lambda: info("bare_obj", r1o))
            else:
                r1 = prof.bare_self(grid)
                if _close(_a(r1), want, sc):
                    v.ok(True, "decorator:binned")
                else:
                    # the grid (and its cached over-sampler) serves all programs in turn
                    gf = aa.Grid2D.from_mask(mask=mask, over_sampling=_over_sampling(aa, mask, smap, int_form))
                    rf1 = P(name, par).bare_self(gf)
                    v.fail("decorator:binned:second-call-on-same-grid" if (name != PROGRAMS[0] and _close(_a(rf1), want, sc))
                           else "decorator:binned", info("bare_self", r1) + " (fresh grid: %s)" % _a(rf1).tolist())
                v.ok(dom.exact(_a(r1), _a(r3)), "decorator:binned", lambda: info("bare_self != array_via_func_from bitwise", r1))
                v.ok(hasattr(r1, "mask") and dom.exact(_a(r1.mask), m) and tuple(r1.mask.pixel_scales) == (sy, sx)
                     and tuple(r1.mask.origin) == (oy, ox), "decorator:result-mask",
                     lambda: "map=%s f=%s result type %s" % (tag, name, type(r1).__name__))
            if not all_entries:
                continue
            # E2: stacked on to_array; other Grid2D constructors
            for gname, gr in (("from_mask", grid), ("ctor", grid_b), ("uniform", grid_c)):
                if gr is None:
                    continue
                r2 = prof.stacked(gr)
                v.ok(_close(_a(r2), want, sc), "decorator:sub-size-one" if one else "decorator:binned",
                     lambda: info("stacked[%s]" % gname, r2))
            if not one:
                r1o = prof.bare_obj(grid_b)
                v.ok(_close(_a(r1o), want, sc), "decorator:binned", lambda: info("bare_obj[ctor]", r1o))
                # same grid object again (cached over_sampler / cached over-sampled grid) and its native form
                r1r = prof.bare_self(grid)
                v.ok(dom.exact(_a(r1r), _a(r1)), "decorator:repeat-call", lambda: info("second call", r1r))
                r1n = prof.bare_self(grid.native)
                v.ok(_close(_a(r1n), want, sc), "decorator:binned", lambda: info("bare_self[grid.native]", r1n))
            # E4: pre-computed over-sampled grid
            gos = aa.Grid2DOverSampled(grid=os_.over_sampled_grid, over_sampler=os_, pixels_in_mask=n)
            r4 = prof.bare_self(gos)
            v.ok(_close(_a(r4), want, sc), "decorator:Grid2DOverSampled", lambda: info("Grid2DOverSampled", r4))
            # E5: free function, obj=None
            pl = C["plain"]
            pl.name, pl.par = name, par
            r5 = os_.array_via_func_from(func=pl, obj=None)
            v.ok(_close(_a(r5), want, sc), "array_via_func_from:obj-none", lambda: info("obj=None", r5))
        if light:
            continue
    if light:
        return
    # E4 over the CLASS of per-pixel maps (pre-computed over-sampled grid + sampler through the decorator): every map of
    # {1,2,3}^n for n <= 3 and every alternating map [a,b,a,b,...] with a != b in {1..4} for every n - among them the
    # non-uniform maps whose total sub-pixel count is a multiple of the pixel count ([1,3], [1,2,2], [2,4,2,4], [3,4,3,4,3,4,3],
    # ...) next to those where it is not. Each pixel must get the mean of its OWN sub-values (reference model).
    e4maps = [("alt%d%d" % (a, b), [a if k % 2 == 0 else b for k in range(n)]) for a in range(1, 5) for b in range(1, 5) if a != b]
    if n <= 3:
        e4maps += [("p" + "".join(map(str, mp)), list(mp)) for mp in itertools.product((1, 2, 3), repeat=n)]
    ndiv = 0
    for tag, smap in e4maps:
        pts, owner = ref.sub_grid(m, sy, sx, oy, ox, smap)
        os_ = _sampler(aa, mask, smap, False)
        gos = aa.Grid2DOverSampled(grid=os_.over_sampled_grid, over_sampler=os_, pixels_in_mask=n)
        if len(set(smap)) > 1 and sum(s_ * s_ for s_ in smap) % n == 0:
            ndiv += 1
        for name in E4_PROGRAMS:
            fsub = feval(name, pts[:, 0], pts[:, 1], par)
            want = ref.bin_mean(fsub, owner, n)
            sc = max(1.0, float(np.abs(fsub).max()))
            prof = P(name, par)
            r4 = prof.bare_self(gos) if name != E4_PROGRAMS[-1] else prof.stacked(gos)
            v.ok(_close(_a(r4), want, sc), "decorator:Grid2DOverSampled",
                 lambda: "Grid2DOverSampled map=%s %s f=%s got %s want %s" % (tag, smap, name, _a(r4).tolist(), want.tolist()))
            v.ok(hasattr(r4, "mask") and dom.exact(_a(r4.mask), m), "decorator:result-mask",
                 lambda: "Grid2DOverSampled map=%s f=%s result type %s" % (tag, name, type(r4).__name__))
    v.outcome += ":e4maps%d:%s" % (len(e4maps), "div" if ndiv else "nodiv")
    # plain evaluation for structures that are not over-sampled
    for name in ("gauss", "aff:2:-1:2", "relux"):
        prof = P(name, par)
        irr = aa.Grid2DIrregular(values=cen.copy())
        r = prof.stacked(irr)
        wc = feval(name, cen[:, 0], cen[:, 1], par)
        v.ok(_close(_a(r), wc, 3 * cscale), "decorator:irregular-grid-plain", lambda: "f=%s" % name)
    # config-driven adaptive scheme (over_sampling=None on a uniform grid): rows of unmasked pixels must be contiguous
    rows = np.flatnonzero((~m).any(axis=1))
    contiguous = len(rows) == rows[-1] - rows[0] + 1
    if not contiguous:
        v.outcome += ":row-gap"
        return
    first = cen[0]
    centre = (float(first[0] + 0.2 * sy), float(first[1] - 0.3 * sx))
    for key in ("A", "B"):
        factors, subs = ADAPT_CFG[key]
        amap, margin = ref.adaptive_sub_map(m, sy, sx, oy, ox, centre, factors, subs)
        if margin < 1e-6 * min(sy, sx):
            v.outcome += ":adapt-tie-skip"
            continue
        pts, owner = ref.sub_grid(m, sy, sx, oy, ox, amap)
        grid0 = aa.Grid2D.from_mask(mask=mask)
        scheme = aa.OverSamplingUniform.from_adaptive_scheme(grid=grid0, name=C[key].__name__, centre=centre)
        got_map = _a(scheme.sub_size)
        v.ok(dom.exact(got_map.astype(float), amap.astype(float)), "from_adaptive_scheme:sub-size-map",
             lambda: "cls=%s got %s want %s" % (key, got_map.tolist(), amap.tolist()))
        os_a = scheme.over_sampler_from(mask=mask)
        check_grid(v, _a(os_a.over_sampled_grid), pts, tol, "adaptive %s" % key)
        for attr, want_tab in (("slim_for_sub_slim", owner),):
            try:
                tab = _a(getattr(os_a, attr))
                v.ok(dom.exact(tab, want_tab), attr, "adaptive %s" % key)
            except TypeError as e:
                v.fail("float-sub-size-map:%s:TypeError" % attr, "sub-size map built by from_radial_bins has dtype %s: %s" % (got_map.dtype, e))
        try:
            ar = _a(os_a.sub_pixel_areas)
            v.ok(abs(float(ar.sum()) - n * sy * sx) <= 1e-11 * n * sy * sx, "sub_pixel_areas:sum", "adaptive %s" % key)
        except TypeError as e:
            v.fail("float-sub-size-map:sub_pixel_areas:TypeError", "sub-size map dtype %s: %s" % (got_map.dtype, e))
        one = bool(np.all(amap == 1))
        for name in ("gauss", "aff:2:-1:2", "relux", "negq"):
            prof = C[key](name, par, centre=centre)
            fsub = feval(name, pts[:, 0], pts[:, 1], par)
            want = ref.bin_mean(fsub, owner, n)
            sc = max(1.0, float(np.abs(fsub).max()))
            r = prof.stacked(grid0)
            v.ok(_close(_a(r), want, sc), "decorator:adaptive-config",
                 lambda: "cls=%s f=%s map=%s got %s want %s" % (key, name, amap.tolist(), _a(r).tolist(), want.tolist()))
            r = prof.bare_obj(grid0)
            v.ok(_close(_a(r), want, sc), "decorator:adaptive-config", lambda: "bare_obj cls=%s f=%s" % (key, name))


# ---- I: the iterative scheme ------------------------------------------------------------------------------------------

# Uncertainty of a reference level value = spread over position variants shifted by +-1e-12*scale (the library's own
# positions differ from the reference by ~1e-16*scale) + 1e-14*|value| + 1e-15*max|sub-value| (summation rounding).
def _decide_core(prev, cur, frac, tol):
    """The statement: agreement = ratio of the smaller to the larger value, defined only when the previous value is
    positive; must meet the fractional accuracy and, if set, the absolute-difference tolerance. None = within the
    excluded 1e-9 tie band."""
    if frac is None:
        ok = True  # no fractional accuracy requested: nothing to meet but the tolerance below
    elif prev > 0:
        lo, hi = (prev, cur) if prev <= cur else (cur, prev)
        r = lo / hi  # hi >= prev > 0
        if abs(r - frac) < 1e-9:
            return None
        ok = r >= frac
    else:
        ok = False
    if tol is not None:
        d = abs(prev - cur)
        if abs(d - tol) < 1e-9:
            return None
        if d > tol:
            ok = False
    return ok


def _pert(val, exact_zero, amb, eps):
    """Admissible values of a level value as the library may have computed it."""
    if exact_zero:
        return (0.0,)
    out = (val - eps, val, val + eps)
    if amb:  # zero under some +-1e-12 position shifts, non-zero under others: the library may see an exact 0.0
        out += (0.0,)
    return out


def _decide(prev, cur, frac, tol):
    """Robust decision; prev / cur are (value, robust-exact-zero, zero-only-up-to-rounding, uncertainty).
    Any disagreement between admissible values (or a tie band hit) => None."""
    res = set()
    for a in _pert(*prev):
        for b in _pert(*cur):
            res.add(_decide_core(a, b, frac, tol))
    if len(res) != 1:
        return None
    return res.pop()


def ref_iterate(lv, steps, frac, tol, n):
    """Per pixel: (expected value, index of the schedule entry whose value is returned, or 'skip').
    lv[s] = (value, robust-exact-zero flag, zero-only-up-to-rounding flag, uncertainty) per pixel for sub-size s."""
    exp = np.zeros(n)
    stop = []
    for k in range(n):
        prev = tuple(lv[1][i][k] for i in range(4))
        chosen = None
        for idx, s in enumerate(steps[:-1]):
            cur = tuple(lv[s][i][k] for i in range(4))
            d = _decide(prev, cur, frac, tol)
            if d is None:
                chosen = "skip"
                break
            if d:
                chosen = idx
                break
            prev = cur
        if chosen is None:
            chosen = len(steps) - 1
        stop.append(chosen)
        if chosen != "skip":
            exp[k] = lv[steps[chosen]][0][k]
    return exp, stop


def _flip_classes(lv, steps, frac, stop_k, k):
    """Coverage bookkeeping (outcome string only): which sign changes between successive levels the reference walked
    through at pixel k before it stopped. '+-' previous positive / next negative, '-+' the opposite order; '@1' the first
    comparison of the schedule (against sub-size one), '@2' a later one; for '+-' whether the MAGNITUDE ratio
    min(|prev|,|cur|)/max(|prev|,|cur|) reaches the fractional accuracy ('hi': a rule that ignores signs would accept the
    level, the statement's ratio smaller/larger is negative and accepts nothing) or not ('lo'), and which is larger."""
    out = set()
    prev = float(lv[1][0][k])
    for idx, s in enumerate(steps[:-1]):
        if idx > stop_k:
            break
        cur = float(lv[s][0][k])
        at = "@1" if idx == 0 else "@2"
        if prev > 0 > cur:
            a, b = abs(prev), abs(cur)
            out.add("+-%s%s%s" % ("hi" if (frac is None or min(a, b) / max(a, b) >= frac) else "lo", "<" if a < b else ">", at))
        elif prev < 0 < cur:
            out.add("-+" + at)
        prev = cur
    return out


def _itol(lv, steps, j, k):
    """Comparison tolerance for the value of schedule entry j at pixel k: relative 1e-9 + 100 x its uncertainty."""
    val, _, _, eps = (lv[steps[j]][i][k] for i in range(4))
    return 1e-9 * abs(val) + 100.0 * eps


def run_I(aa, v, m, g, gi, seed, t):
    sy, sx, oy, ox = g
    n = int((~m).sum())
    mask = _mk_mask(aa, m, g)
    # geometry parameters of the programs that are placed relative to pixel centres (target = the middle unmasked pixel
    # in slim order), from the reference model of the pixel centres
    cen = ref.pixel_centres(m, sy, sx, oy, ox)
    par = dict(fun_params(seed), cy=float(cen[n // 2, 0]), cx=float(cen[n // 2, 1]), sy=sy, sx=sx,
               top=oy + 0.5 * m.shape[0] * sy, left=ox - 0.5 * m.shape[1] * sx, h=m.shape[0], w=m.shape[1])
    flips = set()
    P = classes()["P"]
    levels = sorted(set([1] + [s for st in SCHEDULES for s in st]))
    pts_l = {s: ref.sub_grid(m, sy, sx, oy, ox, [s] * n)[0] for s in levels}
    hpos = 1e-12 * (1.0 + float(np.abs(pts_l[1]).max()) + sy + sx)
    deltas = [(0.0, 0.0), (hpos, hpos), (-hpos, -hpos), (hpos, -hpos), (-hpos, hpos)]
    seen_levels = set()
    nskip = 0
    shortcut = 0
    configs = [(st, fr, tl) for st in SCHEDULES for fr in FRACS for tl in TOLS]
    # no fractional accuracy requested (fractional_accuracy=None): only the absolute-difference tolerance, if set, decides;
    # appended so that the indexes of the configurations above stay what they were
    configs += [(st, None, tl) for st in SCHEDULES for tl in TOLS_NOFRAC]
    hist_ci = [configs.index((st, fr, tl)) for st, fr, tl in HIST_CONFIGS]
    hist_names = set(f for pr in HIST_PAIRS for f in pr)
    fresh = {}  # (program, config index) -> (value returned by a fresh sampler [checked against the reference below], stops)
    for fi, name in enumerate(IT_PROGRAMS):
        lv = {}
        for s, pts in pts_l.items():
            raw = [feval(name, pts[:, 0] + dy, pts[:, 1] + dx, par).reshape(n, s * s) for dy, dx in deltas]
            vs = np.stack([r.sum(axis=1) / float(s * s) for r in raw])
            base = vs[0]
            allzero = np.all(vs == 0, axis=0)
            anyzero = np.any(vs == 0, axis=0)
            spread = vs.max(axis=0) - vs.min(axis=0)
            eps = spread + 1e-14 * np.abs(base) + 1e-15 * np.abs(raw[0]).max(axis=1)
            amb = anyzero & ~allzero
            lv[s] = (base, allzero, amb, eps)
        centre_all_zero = bool(np.all(lv[1][1]))
        if not centre_all_zero and bool(np.all(lv[1][1] | lv[1][2])):
            # every sub-size-one value is zero at least up to rounding: whether the library's `not np.any(...)` early
            # return triggers depends on its own rounding; resolve this one branch with the library's own pixel centres
            lg = _a(mask.derive_grid.unmasked)
            centre_all_zero = not np.any(feval(name, lg[:, 0], lg[:, 1], par))
        for ci, (steps, frac, tol) in enumerate(configs):
            tag = "f=%s steps=%s frac=%s tol=%s" % (name, steps, frac, tol)
            prof = P(name, par)
            it = aa.OverSamplerIterate(mask=mask, fractional_accuracy=frac, relative_accuracy=tol, sub_steps=list(steps))
            res = it.array_via_func_from(func=P.raw, obj=prof)
            got = _a(res)
            v.ok(got.shape == (n,), "iterate:result-shape", lambda: "%s shape %s" % (tag, got.shape))
            if got.shape != (n,):
                continue
            exp, stop = ref_iterate(lv, steps, frac, tol, n)
            if ci in hist_ci and name in hist_names:
                fresh[(name, ci)] = (got.copy(), list(stop))
            if centre_all_zero:
                # every value at sub-size one is exactly zero: the previous value is never positive, so the statement
                # prescribes the value at the last sub-size for every pixel
                good = all(stop[k] == "skip" or abs(got[k] - exp[k]) <= _itol(lv, steps, stop[k], k) for k in range(n))
                if not good and not np.any(got):
                    shortcut += 1
                    v.fail("iterate:all-zero-at-sub-size-one-early-return",
                           "%s every value at sub-size one is exactly 0 -> zeros returned without iterating, but the "
                           "stopping rule (previous value not positive => not met) prescribes %s (schedule entries %s)"
                           % (tag, exp.tolist(), stop))
                    continue
            for k in range(n):
                if stop[k] == "skip":
                    nskip += 1
                    continue
                seen_levels.add(stop[k] if stop[k] < len(steps) - 1 else "last")
                flips.update(_flip_classes(lv, steps, frac, stop[k], k))
                okk = abs(got[k] - exp[k]) <= _itol(lv, steps, stop[k], k)
                if okk:
                    v.ok(True, "iterate:stopping-rule")
                    continue
                other = [j for j in range(len(steps)) if j != stop[k] and abs(got[k] - lv[steps[j]][0][k]) <= _itol(lv, steps, j, k)]
                vals = [float(lv[s][0][k]) for s in [1] + list(steps)]
                msg = "%s pixel %d: got %r, want %r (schedule entry %s); level values [1]+steps=%s" % (
                    tag, k, float(got[k]), float(exp[k]), stop[k], vals)
                if other:
                    v.fail("iterate:stopping-rule", msg + " -> value of schedule entry %s returned" % other)
                elif stop[k] == len(steps) - 1:
                    v.fail("iterate:last-sub-size", msg)
                else:
                    v.fail("iterate:value", msg)
            v.ok(dom.exact(_a(res.mask), m), "iterate:result-mask", tag)
            # the decorator with an OverSamplingIterate grid takes the same route (one config per program)
            if ci == (fi * 5) % len(configs):
                grid = aa.Grid2D.from_mask(mask=mask, over_sampling=aa.OverSamplingIterate(
                    fractional_accuracy=frac, relative_accuracy=tol, sub_steps=list(steps)))
                rd = prof.bare_self(grid)
                v.ok(dom.exact(_a(rd), got), "decorator:iterate", lambda: "%s decorated %s direct %s" % (tag, _a(rd).tolist(), got.tolist()))
                rd2 = prof.stacked(grid)
                v.ok(_close(_a(rd2), got, 1.0), "decorator:iterate", lambda: "%s stacked %s direct %s" % (tag, _a(rd2).tolist(), got.tolist()))
    # ---- histories: ONE sampler object (and ONE grid through the decorator) serves f1, then f2, then f1 again; every result must
    # be bitwise what a fresh sampler returned for the same function (those values are checked against the reference above)
    hist_cross = 0
    for pi, (f1, f2) in enumerate(HIST_PAIRS):
        seq = (f1, f2, f1)
        # direct calls on one sampler
        ci = hist_ci[pi % len(hist_ci)]
        steps, frac, tol = configs[ci]
        it = aa.OverSamplerIterate(mask=mask, fractional_accuracy=frac, relative_accuracy=tol, sub_steps=list(steps))
        kept = []
        if any((f, c) not in fresh for f in seq for c in hist_ci):
            continue  # a fresh sampler already returned a wrongly shaped result (reported above)
        for j, name in enumerate(seq):
            res = it.array_via_func_from(func=P.raw, obj=P(name, par))
            got = _a(res).copy()
            want = fresh[(name, ci)][0]
            v.ok(dom.exact(got, want), "iterate:second-call-on-same-sampler" if j else "iterate:value",
                 lambda: "steps=%s frac=%s tol=%s: one sampler called with %s; call %d (f=%s) returned %s, a fresh sampler returns %s"
                 % (steps, frac, tol, " then ".join(seq[:j + 1]), j + 1, name, got.tolist(), want.tolist()))
            for (jo, ro, so) in kept:
                v.ok(dom.exact(_a(ro), so), "iterate:earlier-result-changed-by-later-call",
                     lambda: "steps=%s frac=%s tol=%s: the array returned by call %d (f=%s) changed from %s to %s during call %d (f=%s)"
                     % (steps, frac, tol, jo + 1, seq[jo], so.tolist(), _a(ro).tolist(), j + 1, name))
            kept.append((j, res, got))
        last = len(steps) - 1
        s1, s2 = fresh[(f1, ci)][1], fresh[(f2, ci)][1]
        if any(a != "skip" and b != "skip" and ((a < last and b == last) or (b < last and a == last)) for a, b in zip(s1, s2)):
            hist_cross += 1
        # the decorator: the over-sampler is cached on the grid, so two profiles evaluated on one grid share it
        ci = hist_ci[(pi + 1) % len(hist_ci)]
        steps, frac, tol = configs[ci]
        grid = aa.Grid2D.from_mask(mask=mask, over_sampling=aa.OverSamplingIterate(
            fractional_accuracy=frac, relative_accuracy=tol, sub_steps=list(steps)))
        for j, name in enumerate(seq):
            prof = P(name, par)
            rd = prof.bare_self(grid) if j != 1 else prof.stacked(grid)
            want = fresh[(name, ci)][0]
            v.ok(_close(_a(rd), want, 1.0), "decorator:iterate:second-call-on-same-grid" if j else "decorator:iterate",
                 lambda: "steps=%s frac=%s tol=%s: one grid evaluated with %s; call %d (f=%s) returned %s, a fresh sampler returns %s"
                 % (steps, frac, tol, " then ".join(seq[:j + 1]), j + 1, name, _a(rd).tolist(), want.tolist()))
    v.nontrivial = len(seen_levels) >= 2
    total = n * len(IT_PROGRAMS) * len(configs)
    frac_skip = nskip / float(total)
    bucket = "" if nskip == 0 else (":skip<2%" if frac_skip < 0.02 else (":skip<10%" if frac_skip < 0.1 else ":skip>=10%"))
    v.outcome = "I:n%d:levels=%s%s%s%s:flip[%s]" % (n, ",".join(str(s) for s in sorted(seen_levels, key=str)),
                                                   bucket, ":zero-shortcut" if shortcut else "",
                                                   ":hist-cross%d/%d" % (hist_cross, len(HIST_PAIRS)),
                                                   ",".join(sorted(flips)))
