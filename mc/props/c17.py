"""C17 - grid decorators return containers mirroring the input grid, entry k for coordinate k.

Programs (user functions) are enumerated from a small grammar with INJECTIVE, NON-SYMMETRIC outputs, so a
re-ordering, a dropped mask or a mis-paired list element changes an observable value by O(pixel scale).
The user functions, the profile's ``radial_grid_from`` and ``transformed_to_reference_frame_grid_from`` are
part of the *input* (they are what a downstream project supplies); the code under test is the decorators
(`autoarray/structures/decorators/*`) and the projection helpers they call.
"""
import math

import numpy as np

from mc import dom
from mc.core import V

ID = "C17"
ENGINE = "scope"
CHUNK = 16
RULE = (
    "cases = (a) every boolean mask (>=1 unmasked pixel) of every shape HxW with H*W <= bound x 3 pixel-scale pairs x 2 "
    "origins, each as the uniform grid of the mask and as a grid of arbitrary (jittered) coordinates on the mask; "
    "(b) irregular coordinate sets: 3 menus (generic, repeated points, axis/collinear/centre points) x every prefix "
    "length 1..6 x profile (centre, angle) menu; (c) every 1D mask of length 1..Lmax x 3 pixel scales x 2 origins x "
    "{uniform, arbitrary} coordinates; (d) radial-minimum rings: 3 configured minima x 3 direction sets x 2 orders x "
    "3 containers x profile menu, radii {1e-3, 0.5, 1-1e-6, 1+1e-6, 2, 100} x minimum; (d') INTEGER-dtype coordinates "
    "(int64 ndarray / Grid2DIrregular / Grid2D, which all keep the dtype): 3 minima x 2 integer menus (points at r = 1, "
    "sqrt2, 2, sqrt5 inside and r >= sqrt8 outside the 2.5 minimum, the centre, repeats) x 2 orders x 3 containers through "
    "relocate, to_array/to_grid/to_vector_yx . relocate and the stacks with a skipped transform (is_transformed=True), "
    "plus a 4th (integer) irregular menu through every decorator of (b). Per case every decorator "
    "(to_array, to_grid, to_vector_yx, project_grid, transform, relocate_to_radial_minimum and the stacks "
    "to_array/to_grid . transform . relocate) x every program (scalar / (y,x)-pair returns, lists of 1..3, computed on "
    "np.array(grid) or directly on the structure); histories inside one case: after the parent grid was evaluated, the "
    "grids parent*2.0, parent+c, -parent, parent.copy() edited in place and (1D) the parent itself after parent[k]=v are "
    "evaluated through to_array / to_grid / to_vector_yx / project_grid and must be evaluated at THEIR OWN (projected) "
    "coordinates (all variants x makers for Grid1D and Grid2DIrregular, one variant per coordinate kind for Grid2D). "
    "(e) EXPLICIT KEYWORD FORMS: `is_transformed` (the only keyword any decorator reads) absent / explicitly False / explicitly "
    "True x {ndarray, Grid2DIrregular, Grid2D uniform+custom, Grid1D uniform+custom} x 2 profiles with non-trivial centre and "
    "angle x 3 styles of the profile's transform, through transform alone, nested transform-decorated calls, to_array / to_grid / "
    "to_vector_yx / project_grid . transform (scalar, pair and list programs) and transform . relocate alone and under the three "
    "makers for 2 minima: the profile transform runs exactly when the grid is not flagged as transformed, on the caller's "
    "coordinates, and every function / the relocation sees the frame the keyword selects. "
    "(f) CONFIGURATION HISTORIES inside one case: one profile object and one decorated method (relocate, transform . relocate, "
    "one maker . transform . relocate and one maker . relocate) is called 3 times (thorough: every non-constant sequence of 3 and "
    "4 calls) while the radial minimum configured for the profile's class is switched between a small, middle and large value "
    "(small-large-small, large-small-large, small-middle-small, middle-large-middle) x 3 classes x 3 menus of minima x 3 "
    "containers x 3 profiles x {same grid object, fresh grid} - the reference reads the configuration current AT EACH CALL; "
    "points lie inside all, between each pair of, and outside all minima (and on the +-1e-6 shells of each). "
    "(g) SUBCLASS INSTANCES of the dispatched grid classes as the input grid: the library's own Grid2DIrregularUniform built "
    "directly and through each of its factory methods (grid_from, from_grid_sparse_uniform_upscale with factors 1 and 2, "
    "grid_2d_via_deflection_grid_from), and harness-defined trivial subclasses (class UserGrid(aa.Grid2D): pass) and "
    "subclasses of those of Grid2D, Grid2DIrregular, Grid2DIrregularUniform and Grid1D; 3 float coordinate menus x every "
    "prefix length 1..6 x 3 profiles (irregular), every mask with <= bound cells x geometries x {uniform, arbitrary} "
    "coordinates (Grid2D), every 1D mask up to a length bound x geometries x {uniform, arbitrary} coordinates (Grid1D); "
    "through every maker (to_array / to_grid / to_vector_yx) alone x every return form (single, lists of 1..3) x both "
    "computation styles, stacked with transform (3 styles of the profile's transform), with relocate and with transform . "
    "relocate (2 minima) x every return form, and project_grid alone / over transform: the result is the uniform / irregular "
    "/ 1D counterpart container (a subclass of it is accepted) on the input's mask / attached to the input's coordinates, "
    "entry k = f(coordinate k) of the subclass instance's own coordinates. "
    "non-trivial = the pairing is observable: >= 2 evaluated coordinates "
    "and (for masked inputs) at least one masked pixel; for ring cases at least one moved and one unchanged point"
)
ASSUMPTIONS = [
    "the decorators are value-oblivious gathers (no arithmetic except projection / transform / relocation), so the "
    "injective programs 1000y+x, 7y-1000x+.25, 31y+.001x-2 and (2y-x,y+3x), (x+5,.5x-3y), (.5y+4x,9-y) together "
    "with duplicated coordinates represent all user functions of the stated return kinds",
    "user functions return numpy arrays or python lists of them (tuples / nested lists are not in the statement)",
    "general.grid.remove_projected_centre = false (harness config)",
    "radial minima are read from /verif/config/grids.yaml by profile class name: VerifC17ProfTiny 1e-8, "
    "VerifC17ProfMid 0.3, VerifC17ProfBig 2.5",
    "relocation frame = the grid the decorated function receives (profile centre at its origin, as produced by "
    "`transform`); the exact centre (r == 0, ray undefined) and radii within 1e-9 relative of the minimum (tie band) "
    "are excluded / accepted either way",
    "project_grid on Grid2D: when two of the four centre-to-edge distances tie with different pixel scales, or "
    "distance/pixel_scale is within 1e-6 of an integer, either documented reading is accepted",
    "to_vector_yx on Grid1D is documented as unsupported and is not exercised",
    "integer-dtype inputs: the statement is about VALUES (moved to exactly the minimum radius / unchanged / entry k = "
    "f(coordinate k)); the dtype of what the function receives is not prescribed, and a library that converts integer "
    "input to float on construction passes",
    "derived grids: that structure arithmetic / copy / item assignment return the same structure type with the expected "
    "values is C11's business; a variant for which it does not hold is skipped here",
    "is_transformed carries its documented meaning ('tracks whether the grid has been transformed'): only an explicit True "
    "flags the grid as already in the profile frame; absent and False both mean 'not yet transformed'. Non-boolean values and "
    "keywords that no decorator reads are not exercised",
    "configuration histories change the in-memory configuration (conf.instance['grids']['radial_minimum']['radial_minimum']"
    "[<class name>] = value, restored in a finally block); the radial minimum in force is the one configured when the decorated "
    "function is called. Pushing a whole new configuration directory is not exercised",
    "subclass inputs: an instance of a subclass of Grid2D / Grid2DIrregular / Grid1D is 'a masked uniform grid' / 'an irregular "
    "grid' / 'a 1D grid' of the statement (the library documents Grid2DIrregularUniform as an irregular set of coordinates that "
    "remembers the uniform grid it came from). The statement fixes the KIND of the result container, so a subclass of Array2D / "
    "Grid2D / VectorYX2D / ArrayIrregular / ... is accepted there; that extra attributes of the input subclass (shape_native, "
    "pixel_scales of Grid2DIrregularUniform) travel to the result is not required. What the factory methods put INTO the grid is "
    "not C17's business: the coordinates of the instance as the caller sees them (np.array(grid)) are the input. Subclasses that "
    "override methods or __array_finalize__ of the grid classes are not exercised",
]
BOUNDS = {
    "quick": "2D masks with <= 9 cells (3187 masks, all shapes incl. 1xN/Nx1) x 6 geometries x 2 coordinate kinds; "
    "irregular sets 4 menus (one integer-dtype) x lengths 1..6 x 3 profiles; 1D masks of length <= 6 (120) x 6 geometries "
    "x 2 kinds; rings 3 minima x 3 direction sets x 2 orders x 3 containers x 3 profiles; integer rings 3 minima x 2 menus "
    "x 2 orders x 3 containers; derived-after-evaluated histories of depth 2 (evaluate parent, derive, evaluate) in every "
    "grid case; keyword forms 3 x (3 point sets of 6 as ndarray and Grid2DIrregular, 3 masks x 2 coordinate kinds, 3 1D masks "
    "x 2 kinds) x 2 profiles x 3 transform styles; configuration histories of 3 calls (4 sequences) x 3 classes x 3 menus x 3 "
    "containers x 3 profiles x 4 stacks x {same, fresh} grid, 80 points each; subclass inputs: 8 irregular kinds "
    "(Grid2DIrregularUniform direct + 4 factory forms, 3 user subclasses) x 3 menus x lengths 1..6 x 3 profiles, 2 user "
    "subclasses of Grid2D x 2D masks with <= 4 cells (66) x 3 geometries x 2 coordinate kinds, 2 user subclasses of Grid1D x "
    "1D masks of length <= 5 (57) x 3 geometries x 2 kinds",
    "thorough": "2D masks with <= 12 cells (35943 masks) x 6 geometries x 2 coordinate kinds; irregular as quick; "
    "1D masks of length <= 9 x 6 geometries x 2 kinds; rings as quick plus a 4th (16-direction) set; keyword forms on 3 menus "
    "x every prefix length 1..6 (18 sets), 6 masks x 2 geometries, 5 1D masks x 2 geometries; configuration histories = every "
    "non-constant sequence of 3 and 4 calls over the 3 minima (102 sequences); subclass inputs: irregular kinds as quick, "
    "Grid2D subclasses on 2D masks with <= 6 cells (380) x 6 geometries, Grid1D subclasses on 1D masks of length <= 7 x 6 geometries",
}

RMIN = {"VerifC17ProfTiny": 1.0e-8, "VerifC17ProfMid": 0.3, "VerifC17ProfBig": 2.5}
CLS = ["VerifC17ProfTiny", "VerifC17ProfMid", "VerifC17ProfBig"]
FACT = [1e-3, 0.5, 1.0 - 1e-6, 1.0 + 1e-6, 2.0, 100.0]


# ----------------------------------------------------------------------------- value menus (seeded)


def geoms2d(seed):
    r = dom.rng(seed, "c17-geom2d")
    a, b = np.round(r.uniform(0.3, 1.7, 2), 3)
    oy, ox = np.round(r.uniform(0.2, 1.3, 2) * np.array([1.0, -1.0]), 3)
    scales = [(1.0, 1.0), (0.5, 2.0), (float(a), float(b))]
    origins = [(0.0, 0.0), (float(oy), float(ox))]
    return [(s, o) for s in scales for o in origins]


def geoms1d(seed):
    r = dom.rng(seed, "c17-geom1d")
    a = float(np.round(r.uniform(0.3, 1.7), 3))
    o = float(np.round(r.uniform(0.15, 0.9), 3))
    return [(s, og) for s in (1.0, 0.5, a) for og in (0.0, o)]


def profiles(seed):
    """(centre, angle) menu; 'absent' = attribute missing, None = attribute set to None."""
    r = dom.rng(seed, "c17-prof")
    cy = float(np.round(r.uniform(0.2, 0.6), 3))
    cx = float(np.round(r.uniform(-0.7, -0.2), 3))
    ang = float(np.round(30.0 + r.uniform(-10, 10), 2))
    return [
        ((0.0, 0.0), 0.0),
        ((cy, cx), ang),
        ((-0.45, 0.8), -137.5),
        ("absent", "absent"),
        (None, None),
    ]


def irregular_menu(seed, menu):
    if menu == 0:
        r = dom.rng(seed, "c17-irr")
        return np.round(r.uniform(-3.0, 3.0, (6, 2)), 4)
    if menu == 1:
        return np.array([(1.0, 2.0), (3.0, -1.0), (1.0, 2.0), (0.5, 0.5), (3.0, -1.0), (1.0, 2.0)])
    if menu == 3:  # INTEGER dtype (aa.Grid2DIrregular([(1, 0), (0, 2)]) keeps int64): both sides of the 2.5 minimum
        return np.array([(1, 0), (0, 2), (3, -1), (-2, -2), (0, 0), (1, 0)], dtype=np.int64)
    return np.array([(0.0, 0.0), (0.0, 1.5), (-2.0, 0.0), (1.0, 1.0), (-1.0, -1.0), (2.5, -0.5)])


def int_ring_points(seed, menu, order):
    """Integer-dtype coordinates inside (r = 1, sqrt 2, 2, sqrt 5) and outside (r >= sqrt 8) the 2.5 minimum; no integer
    point lies at r = 2.5, 0.3 or 1e-8, so there is no tie band."""
    if menu == 0:
        pts = [(1, 0), (0, 2), (2, 1), (-1, -2), (0, -1), (-2, 0), (1, -1), (3, 4), (0, 3), (-2, 2), (5, 0), (-3, -1), (2, 2), (0, -7)]
    else:
        r = dom.rng(seed, "c17-intring")
        pts = [tuple(int(t) for t in p) for p in r.randint(-4, 5, (10, 2))]
        pts += [(0, 0), (1, 1), (1, 1), (-3, 0), (0, 1), (2, -2)]  # the centre, a repeated point
    pts = np.array(pts, dtype=np.int64)
    if order == 1:
        pts = pts[dom.rng(seed, "c17-intperm", menu).permutation(len(pts))]
    return pts


def ring_dirs(seed, dset):
    if dset == 0:
        return [(0.0, 1.0), (1.0, 0.0), (0.0, -1.0), (-1.0, 0.0)]  # (sin, cos) = unit (y, x)
    if dset == 1:
        s = math.sqrt(0.5)
        return [(s, s), (s, -s), (-s, -s), (-s, s)]
    r = dom.rng(seed, "c17-dirs", dset)
    n = 8 if dset == 2 else 16
    t = np.sort(r.uniform(0.0, 2 * np.pi, n))
    return [(float(np.sin(a)), float(np.cos(a))) for a in t]


# ----------------------------------------------------------------------------- programs (the user functions)


def s_eval(j, y, x):
    if j == 0:
        return 1000.0 * y + x
    if j == 1:
        return 7.0 * y - 1000.0 * x + 0.25
    return 31.0 * y + 0.001 * x - 2.0


def p_eval(j, y, x):
    if j == 0:
        return np.stack([2.0 * y - x, y + 3.0 * x], -1)
    if j == 1:
        return np.stack([x + 5.0, 0.5 * x - 3.0 * y], -1)
    return np.stack([0.5 * y + 4.0 * x, 9.0 - y], -1)


# name -> (kind, element indices, is_list)
PROGS = {
    "s": ("s", [0], False),
    "sL1": ("s", [1], True),
    "sL2": ("s", [0, 2], True),
    "sL3": ("s", [2, 0, 1], True),
    "p": ("p", [0], False),
    "pL1": ("p", [1], True),
    "pL2": ("p", [0, 2], True),
    "pL3": ("p", [2, 0, 1], True),
}


def prog_ref(prog, C):
    kind, idxs, is_list = PROGS[prog]
    ev = s_eval if kind == "s" else p_eval
    outs = [np.asarray(ev(j, C[:, 0], C[:, 1])) for j in idxs]
    return outs if is_list else outs[0]


def t_ref(C, centre, angle):
    """The profile's own transform (user supplied): translate to centre, rotate clockwise by angle (degrees)."""
    a = np.radians(angle)
    y = C[:, 0] - centre[0]
    x = C[:, 1] - centre[1]
    return np.stack([y * np.cos(a) - x * np.sin(a), x * np.cos(a) + y * np.sin(a)], -1)


def t_inv(C, centre, angle):
    a = np.radians(angle)
    y, x = C[:, 0], C[:, 1]
    return np.stack([y * np.cos(a) + x * np.sin(a) + centre[0], x * np.cos(a) - y * np.sin(a) + centre[1]], -1)


# ----------------------------------------------------------------------------- profile classes / decorated methods

_KIT = None


class Kit:
    pass


def kit():
    global _KIT
    if _KIT is not None:
        return _KIT
    import autoarray as aa
    from autoconf import conf

    dec = aa.grid_dec
    DECS = {
        "A": dec.to_array,
        "G": dec.to_grid,
        "V": dec.to_vector_yx,
        "P": dec.project_grid,
        "T": dec.transform,
        "R": dec.relocate_to_radial_minimum,
    }

    class VerifC17ProfBase:
        def __init__(self, centre=(0.0, 0.0), angle=0.0, tstyle="nd"):
            if centre != "absent":
                self.centre = centre
            if angle != "absent":
                self.angle = angle
            self.tstyle = tstyle
            self.seen = []

        # what downstream profiles supply (same definition as the test-suite mocks / PyAutoGalaxy)
        def radial_grid_from(self, grid, **kwargs):
            return np.sqrt(np.add(np.square(grid[:, 0]), np.square(grid[:, 1])))

        def _traw(self, grid):
            return t_ref(np.array(grid), self.centre, self.angle)

        @dec.to_grid
        def _tgrid(self, grid, *args, **kwargs):
            return self._traw(grid)

        def transformed_to_reference_frame_grid_from(self, grid, **kwargs):
            self.seen.append(("T", np.array(grid, dtype=float).copy(), type(grid).__name__, dict(kwargs)))
            if self.tstyle == "tg":
                return self._tgrid(grid, **kwargs)
            out = self._traw(grid)
            if self.tstyle == "wna" and hasattr(grid, "with_new_array"):
                return grid.with_new_array(out)
            return out

    classes = {name: type(name, (VerifC17ProfBase,), {}) for name in CLS}
    for name in CLS:
        got = conf.instance["grids"]["radial_minimum"]["radial_minimum"][name]
        if float(got) != RMIN[name]:
            raise RuntimeError("harness config: radial minimum of %s is %r, expected %r" % (name, got, RMIN[name]))

    def mk_inner(prog, style):
        def inner(obj, grid, *args, **kwargs):
            obj.seen.append(("F", np.array(grid, dtype=float).copy(), type(grid).__name__, dict(kwargs)))
            if prog == "id":
                return grid
            if prog == "nest":
                return obj.T_s_np(grid, *args, **kwargs)
            kind, idxs, is_list = PROGS[prog]
            if style == "np":
                g = np.array(grid)
                y, x = g[:, 0], g[:, 1]
            else:
                y, x = grid[:, 0], grid[:, 1]
            ev = s_eval if kind == "s" else p_eval
            outs = [ev(j, y, x) for j in idxs]
            return outs if is_list else outs[0]

        inner.__name__ = "inner_%s_%s" % (prog, style)
        return inner

    def method(stack, prog, style="np"):
        """Attach (once) and return the name of the method `stack` o program, e.g. ATR_s_np."""
        name = "%s_%s_%s" % (stack, prog, style)
        if not hasattr(VerifC17ProfBase, name):
            fn = mk_inner(prog, style)
            for d in reversed(stack):
                fn = DECS[d](fn)
            setattr(VerifC17ProfBase, name, fn)
        return name

    method("T", "s", "np")  # target of the nested program
    k = Kit()
    k.aa = aa
    # (g) what a downstream project writes: trivial subclasses (and subclasses of those) of the dispatched grid classes
    sub = {}
    for name, base in (("UserGrid2D", aa.Grid2D), ("UserIrr", aa.Grid2DIrregular), ("UserGrid1D", aa.Grid1D),
                       ("UserIU", aa.Grid2DIrregularUniform)):
        sub[name] = type("VerifC17" + name, (base,), {})
    for name in ("UserGrid2D", "UserIrr", "UserGrid1D"):
        sub[name + "2"] = type("VerifC17" + name + "2", (sub[name],), {})
    k.sub = sub
    k.classes = classes
    k.method = method
    _KIT = k
    return k


def call(obj, stack, prog, style, grid, **kw):
    k = kit()
    obj.seen = []
    return getattr(obj, k.method(stack, prog, style))(grid, **kw)


# ----------------------------------------------------------------------------- comparison helpers


def arr(x):
    return np.array(x, dtype=float)


def near(a, b, tol):
    a = np.asarray(a, dtype=float)
    b = np.asarray(b, dtype=float)
    if a.shape != b.shape:
        return False
    if a.size == 0:
        return True
    return bool(np.all(np.abs(a - b) <= tol))


def scale_of(C):
    C = np.asarray(C, dtype=float)
    return max(1.0, float(np.max(np.abs(C)))) if C.size else 1.0


def same_mask2d(mk, m, ps, origin):
    try:
        return (
            dom.exact(np.array(mk, dtype=bool), m)
            and tuple(float(p) for p in mk.pixel_scales) == tuple(ps)
            and tuple(float(o) for o in mk.origin) == tuple(origin)
        )
    except Exception:
        return False


def scatter2d(m, vals):
    vals = np.asarray(vals, dtype=float)
    out = np.zeros(m.shape + vals.shape[1:])
    ii, jj = np.nonzero(~m)
    for k in range(len(ii)):
        out[ii[k], jj[k]] = vals[k]
    return out


def scatter1d(m, vals):
    vals = np.asarray(vals, dtype=float)
    out = np.zeros(m.shape + vals.shape[1:])
    idx = np.flatnonzero(~m)
    for k in range(len(idx)):
        out[idx[k]] = vals[k]
    return out


def f_seen(obj):
    return [s for s in obj.seen if s[0] == "F"]


# ----------------------------------------------------------------------------- container checks


def type_ok(out, want_type, loose=False):
    """Exact container type; `loose` (inputs that are instances of SUBCLASSES of the dispatched grid classes, for which the
    statement only fixes 'the irregular / uniform / 1D counterpart') also accepts a subclass of the expected container."""
    return isinstance(out, want_type) if loose else type(out) is want_type


def check_container(v, aa, fid, desc, out, ref, want_type, extra, tol, loose=False):
    """One element: exact type, values entry-by-entry (slim order) and the type-specific `extra` predicate."""
    if not type_ok(out, want_type, loose):
        v.ok(False, fid, lambda: "%s: returned %s, expected %s" % (desc, type(out).__name__, want_type.__name__))
        return
    got = arr(out.slim) if hasattr(out, "slim") else arr(out)
    ok = near(got, ref, tol)
    v.ok(ok, fid, lambda: "%s: entry k != f(coordinate k): got %s want %s" % (desc, got.tolist(), np.asarray(ref).tolist()))
    if extra is not None:
        msg = extra(out)
        v.ok(msg is None, fid, lambda: "%s: %s" % (desc, msg))


def check_result(v, aa, dname, itype, prog, desc, out, ref, want_type, extra, tol, loose=False):
    kind, idxs, is_list = PROGS[prog]
    if not is_list:
        fid = "%s:%s" % (dname, itype)
        if isinstance(out, list):
            v.ok(False, fid, "%s: non-list result returned as list" % desc)
            return
        check_container(v, aa, fid, desc, out, ref, want_type, extra, tol, loose)
        return
    fid = "list-wrapping:%s" % dname
    if not isinstance(out, list) or len(out) != len(idxs):
        v.ok(
            False,
            fid,
            lambda: "%s: list of %d results returned as %s%s"
            % (desc, len(idxs), type(out).__name__, (" of length %d" % len(out)) if isinstance(out, list) else ""),
        )
        return
    v.ok(True, fid)
    for j, (o, r) in enumerate(zip(out, ref)):
        check_container(v, aa, fid, "%s[element %d]" % (desc, j), o, r, want_type, extra, tol, loose)


def check_seen_once(v, fid, desc, obj, C, tol, want_kwargs=None):
    fs = f_seen(obj)
    if len(fs) != 1:
        v.ok(False, fid, "%s: user function called %d times" % (desc, len(fs)))
        return None
    got = fs[0][1]
    v.ok(near(got, C, tol), fid, lambda: "%s: function received %s, expected %s" % (desc, got.tolist(), np.asarray(C).tolist()))
    if want_kwargs is not None:
        v.ok(fs[0][3] == want_kwargs, fid, lambda: "%s: function kwargs %s expected %s" % (desc, fs[0][3], want_kwargs))
    return got


# ----------------------------------------------------------------------------- relocation oracle


def reloc_classes(C, rmin):
    r = np.hypot(C[:, 0], C[:, 1])
    centre = r == 0.0
    tie = (~centre) & (np.abs(r - rmin) <= 1e-9 * rmin)
    inside = (~centre) & (~tie) & (r < rmin)
    outside = (~centre) & (~tie) & (r > rmin)
    return r, centre, tie, inside, outside


def check_reloc(v, desc, got, C, rmin, suffix=""):
    """`got` = grid the function received, C = grid handed to the decorator (profile frame)."""
    fm, fu = "relocate_to_radial_minimum:moved" + suffix, "relocate_to_radial_minimum:unchanged" + suffix
    if got is None or got.shape != C.shape:
        v.ok(False, fm, "%s: received grid of shape %s for input %s" % (desc, None if got is None else got.shape, C.shape))
        return None
    r, centre, tie, inside, outside = reloc_classes(C, rmin)
    nviol = len(v.violations)
    if outside.any():
        # bitwise (the sign of zero is not part of the statement)
        ok = bool(np.all(got[outside] == C[outside]))
        v.ok(ok, fu, lambda: "%s: rmin=%g coordinates at r>=rmin changed: in %s -> got %s" % (desc, rmin, C[outside].tolist(), got[outside].tolist()))
    if inside.any():
        g, c, rr = got[inside], C[inside], r[inside]
        rg = np.hypot(g[:, 0], g[:, 1])
        on_radius = np.abs(rg - rmin) <= 1e-12 * rmin
        cross = np.abs(g[:, 0] * c[:, 1] - g[:, 1] * c[:, 0])
        dotp = g[:, 0] * c[:, 0] + g[:, 1] * c[:, 1]
        on_ray = (cross <= 1e-12 * rr * rmin) & (dotp > 0)
        ok = bool(np.all(on_radius & on_ray))
        v.ok(ok, fm, lambda: "%s: rmin=%g coordinates at r<rmin not moved outward to exactly rmin on their ray: in %s (r=%s) -> got %s (r=%s)" % (desc, rmin, c.tolist(), rr.tolist(), g.tolist(), rg.tolist()))
    if tie.any():
        g, c = got[tie], C[tie]
        v.ok(near(g, c, 1e-8 * rmin), fu, "%s: tie-band coordinate displaced" % desc)
    if len(v.violations) != nviol:
        return None  # consequences (outputs of enclosing makers) are not reported under a second id
    expected = C.copy()
    expected[inside] = C[inside] * (rmin / r[inside])[:, None]
    return expected, ~centre


# ----------------------------------------------------------------------------- cases


def cases(tier, seed):
    seed = int(seed)
    quick = tier == "quick"
    nprof = 3
    # (b) irregular sets - cheapest, first
    for menu in range(4):
        for n in range(1, 7):
            for pi in range(nprof):
                yield ["irr", menu, n, pi, seed]
    # (c) 1D grids
    lmax = 6 if quick else 9
    for L in range(1, lmax + 1):
        for bits in range(2 ** L - 1):
            for gi in range(6):
                for kind in ("uniform", "custom"):
                    yield ["g1d", L, bits, gi, kind, seed]
    # (d) relocation rings
    for ci in range(3):
        for dset in range(3 if quick else 4):
            for order in (0, 1):
                for cont in ("nd", "irr", "g2d"):
                    for pi in range(nprof):
                        yield ["ring", ci, dset, order, cont, pi, seed]
    # (d') integer-dtype coordinates through the relocation
    for ci in range(3):
        for menu in (0, 1):
            for order in (0, 1):
                for cont in ("nd", "irr", "g2d"):
                    yield ["ringint", ci, menu, order, cont, seed]
    # (e) explicit keyword forms of `is_transformed` (the only keyword the decorators read)
    for cont in ("nd", "irr", "g2d", "g1d"):
        for var in range(kw_variants(cont, quick)):
            for pi in (1, 2):
                for tstyle in (("nd",) if cont == "nd" else ("nd", "wna", "tg")):
                    yield ["kw", cont, var, pi, tstyle, seed]
    # (f) configuration histories inside one case
    for ci in range(3):
        for cont in ("nd", "irr", "g2d"):
            for hist in cfg_histories(quick):
                for pi in range(nprof):
                    yield ["cfg", ci, cont, hist, pi, seed]
    # (g) inputs that are instances of SUBCLASSES of the dispatched grid classes
    for variant in SUB_IRR:
        for menu in range(3):
            for n in range(1, 7):
                for pi in range(nprof):
                    yield ["sub", "irr", variant, menu, n, pi, seed]
    for variant in SUB_1D:
        for L in range(1, (5 if quick else 7) + 1):
            for bits in range(2 ** L - 1):
                for gi in ((1, 2, 5) if quick else range(6)):
                    yield ["sub", "g1d", variant, L, bits, gi, seed]
    for variant in SUB_2D:
        for (h, w, bits) in dom.all_mask_cases(4 if quick else 6):
            for gi in ((1, 2, 5) if quick else range(6)):
                yield ["sub", "g2d", variant, h, w, bits, gi, seed]
    # (a) masked uniform grids
    for (h, w, bits) in dom.all_mask_cases(9 if quick else 12):
        for gi in range(6):
            yield ["g2d", h, w, bits, gi, seed]


def run_case(case):
    k = kit()
    v = V(ID)
    kind = case[0]
    if kind == "irr":
        run_irr(k, v, *case[1:])
    elif kind == "g1d":
        run_g1d(k, v, *case[1:])
    elif kind == "ring":
        run_ring(k, v, *case[1:])
    elif kind == "ringint":
        run_ringint(k, v, *case[1:])
    elif kind == "g2d":
        run_g2d(k, v, *case[1:])
    elif kind == "kw":
        run_kw(k, v, *case[1:])
    elif kind == "cfg":
        run_cfg(k, v, *case[1:])
    elif kind == "sub":
        {"irr": run_sub_irr, "g2d": run_sub_g2d, "g1d": run_sub_g1d}[case[1]](k, v, *case[2:])
    else:
        raise ValueError("unknown case kind %r" % (kind,))
    return v.result()


STYLES = ("np", "st")
S_PROGS = ("s", "sL1", "sL2", "sL3")
P_PROGS = ("p", "pL1", "pL2", "pL3")


def mk_prof(k, cls, prof, tstyle="nd"):
    centre, angle = prof
    return k.classes[cls](centre=centre, angle=angle, tstyle=tstyle)


# ---------------------------------------------------------------- the three basic makers on one input grid


def run_makers(k, v, itype, grid, C_eval, mk_extra, types, desc0, tol, vector=True, loose=False):
    """to_array / to_grid / to_vector_yx on `grid`; C_eval = coordinates the function must be evaluated at."""
    aa = k.aa
    obj = mk_prof(k, "VerifC17ProfMid", ((0.0, 0.0), 0.0))
    plan = [("A", "to_array", S_PROGS, types[0]), ("G", "to_grid", P_PROGS, types[1])]
    if vector:
        plan.append(("V", "to_vector_yx", P_PROGS, types[2]))
    for stack, dname, progs, want in plan:
        for prog in progs:
            for style in STYLES:
                desc = "%s %s(%s,%s)" % (desc0, dname, prog, style)
                out = call(obj, stack, prog, style, grid)
                check_seen_once(v, "%s:%s" % (dname, itype), desc, obj, C_eval, tol, {})
                # the native-form (scatter) check does not depend on how the function computed its values
                check_result(v, aa, dname, itype, prog, desc, out, prog_ref(prog, C_eval), want, mk_extra(dname, style == "np"), tol, loose)


DERIVED = ":derived-after-parent-evaluated"


def run_derived(k, v, itype, dgrid, C_eval, plan, mk_extra, desc, ctol, tol):
    """`dgrid` was derived (arithmetic / copy / in-place edit) from a grid that HAS ALREADY BEEN EVALUATED through the
    decorators: it is evaluated at ITS OWN coordinates `C_eval` (nothing remembered from the parent's evaluation may
    travel with it), entry k = f(own coordinate k)."""
    obj = mk_prof(k, "VerifC17ProfMid", ((0.0, 0.0), 0.0))
    for stack, dname, prog, want in plan:
        d = "%s %s(%s)" % (desc, dname, prog)
        out = call(obj, stack, prog, "np", dgrid)
        if check_seen_once(v, "%s:%s%s" % (dname, itype, DERIVED), d, obj, C_eval, ctol, {}) is not None:
            check_result(v, k.aa, dname, itype + DERIVED, prog, d, out, prog_ref(prog, C_eval), want, mk_extra(dname), tol)


def derive_variants(aa, grid, C, want_type, which=("mul", "add", "neg", "copy")):
    """(description, derived grid, its own coordinates) - derived AFTER the parent `grid` (coordinates C) was evaluated.
    Variants whose arithmetic does not return the structure type with the expected values are not C17's business."""
    out = []
    c = 0.375
    for key, what, fn, Cd in (
        ("mul", "parent * 2.0", lambda: grid * 2.0, C * 2.0),
        ("add", "parent + %g" % c, lambda: grid + c, C + c),
        ("neg", "-parent", lambda: -grid, -C),
    ):
        if key not in which:
            continue
        d = fn()
        if type(d) is want_type and dom.exact(arr(d), Cd):
            out.append((what, d, Cd))
    d = grid.copy() if "copy" in which else None
    if type(d) is want_type and len(C) >= 1:
        Cd = C.copy()
        Cd[0] = -C[0] - 0.8125
        d[0] = Cd[0]
        if dom.exact(arr(d), Cd) and dom.exact(arr(grid), C):
            out.append(("parent.copy() with [0] := %s" % Cd[0].tolist(), d, Cd))
    return out


def edit_parent(grid, C):
    """In-place edit of the (already evaluated) parent itself; returns its new coordinates or None."""
    kk = len(C) - 1
    Cd = C.copy()
    Cd[kk] = C[kk] * 0.5 + 1.625
    grid[kk] = Cd[kk]
    return Cd if dom.exact(arr(grid), Cd) else None


# ---------------------------------------------------------------- (a) masked uniform grids


def run_g2d(k, v, h, w, bits, gi, seed):
    aa = k.aa
    m = dom.mask_from_bits(h, w, bits)
    ps, origin = geoms2d(seed)[gi]
    mask = aa.Mask2D(mask=m.copy(), pixel_scales=ps, origin=origin)
    n = int((~m).sum())
    v.nontrivial = n >= 2 and bool(m.any())
    profs = profiles(seed)
    g_uni = aa.Grid2D.from_mask(mask=mask)
    C_uni = arr(g_uni)
    jit = dom.rng(seed, "c17-jit", h, w, bits, gi).uniform(-0.4, 0.4, (n, 2)) * np.array(ps)
    C_cus = C_uni + jit
    g_cus = aa.Grid2D(values=C_cus.copy(), mask=mask)
    moved_total = 0

    for vname, grid, C in (("uniform", g_uni, C_uni), ("custom", g_cus, C_cus)):
        desc0 = "Grid2D[%s %dx%d bits=%d ps=%s origin=%s]" % (vname, h, w, bits, ps, origin)
        if arr(grid).shape != (n, 2):
            v.ok(False, "input-grid:Grid2D", "%s has shape %s" % (desc0, arr(grid).shape))
            continue
        C = arr(grid)  # coordinate k of the input, as the caller sees it
        sc = scale_of(C)

        def mk_extra(dname, full=True, grid=grid, C=C):
            def extra(out):
                if not same_mask2d(out.mask, m, ps, origin):
                    return "result is not on the input mask: %s ps=%s origin=%s" % (
                        np.array(out.mask).tolist(), out.mask.pixel_scales, out.mask.origin)
                if full and not dom.exact(arr(out.native), scatter2d(m, arr(out.slim))):
                    return "native form is not the scatter of the slim entries onto the unmasked pixels: %s" % arr(out.native).tolist()
                if dname == "to_vector_yx":
                    if not (type(out.grid) is aa.Grid2D and dom.exact(arr(out.grid), C)):
                        return "vector field is not attached to the input grid"
                return None

            return extra

        # exact: no arithmetic happens between the function and the container
        run_makers(k, v, "Grid2D", grid, C, mk_extra, (aa.Array2D, aa.Grid2D, aa.VectorYX2D), desc0, 0.0)
        # grids derived from the (now evaluated) parent are evaluated at their own coordinates
        # (one variant per coordinate kind here; all variants x all makers on the 1D and irregular grids)
        if vname == "uniform":
            which, plans = ("mul",), ((("A", "to_array", "s", aa.Array2D),),)
        else:
            which, plans = ("add", "copy"), ((("G", "to_grid", "p", aa.Grid2D),), (("V", "to_vector_yx", "p", aa.VectorYX2D),))
        for q, (what, dgrid, Cd) in enumerate(derive_variants(aa, grid, C, aa.Grid2D, which)):
            run_derived(k, v, "Grid2D", dgrid, Cd, plans[q % len(plans)], lambda dname, dgrid=dgrid, Cd=Cd: mk_extra(dname, True, dgrid, Cd),
                        "%s -> %s" % (desc0, what), 0.0, 0.0)

        # ---- transform (user-supplied frame change) under the makers: entry k = f(T(coordinate k))
        for pi in (1, 2):
            centre, angle = profs[pi]
            TC = t_ref(C, centre, angle)
            ttol = 2e-9 * scale_of(TC)
            for tstyle in ("nd", "wna", "tg"):
                obj = mk_prof(k, "VerifC17ProfMid", profs[pi], tstyle)
                for stack, dname, prog, want in (("AT", "to_array", "s", aa.Array2D), ("GT", "to_grid", "pL2", aa.Grid2D),
                                                 ("VT", "to_vector_yx", "p", aa.VectorYX2D)):
                    desc = "%s %s.transform(%s) prof=%s tstyle=%s" % (desc0, dname, prog, profs[pi], tstyle)
                    out = call(obj, stack, prog, "np", grid)
                    if check_transform_seen(v, "Grid2D", desc, obj, C, TC, 1e-12 * sc):
                        check_result(v, aa, dname, "Grid2D", prog, desc, out, prog_ref(prog, TC), want, mk_extra(dname), ttol)
            # nested decorated calls transform once; already-transformed grids pass through
            obj = mk_prof(k, "VerifC17ProfMid", profs[pi], "wna")
            desc = "%s transform(nested) prof=%s" % (desc0, profs[pi])
            out = call(obj, "T", "nest", "np", grid)
            check_nested(v, desc, obj, out, C, TC, 1e-12 * sc)
            out = call(obj, "T", "s", "np", grid, is_transformed=True)
            fs = f_seen(obj)
            ok = len(fs) == 1 and dom.exact(fs[0][1], C) and not [s for s in obj.seen if s[0] == "T"]
            v.ok(ok, "transform:Grid2D", lambda: "%s is_transformed=True: grid was transformed again / altered" % desc0)

        # ---- relocation in the frame of the received grid
        for cls in ("VerifC17ProfMid", "VerifC17ProfBig"):
            rmin = RMIN[cls]
            obj = mk_prof(k, cls, profs[0])
            desc = "%s relocate(%s)" % (desc0, cls)
            out = call(obj, "R", "id", "np", grid)
            fs = f_seen(obj)
            got = fs[0][1] if len(fs) == 1 else None
            res = check_reloc(v, desc, got, C, rmin)
            if res is not None:
                exp, chk = res
                moved_total += int(((exp != C).any(axis=1) & chk).sum())
                # the identity program returns what it received: container still mirrors the input
                if type(out) is aa.Grid2D and arr(out).shape == C.shape:
                    v.ok(dom.exact(arr(out), got) and same_mask2d(out.mask, m, ps, origin), "relocate_to_radial_minimum:container",
                         "%s: relocated Grid2D lost its mask / values" % desc)
                else:
                    v.ok(False, "relocate_to_radial_minimum:container", "%s: function received/returned %s" % (desc, type(out).__name__))
            # full stack as used downstream: to_grid . transform . relocate
            pi = 1
            centre, angle = profs[pi]
            obj = mk_prof(k, cls, profs[pi], "wna")
            TC = t_ref(C, centre, angle)
            desc = "%s to_grid.transform.relocate(%s) prof=%s" % (desc0, cls, profs[pi])
            out = call(obj, "GTR", "p", "np", grid)
            fs = f_seen(obj)
            got = fs[0][1] if len(fs) == 1 else None
            res = check_reloc(v, desc, got, TC, rmin)
            if res is not None:
                exp, chk = res
                moved_total += int(((exp != TC).any(axis=1) & chk).sum())
                check_stack_output(v, aa, "to_grid", "Grid2D", "p", desc, out, exp, chk, aa.Grid2D, mk_extra("to_grid"))

    # ---- project_grid: depends on the geometry of the mask only
    run_project_2d(k, v, g_uni, m, ps, origin, profs, "Grid2D[uniform %dx%d bits=%d ps=%s origin=%s]" % (h, w, bits, ps, origin))
    v.outcome = "g2d:n%d:moved%s" % (min(n, 4), "0" if moved_total == 0 else "+")


def check_transform_seen(v, itype, desc, obj, C, TC, tol):
    fid = "transform:%s" % itype
    ts = [s for s in obj.seen if s[0] == "T"]
    fs = f_seen(obj)
    if len(ts) != 1 or len(fs) != 1:
        v.ok(False, fid, "%s: transform called %d times, function %d times" % (desc, len(ts), len(fs)))
        return False
    nviol = len(v.violations)
    v.ok(near(ts[0][1], C, tol), fid, lambda: "%s: transform received %s expected %s" % (desc, ts[0][1].tolist(), C.tolist()))
    v.ok(near(fs[0][1], TC, tol), fid, lambda: "%s: function received %s expected the transformed grid %s" % (desc, fs[0][1].tolist(), TC.tolist()))
    v.ok(fs[0][3].get("is_transformed") is True, fid, lambda: "%s: function kwargs %s lack is_transformed=True" % (desc, fs[0][3]))
    return len(v.violations) == nviol


def check_nested(v, desc, obj, out, C, TC, tol):
    fid = "transform:nested"
    ts = [s for s in obj.seen if s[0] == "T"]
    fs = f_seen(obj)
    if len(ts) != 1 or len(fs) != 2:
        v.ok(False, fid, "%s: transform called %d times, functions %d times" % (desc, len(ts), len(fs)))
        return
    v.ok(near(fs[0][1], TC, tol) and near(fs[1][1], TC, tol), fid,
         lambda: "%s: outer received %s inner received %s expected %s" % (desc, fs[0][1].tolist(), fs[1][1].tolist(), TC.tolist()))
    v.ok(near(arr(out), prog_ref("s", TC), 2e-9 * scale_of(TC)), fid, "%s: nested result differs from f(T(grid))" % desc)


def check_stack_output(v, aa, dname, itype, prog, desc, out, exp, chk, want, extra, loose=False, fid=None, ref=None):
    """Output of <maker>.transform.relocate: entry k = prog(relocated coordinate k) for all non-centre entries."""
    fid = fid or "%s:%s" % (dname, itype)
    if not type_ok(out, want, loose):
        v.ok(False, fid, "%s: returned %s expected %s" % (desc, type(out).__name__, want.__name__))
        return
    got = arr(out.slim) if hasattr(out, "slim") else arr(out)
    ref = prog_ref(prog, exp) if ref is None else ref
    if got.shape != ref.shape:
        v.ok(False, fid, "%s: result shape %s expected %s" % (desc, got.shape, ref.shape))
        return
    tol = 2e-9 * scale_of(exp)
    v.ok(near(got[chk], ref[chk], tol), fid, lambda: "%s: entry k != f(relocated coordinate k): got %s want %s" % (desc, got[chk].tolist(), ref[chk].tolist()))
    if extra is not None:
        msg = extra(out)
        v.ok(msg is None, fid, lambda: "%s: %s" % (desc, msg))


# ---------------------------------------------------------------- project_grid


def rot_cw(dy, dx, A):
    """Rotate offsets (dy, dx) clockwise by A degrees (y up, x right)."""
    a = np.radians(A)
    return -dx * np.sin(a) + dy * np.cos(a), dx * np.cos(a) + dy * np.sin(a)


def prof_centre_angle(prof):
    centre, angle = prof
    c = (0.0, 0.0) if centre in ("absent", None) else centre
    A = 0.0 if angle in ("absent", None) else angle + 90.0
    return c, A


def run_project_2d(k, v, grid, m, ps, origin, profs, desc0, fid="project_grid:Grid2D", loose=False):
    aa = k.aa
    h, w = m.shape
    xmin, xmax = origin[1] - w * ps[1] / 2.0, origin[1] + w * ps[1] / 2.0
    ymin, ymax = origin[0] - h * ps[0] / 2.0, origin[0] + h * ps[0] / 2.0
    for prof in profs:
        (cy, cx), A = prof_centre_angle(prof)
        obj = mk_prof(k, "VerifC17ProfMid", prof)
        d = [(xmax - cx, ps[1]), (cx - xmin, ps[1]), (ymax - cy, ps[0]), (cy - ymin, ps[0])]
        dmax = max(x[0] for x in d)
        cands = set()
        for dist, p in d:
            if dist >= dmax - 1e-9 * max(1.0, abs(dmax)):
                q = dmax / p
                for nn in {int(math.floor(q + 1e-6)) + 1, int(math.floor(q - 1e-6)) + 1}:
                    if nn >= 1:
                        cands.add((p, nn))
        desc = "%s project_grid prof=%s" % (desc0, prof)
        out = call(obj, "P", "s", "np", grid)
        fs = f_seen(obj)
        if len(fs) != 1:
            v.ok(False, fid, "%s: function called %d times" % (desc, len(fs)))
            continue
        got = fs[0][1]
        hit = None
        for p, nn in sorted(cands):
            r = np.arange(nn) * p
            ey, ex = rot_cw(np.zeros(nn), r, A)
            E = np.stack([cy + ey, cx + ex], -1)
            if near(got, E, 1e-12 * max(1.0, scale_of(E))):
                hit = E
                break
        v.ok(hit is not None, fid, lambda: "%s: function evaluated on %s; documented radial line from centre %s rotated clockwise by %g deg has (pixel_scale, n) in %s"
             % (desc, got.tolist(), (cy, cx), A, sorted(cands)))
        if hit is None:
            continue
        ok = type_ok(out, aa.Array1D, loose) and near(arr(out), prog_ref("s", got), 0.0)
        v.ok(ok, fid, lambda: "%s: result %s %s is not the Array1D of f along the projected line" % (desc, type(out).__name__, arr(out).tolist()))


# ---------------------------------------------------------------- (b) irregular grids


def run_irr(k, v, menu, n, pi, seed):
    aa = k.aa
    pts = irregular_menu(seed, menu)[:n]
    profs = profiles(seed)
    grid = aa.Grid2DIrregular(values=pts.copy())
    C = arr(grid)
    v.nontrivial = n >= 2
    v.outcome = "irr:menu%d:n%d" % (menu, min(n, 3))
    sfx = ":int-dtype" if pts.dtype.kind in "iu" else ""
    itype = "Grid2DIrregular" + sfx
    desc0 = "Grid2DIrregular[menu %d n=%d dtype=%s %s]" % (menu, n, pts.dtype, pts.tolist())
    v.ok(dom.exact(C, pts), "input-grid:Grid2DIrregular", "%s does not hold its coordinates" % desc0)

    def mk_extra(dname, full=True):
        def extra(out):
            if len(out) != n:
                return "result has %d entries for %d coordinates" % (len(out), n)
            if dname == "to_vector_yx" and not (type(out.grid) is aa.Grid2DIrregular and dom.exact(arr(out.grid), C)):
                return "vector field is not attached to the input coordinates"
            return None

        return extra

    run_makers(k, v, itype, grid, C, mk_extra, (aa.ArrayIrregular, aa.Grid2DIrregular, aa.VectorYX2DIrregular), desc0, 0.0)

    # coordinate sets derived from the (now evaluated) parent are evaluated at their own coordinates
    plan = (("A", "to_array", "s", aa.ArrayIrregular), ("G", "to_grid", "p", aa.Grid2DIrregular), ("V", "to_vector_yx", "p", aa.VectorYX2DIrregular))
    if not sfx:
        for what, dgrid, Cd in derive_variants(aa, grid, C, aa.Grid2DIrregular):
            def mk_extra_d(dname, full=True, Cd=Cd):
                def extra(out):
                    if len(out) != n:
                        return "result has %d entries for %d coordinates" % (len(out), n)
                    if dname == "to_vector_yx" and not (type(out.grid) is aa.Grid2DIrregular and dom.exact(arr(out.grid), Cd)):
                        return "vector field is not attached to the input coordinates"
                    return None
                return extra
            run_derived(k, v, "Grid2DIrregular", dgrid, Cd, plan, mk_extra_d, "%s -> %s" % (desc0, what), 0.0, 0.0)

    # project_grid: an irregular grid is evaluated as it is (one entry per coordinate)
    for prof in (profs[pi], profs[3], profs[4]):
        obj = mk_prof(k, "VerifC17ProfMid", prof)
        for prog, want in (("s", aa.ArrayIrregular), ("p", aa.Grid2DIrregular)):
            desc = "%s project_grid(%s) prof=%s" % (desc0, prog, prof)
            out = call(obj, "P", prog, "np", grid)
            check_seen_once(v, "project_grid:" + itype, desc, obj, C, 0.0)
            check_container(v, aa, "project_grid:" + itype, desc, out, prog_ref(prog, C), want, mk_extra("project_grid"), 0.0)

    # transform stacks
    prof = profs[pi]
    centre, angle = prof
    TC = t_ref(C, centre, angle)
    sc = scale_of(C)
    for tstyle in ("nd", "wna", "tg"):
        obj = mk_prof(k, "VerifC17ProfMid", prof, tstyle)
        for stack, dname, prog, want in (("AT", "to_array", "sL3", aa.ArrayIrregular), ("GT", "to_grid", "p", aa.Grid2DIrregular),
                                         ("VT", "to_vector_yx", "pL1", aa.VectorYX2DIrregular)):
            desc = "%s %s.transform(%s) prof=%s tstyle=%s" % (desc0, dname, prog, prof, tstyle)
            out = call(obj, stack, prog, "np", grid)
            if check_transform_seen(v, itype, desc, obj, C, TC, 1e-12 * sc):
                check_result(v, aa, dname, itype, prog, desc, out, prog_ref(prog, TC), want, mk_extra(dname), 2e-9 * scale_of(TC))
    obj = mk_prof(k, "VerifC17ProfMid", prof, "wna")
    out = call(obj, "T", "nest", "np", grid)
    check_nested(v, "%s transform(nested) prof=%s" % (desc0, prof), obj, out, C, TC, 1e-12 * sc)

    # relocation, bare and under the full stack
    for cls in CLS:
        rmin = RMIN[cls]
        obj = mk_prof(k, cls, prof, "wna")
        desc = "%s relocate(%s)" % (desc0, cls)
        call(obj, "R", "id", "np", grid)
        fs = f_seen(obj)
        check_reloc(v, desc, fs[0][1] if len(fs) == 1 else None, C, rmin, sfx)
        desc = "%s to_array.transform.relocate(%s) prof=%s" % (desc0, cls, prof)
        out = call(obj, "ATR", "s", "np", grid)
        fs = f_seen(obj)
        res = check_reloc(v, desc, fs[0][1] if len(fs) == 1 else None, TC, rmin, sfx)
        if res is not None:
            check_stack_output(v, aa, "to_array", itype, "s", desc, out, res[0], res[1], aa.ArrayIrregular, mk_extra("to_array"))
        # a grid flagged as already transformed skips the frame change: the relocation acts on the coordinates as given
        desc = "%s to_array.transform.relocate(%s) is_transformed=True" % (desc0, cls)
        out = call(obj, "ATR", "s", "np", grid, is_transformed=True)
        fs = f_seen(obj)
        res = check_reloc(v, desc, fs[0][1] if len(fs) == 1 else None, C, rmin, sfx)
        if res is not None:
            check_stack_output(v, aa, "to_array", itype, "s", desc, out, res[0], res[1], aa.ArrayIrregular, mk_extra("to_array"))


# ---------------------------------------------------------------- (c) 1D grids


def run_g1d(k, v, L, bits, gi, kind, seed):
    aa = k.aa
    m = dom.mask_from_bits(1, L, bits)[0]
    ps, origin = geoms1d(seed)[gi]
    mask = aa.Mask1D(mask=m.copy(), pixel_scales=(ps,), origin=(origin,))
    n = int((~m).sum())
    profs = profiles(seed)
    if kind == "uniform":
        grid = aa.Grid1D.from_mask(mask=mask)
    else:
        r = dom.rng(seed, "c17-1d", L, bits, gi)
        xs = np.round(r.uniform(-3.0, 3.0, n), 4)
        if n >= 3:
            xs[2] = xs[0]  # a repeated coordinate
        grid = aa.Grid1D(values=xs.copy(), mask=mask)
    X = arr(grid.slim)
    v.nontrivial = n >= 2 and bool(m.any())
    v.outcome = "g1d:%s:n%d:%s" % (kind, min(n, 3), "masked" if m.any() else "full")
    desc0 = "Grid1D[%s L=%d bits=%d ps=%s origin=%s x=%s]" % (kind, L, bits, ps, origin, X.tolist())
    if X.shape != (n,):
        v.ok(False, "input-grid:Grid1D", "%s has slim shape %s" % (desc0, X.shape))
        return
    sc = scale_of(X)
    ctol = 1e-12 * sc
    vtol = 2e-9 * sc
    P0 = np.stack([np.zeros(n), X], -1)  # the documented projection at angle 0: (0, x_k)

    def same_mask1d(mk):
        try:
            return dom.exact(np.array(mk, dtype=bool), m) and float(mk.pixel_scales[0]) == ps and float(mk.origin[0]) == origin
        except Exception:
            return False

    def extra_arr(out):
        if not same_mask1d(out.mask):
            return "result is not on the input 1D mask: %s" % np.array(out.mask).tolist()
        if not dom.exact(arr(out.native), scatter1d(m, arr(out.slim))):
            return "native form is not the scatter of the slim entries: %s" % arr(out.native).tolist()
        return None

    def extra_grid(out):
        mk = out.mask
        if not (dom.exact(np.array(mk, dtype=bool), m[None, :]) and tuple(float(p) for p in mk.pixel_scales) == (ps, ps)):
            return "result Grid2D is not on the [1, L] image of the 1D mask: %s ps=%s" % (np.array(mk).tolist(), mk.pixel_scales)
        if not dom.exact(arr(out.native), scatter2d(m[None, :], arr(out.slim))):
            return "native form is not the scatter of the slim entries: %s" % arr(out.native).tolist()
        return None

    def mk_extra(dname, full=True):
        return extra_arr if dname == "to_array" else extra_grid

    run_makers(k, v, "Grid1D", grid, P0, mk_extra, (aa.Array1D, aa.Grid2D, None), desc0, vtol, vector=False)
    # tighter: the coordinates themselves
    obj = mk_prof(k, "VerifC17ProfMid", profs[0])
    call(obj, "A", "s", "np", grid)
    check_seen_once(v, "to_array:Grid1D", desc0 + " to_array projected line", obj, P0, ctol)

    # project_grid: line rotated clockwise by (angle + 90) about the origin
    for prof in profs:
        _, A = prof_centre_angle(prof)
        obj = mk_prof(k, "VerifC17ProfMid", prof)
        ey, ex = rot_cw(np.zeros(n), X, A)
        E = np.stack([ey, ex], -1)
        desc = "%s project_grid prof=%s" % (desc0, prof)
        out = call(obj, "P", "s", "np", grid)
        got = check_seen_once(v, "project_grid:Grid1D", desc, obj, E, ctol)
        if got is not None:
            ok = type(out) is aa.Array1D and near(arr(out), prog_ref("s", got), 0.0)
            v.ok(ok, "project_grid:Grid1D", lambda: "%s: result %s %s is not the Array1D of f along the projected line" % (desc, type(out).__name__, arr(out).tolist()))

    # transform / relocation under to_array: evaluated on T(projected line)
    for pi in (1, 2):
        prof = profs[pi]
        centre, angle = prof
        TC = t_ref(P0, centre, angle)
        for tstyle in ("nd", "tg"):
            obj = mk_prof(k, "VerifC17ProfMid", prof, tstyle)
            for stack, dname, prog, want in (("AT", "to_array", "sL2", aa.Array1D), ("GT", "to_grid", "p", aa.Grid2D)):
                desc = "%s %s.transform(%s) prof=%s tstyle=%s" % (desc0, dname, prog, prof, tstyle)
                out = call(obj, stack, prog, "np", grid)
                if check_transform_seen(v, "Grid1D", desc, obj, P0, TC, ctol):
                    check_result(v, aa, dname, "Grid1D", prog, desc, out, prog_ref(prog, TC), want, mk_extra(dname), 2e-9 * scale_of(TC))
    for cls in ("VerifC17ProfMid", "VerifC17ProfBig"):
        rmin = RMIN[cls]
        for pi in (0, 1):
            prof = profs[pi]
            obj = mk_prof(k, cls, prof, "wna")
            desc = "%s to_array.transform.relocate(%s) prof=%s" % (desc0, cls, prof)
            out = call(obj, "ATR", "s", "np", grid)
            fs = f_seen(obj)
            if len(fs) != 1:
                v.ok(False, "relocate_to_radial_minimum:moved", "%s: function called %d times" % (desc, len(fs)))
                continue
            ts = [s for s in obj.seen if s[0] == "T"]
            # relocation acts on the grid `transform` produced (taken from the trace: it carries the ~1e-16
            # rounding of the projection, which matters next to r == 0)
            TC = t_ref(ts[0][1], prof[0], prof[1]) if len(ts) == 1 else t_ref(P0, prof[0], prof[1])
            res = check_reloc(v, desc, fs[0][1], TC, rmin)
            if res is not None:
                check_stack_output(v, aa, "to_array", "Grid1D", "s", desc, out, res[0], res[1], aa.Array1D, extra_arr)

    # ---- 1D grids derived from the (now evaluated) parent, and the parent itself after an in-place edit, are
    # evaluated along THEIR OWN projected line
    plan = (("A", "to_array", "s", aa.Array1D), ("G", "to_grid", "p", aa.Grid2D))
    variants = derive_variants(aa, grid, X, aa.Grid1D)
    Xe = edit_parent(grid, X)
    if Xe is not None:
        variants.append(("the parent itself after [%d] := %r" % (n - 1, float(Xe[n - 1])), grid, Xe))
    for what, dgrid, Xd in variants:
        scd = scale_of(Xd)
        Pd = np.stack([np.zeros(n), Xd], -1)
        desc = "%s -> %s" % (desc0, what)
        run_derived(k, v, "Grid1D", dgrid, Pd, plan, mk_extra, desc, 1e-12 * scd, 2e-9 * scd)
        prof = profs[1]
        _, A = prof_centre_angle(prof)
        obj = mk_prof(k, "VerifC17ProfMid", prof)
        ey, ex = rot_cw(np.zeros(n), Xd, A)
        out = call(obj, "P", "s", "np", dgrid)
        got = check_seen_once(v, "project_grid:Grid1D" + DERIVED, desc + " project_grid prof=%s" % (prof,), obj, np.stack([ey, ex], -1), 1e-12 * scd)
        if got is not None:
            ok = type(out) is aa.Array1D and near(arr(out), prog_ref("s", got), 0.0)
            v.ok(ok, "project_grid:Grid1D" + DERIVED, lambda: "%s project_grid: result %s %s is not the Array1D of f along the projected line" % (desc, type(out).__name__, arr(out).tolist()))


# ---------------------------------------------------------------- (d) relocation rings


def ring_points(seed, ci, dset, order):
    rmin = RMIN[CLS[ci]]
    dirs = ring_dirs(seed, dset)
    pts = [(f * rmin * sy, f * rmin * cx) for (sy, cx) in dirs for f in FACT]
    pts = np.array(pts)
    if order == 1:
        perm = dom.rng(seed, "c17-perm", ci, dset).permutation(len(pts))
        pts = pts[perm]
    return pts


def run_ringint(k, v, ci, menu, order, cont, seed):
    """Integer-dtype coordinates (np.array([[1, 0], [0, 2]]), aa.Grid2DIrregular([(1, 0), (0, 2)]) and a Grid2D built from a
    slim integer array all keep int64): coordinates inside the minimum reach the function at EXACTLY the minimum radius
    (not at its truncation to the input's dtype), all others bitwise unchanged."""
    aa = k.aa
    cls = CLS[ci]
    rmin = RMIN[cls]
    Pi = int_ring_points(seed, menu, order)
    Pf = Pi.astype(float)
    n = len(Pi)
    m = ring_mask(n)
    sfx = ":int-dtype"

    def wrap():
        if cont == "nd":
            return Pi.copy(), np.ndarray
        if cont == "irr":
            return aa.Grid2DIrregular(values=Pi.copy()), aa.Grid2DIrregular
        mask = aa.Mask2D(mask=m.copy(), pixel_scales=(0.7, 0.7), origin=(0.1, -0.2))
        return aa.Grid2D(values=Pi.copy(), mask=mask), aa.Grid2D

    desc0 = "ring-int[%s menu=%d order=%d %s coordinates=%s]" % (cls, menu, order, cont, Pi.tolist())
    r, cen, tie, inside, outside = reloc_classes(Pf, rmin)
    grid, gtype = wrap()
    in_kind = np.asarray(grid).dtype.kind
    obj = mk_prof(k, cls, ((0.0, 0.0), 0.0), "wna")
    out = call(obj, "R", "id", "np", grid)
    fs = f_seen(obj)
    res = check_reloc(v, desc0 + " relocate", fs[0][1] if len(fs) == 1 else None, Pf, rmin, sfx)
    if res is not None:
        v.ok(type(out) is gtype and dom.exact(np.array(out, dtype=float), fs[0][1]), "relocate_to_radial_minimum:container" + sfx,
             lambda: "%s: function received %s for a %s input" % (desc0, type(out).__name__, gtype.__name__))
        v.ok(dom.exact(np.asarray(grid), Pi) and np.asarray(grid).dtype.kind == in_kind, "relocate_to_radial_minimum:input-mutated" + sfx,
             "%s: caller's grid was modified" % desc0)
    # under the makers / a skipped transform the integer coordinates reach the relocation as they are
    stacks = [("TR", None, "id", None)]
    if cont != "nd":
        want = {("irr", "A"): aa.ArrayIrregular, ("irr", "G"): aa.Grid2DIrregular, ("irr", "V"): aa.VectorYX2DIrregular,
                ("g2d", "A"): aa.Array2D, ("g2d", "G"): aa.Grid2D, ("g2d", "V"): aa.VectorYX2D}
        stacks += [("AR", "to_array", "s", want[(cont, "A")]), ("GR", "to_grid", "p", want[(cont, "G")]),
                   ("VR", "to_vector_yx", "p", want[(cont, "V")]), ("ATR", "to_array", "s", want[(cont, "A")])]
    itype = {"nd": "ndarray", "irr": "Grid2DIrregular", "g2d": "Grid2D"}[cont] + sfx
    for stack, dname, prog, wt in stacks:
        grid, gtype = wrap()
        kw = {"is_transformed": True} if "T" in stack else {}
        desc = "%s %s(%s)%s" % (desc0, ".".join({"A": "to_array", "G": "to_grid", "V": "to_vector_yx", "T": "transform", "R": "relocate"}[c] for c in stack),
                                prog, " is_transformed=True" if kw else "")
        out = call(obj, stack, prog, "np", grid, **kw)
        fs = f_seen(obj)
        res = check_reloc(v, desc, fs[0][1] if len(fs) == 1 else None, Pf, rmin, sfx)
        if res is None or dname is None:
            continue
        extra = None
        if cont == "g2d":
            def extra(o):
                if not same_mask2d(o.mask, m, (0.7, 0.7), (0.1, -0.2)):
                    return "result is not on the input mask"
                return None
        check_stack_output(v, aa, dname, itype, prog, desc, out, res[0], res[1], wt, extra)
    moved, unmoved = int(inside.sum()), int(outside.sum())
    v.nontrivial = moved >= 1 and unmoved >= 1
    v.outcome = "ringint:%s:%s:moved%d:unmoved%d" % (cls, cont, min(moved, 1), min(unmoved, 1))


def ring_mask(n):
    w = 8
    hh = (3 * n) // (2 * w) + 2
    m = np.ones((hh, w), dtype=bool)
    c = 0
    for i in range(hh):
        for j in range(w):
            if c < n and (i * w + j) % 3 != 0:
                m[i, j] = False
                c += 1
    assert c == n
    return m


def run_ring(k, v, ci, dset, order, cont, pi, seed):
    aa = k.aa
    cls = CLS[ci]
    rmin = RMIN[cls]
    prof = profiles(seed)[pi]
    centre, angle = prof
    Pf = ring_points(seed, ci, dset, order)  # designed in the profile frame
    n = len(Pf)
    m = ring_mask(n)

    def wrap(C):
        if cont == "nd":
            return C.copy(), np.ndarray, None
        if cont == "irr":
            return aa.Grid2DIrregular(values=C.copy()), aa.Grid2DIrregular, None
        mask = aa.Mask2D(mask=m.copy(), pixel_scales=(0.7, 0.7), origin=(0.1, -0.2))
        return aa.Grid2D(values=C.copy(), mask=mask), aa.Grid2D, mask

    desc0 = "ring[%s dirs=%d order=%d %s prof=%s]" % (cls, dset, order, cont, prof)
    moved = unmoved = 0

    # bare decorator: the received grid is the frame
    grid, gtype, mask = wrap(Pf)
    obj = mk_prof(k, cls, prof, "wna")
    out = call(obj, "R", "id", "np", grid)
    fs = f_seen(obj)
    res = check_reloc(v, desc0 + " relocate", fs[0][1] if len(fs) == 1 else None, Pf, rmin)
    if res is not None:
        r, cen, tie, inside, outside = reloc_classes(Pf, rmin)
        moved, unmoved = int(inside.sum()), int(outside.sum())
        v.ok(type(out) is gtype and dom.exact(arr(out), fs[0][1]), "relocate_to_radial_minimum:container",
             lambda: "%s: function received %s for a %s input" % (desc0, type(out).__name__, gtype.__name__))
        v.ok(dom.exact(arr(grid), Pf), "relocate_to_radial_minimum:input-mutated", "%s: caller's grid was modified" % desc0)

    # transform . relocate : points placed so that they fall on the rings after the profile's transform
    S = t_inv(Pf, centre, angle)
    for tstyle in (("nd", "wna") if cont != "nd" else ("nd",)):
        grid, gtype, mask = wrap(S)
        C = arr(grid)
        TC = t_ref(C, centre, angle)
        obj = mk_prof(k, cls, prof, tstyle)
        desc = "%s transform.relocate tstyle=%s" % (desc0, tstyle)
        call(obj, "TR", "id", "np", grid)
        fs = f_seen(obj)
        check_reloc(v, desc, fs[0][1] if len(fs) == 1 else None, TC, rmin)
        if cont == "nd":
            continue
        for stack, dname, prog in (("ATR", "to_array", "s"), ("GTR", "to_grid", "p"), ("VTR", "to_vector_yx", "p")):
            want = {("irr", "A"): aa.ArrayIrregular, ("irr", "G"): aa.Grid2DIrregular, ("irr", "V"): aa.VectorYX2DIrregular,
                    ("g2d", "A"): aa.Array2D, ("g2d", "G"): aa.Grid2D, ("g2d", "V"): aa.VectorYX2D}[(cont, stack[0])]
            desc = "%s %s.transform.relocate(%s) tstyle=%s" % (desc0, dname, prog, tstyle)
            out = call(obj, stack, prog, "np", grid)
            fs = f_seen(obj)
            res = check_reloc(v, desc, fs[0][1] if len(fs) == 1 else None, TC, rmin)
            if res is None:
                continue
            extra = None
            if cont == "g2d":
                def extra(o, mask=mask):
                    if not same_mask2d(o.mask, m, (0.7, 0.7), (0.1, -0.2)):
                        return "result is not on the input mask"
                    return None
            itype = "Grid2DIrregular" if cont == "irr" else "Grid2D"
            check_stack_output(v, aa, dname, itype, prog, desc, out, res[0], res[1], want, extra)
    v.nontrivial = moved >= 1 and unmoved >= 1
    v.outcome = "ring:%s:%s:moved%d:unmoved%d" % (cls, cont, min(moved, 1), min(unmoved, 1))


# ---------------------------------------------------------------- (e) explicit keyword forms

# `is_transformed` is the only keyword any decorator reads (transform.py); the makers, project_grid and the relocation pass
# keywords through. Its documented meaning: "tracks whether the grid has been transformed" - a grid is transformed into the
# profile frame UNLESS the caller flags it as already transformed.
KWFORMS = (("absent", {}), ("False", {"is_transformed": False}), ("True", {"is_transformed": True}))

KW_MASKS = [(3, 3, 0b100010001), (2, 4, 0b00100100), (1, 5, 0b01000), (4, 2, 0b10000010), (2, 2, 0b0001), (3, 2, 0)]
KW_MASKS_1D = [(5, 0b00100), (4, 0b0000), (6, 0b100001), (3, 0b010), (2, 0b00)]


def kw_variants(cont, quick):
    if cont in ("nd", "irr"):
        return 3 if quick else 18  # menu x (full length | every prefix length)
    if cont == "g2d":
        return 3 if quick else 2 * len(KW_MASKS)
    return 3 if quick else 2 * len(KW_MASKS_1D)


def frame_ref(C, centre, angle, kw):
    """Reference model of the keyword: already-transformed grids pass through, all others are put in the profile frame."""
    return C.copy() if kw.get("is_transformed") is True else t_ref(C, centre, angle)


def check_kw_frame(v, fid, desc, obj, C, F, kw, tol, ptol, ncalls=1, relocated=False):
    """The transform ran exactly when the keyword does not flag the grid as transformed, on the caller's coordinates; the
    function(s) received the frame coordinates F (unless a relocation follows) flagged is_transformed=True."""
    ts = [s for s in obj.seen if s[0] == "T"]
    fs = f_seen(obj)
    want_t = 0 if kw.get("is_transformed") is True else 1
    if len(ts) != want_t or len(fs) != ncalls:
        v.ok(False, fid, "%s: profile transform called %d times (expected %d), function %d times (expected %d)" % (desc, len(ts), want_t, len(fs), ncalls))
        return None
    nviol = len(v.violations)
    if want_t:
        v.ok(near(ts[0][1], C, ptol), fid, lambda: "%s: transform received %s expected the caller's coordinates %s" % (desc, ts[0][1].tolist(), C.tolist()))
    if not relocated:
        for j, f in enumerate(fs):
            v.ok(near(f[1], F, tol if want_t else ptol), fid,
                 lambda: "%s: function %d received %s, expected %s" % (desc, j, f[1].tolist(), F.tolist()))
    for j, f in enumerate(fs):
        v.ok(f[3].get("is_transformed") is True, fid, lambda: "%s: function %d kwargs %s lack is_transformed=True" % (desc, j, f[3]))
    return fs[0][1] if len(v.violations) == nviol else None


def run_kwforms(k, v, itype, mkgrid, C, prof, tstyle, plan, rplan, mk_extra, ptol, desc0):
    """Every form of the keyword through transform alone, nested, under every maker and over the relocation.
    mkgrid() = a fresh input whose coordinates (as the decorated function must see them untransformed) are C;
    ptol = tolerance of the pass-through coordinates (0 unless the input is projected first)."""
    aa = k.aa
    centre, angle = prof
    sc = scale_of(C)
    for form, kw in KWFORMS:
        sfx = ":is_transformed=" + form
        F = frame_ref(C, centre, angle, kw)
        tol = 1e-12 * max(sc, scale_of(F))
        vtol = 2e-9 * scale_of(F)
        obj = mk_prof(k, "VerifC17ProfMid", prof, tstyle)
        # transform alone: the identity program returns what it received
        desc = "%s transform(id) is_transformed=%s prof=%s tstyle=%s" % (desc0, form, prof, tstyle)
        call(obj, "T", "id", "np", mkgrid(), **kw)
        check_kw_frame(v, "transform:%s%s" % (itype, sfx), desc, obj, C, F, kw, tol, ptol)
        # nested decorated calls: one transform at most, both levels see the frame coordinates
        desc = "%s transform(nested) is_transformed=%s prof=%s tstyle=%s" % (desc0, form, prof, tstyle)
        out = call(obj, "T", "nest", "np", mkgrid(), **kw)
        if check_kw_frame(v, "transform:nested" + sfx, desc, obj, C, F, kw, tol, ptol, ncalls=2) is not None:
            v.ok(near(arr(out), prog_ref("s", F), max(vtol, 1e3 * ptol)), "transform:nested" + sfx, "%s: nested result differs from f(frame coordinates)" % desc)
        # under the makers (and project_grid where it passes the grid through)
        for stack, dname, progs, want in plan:
            for prog in progs:
                desc = "%s %s.transform(%s) is_transformed=%s prof=%s tstyle=%s" % (desc0, dname, prog, form, prof, tstyle)
                out = call(obj, stack, prog, "np", mkgrid(), **kw)
                if check_kw_frame(v, "transform:%s%s" % (itype, sfx), desc, obj, C, F, kw, tol, ptol) is not None:
                    check_result(v, aa, dname, itype + sfx, prog, desc, out, prog_ref(prog, F), want, mk_extra(dname),
                                 vtol if kw.get("is_transformed") is not True else 1e3 * ptol)
        # over the relocation: it acts in the frame the keyword selects
        for cls in ("VerifC17ProfMid", "VerifC17ProfBig"):
            robj = mk_prof(k, cls, prof, tstyle)
            for stack, dname, prog, want in rplan:
                desc = "%s %s(%s) %s is_transformed=%s prof=%s tstyle=%s" % (
                    desc0, ".".join({"A": "to_array", "G": "to_grid", "V": "to_vector_yx", "T": "transform", "R": "relocate"}[c] for c in stack),
                    prog, cls, form, prof, tstyle)
                out = call(robj, stack, prog, "np", mkgrid(), **kw)
                got = check_kw_frame(v, "transform:%s%s" % (itype, sfx), desc, robj, C, F, kw, tol, ptol, relocated=True)
                if got is None:
                    continue
                res = check_reloc(v, desc, got, F, RMIN[cls], sfx)
                if res is not None and dname is not None:
                    check_stack_output(v, aa, dname, itype + sfx, prog, desc, out, res[0], res[1], want, mk_extra(dname))


def extras_irr(aa, n, C):
    def mk_extra(dname, full=True):
        def extra(out):
            if len(out) != n:
                return "result has %d entries for %d coordinates" % (len(out), n)
            if dname == "to_vector_yx" and not (type(out.grid) is aa.Grid2DIrregular and dom.exact(arr(out.grid), C)):
                return "vector field is not attached to the input coordinates"
            return None

        return extra

    return mk_extra


def extras_g2d(aa, m, ps, origin, C):
    def mk_extra(dname, full=True):
        def extra(out):
            if not same_mask2d(out.mask, m, ps, origin):
                return "result is not on the input mask: %s ps=%s origin=%s" % (np.array(out.mask).tolist(), out.mask.pixel_scales, out.mask.origin)
            if not dom.exact(arr(out.native), scatter2d(m, arr(out.slim))):
                return "native form is not the scatter of the slim entries onto the unmasked pixels: %s" % arr(out.native).tolist()
            if dname == "to_vector_yx" and not (type(out.grid) is aa.Grid2D and dom.exact(arr(out.grid), C)):
                return "vector field is not attached to the input grid"
            return None

        return extra

    return mk_extra


def extras_g1d(m, ps, origin):
    def extra_arr(out):
        mk = out.mask
        if not (dom.exact(np.array(mk, dtype=bool), m) and float(mk.pixel_scales[0]) == ps and float(mk.origin[0]) == origin):
            return "result is not on the input 1D mask: %s" % np.array(mk).tolist()
        if not dom.exact(arr(out.native), scatter1d(m, arr(out.slim))):
            return "native form is not the scatter of the slim entries: %s" % arr(out.native).tolist()
        return None

    def extra_grid(out):
        mk = out.mask
        if not (dom.exact(np.array(mk, dtype=bool), m[None, :]) and tuple(float(p) for p in mk.pixel_scales) == (ps, ps)):
            return "result Grid2D is not on the [1, L] image of the 1D mask: %s ps=%s" % (np.array(mk).tolist(), mk.pixel_scales)
        if not dom.exact(arr(out.native), scatter2d(m[None, :], arr(out.slim))):
            return "native form is not the scatter of the slim entries: %s" % arr(out.native).tolist()
        return None

    return lambda dname, full=True: extra_arr if dname == "to_array" else extra_grid


def run_kw(k, v, cont, var, pi, tstyle, seed):
    aa = k.aa
    prof = profiles(seed)[pi]
    A, G, V2 = "to_array", "to_grid", "to_vector_yx"
    if cont in ("nd", "irr"):
        menu, n = (var, 6) if var < 3 else ((var - 3) % 3, 1 + (var - 3) // 3)
        pts = irregular_menu(seed, menu)[:n]
        desc0 = "kw[%s menu %d n=%d %s]" % (cont, menu, n, pts.tolist())
        v.nontrivial = n >= 2
        v.outcome = "kw:%s:n%d" % (cont, min(n, 3))
        if cont == "nd":
            # a bare ndarray goes through transform / relocation only (the makers need a structure)
            run_kwforms(k, v, "ndarray", lambda: pts.copy(), pts.astype(float), prof, tstyle, (), (("TR", None, "id", None),), None, 0.0, desc0)
            return
        C = arr(aa.Grid2DIrregular(values=pts.copy()))
        plan = (("AT", A, ("s", "sL2"), aa.ArrayIrregular), ("GT", G, ("p", "pL3"), aa.Grid2DIrregular), ("VT", V2, ("p", "pL1"), aa.VectorYX2DIrregular),
                ("PT", "project_grid", ("s",), aa.ArrayIrregular))
        rplan = (("TR", None, "id", None), ("ATR", A, "s", aa.ArrayIrregular), ("GTR", G, "p", aa.Grid2DIrregular), ("VTR", V2, "p", aa.VectorYX2DIrregular))
        run_kwforms(k, v, "Grid2DIrregular", lambda: aa.Grid2DIrregular(values=pts.copy()), C, prof, tstyle, plan, rplan, extras_irr(aa, n, C), 0.0, desc0)
        return
    if cont == "g2d":
        h, w, bits = KW_MASKS[var % len(KW_MASKS)]
        m = dom.mask_from_bits(h, w, bits)
        ps, origin = geoms2d(seed)[(2 * var + 1 + var // len(KW_MASKS)) % 6]
        n = int((~m).sum())
        v.nontrivial = n >= 2
        v.outcome = "kw:g2d:n%d:%s" % (min(n, 4), "masked" if m.any() else "full")
        mk = lambda: aa.Mask2D(mask=m.copy(), pixel_scales=ps, origin=origin)
        C_uni = arr(aa.Grid2D.from_mask(mask=mk()))
        C_cus = C_uni + dom.rng(seed, "c17-kwjit", var).uniform(-0.4, 0.4, (n, 2)) * np.array(ps)
        plan = (("AT", A, ("s", "sL2"), aa.Array2D), ("GT", G, ("p", "pL3"), aa.Grid2D), ("VT", V2, ("p", "pL1"), aa.VectorYX2D))
        rplan = (("TR", None, "id", None), ("ATR", A, "s", aa.Array2D), ("GTR", G, "p", aa.Grid2D), ("VTR", V2, "p", aa.VectorYX2D))
        for vname, C0, mkgrid in (("uniform", C_uni, lambda: aa.Grid2D.from_mask(mask=mk())),
                                  ("custom", C_cus, lambda: aa.Grid2D(values=C_cus.copy(), mask=mk()))):
            C = arr(mkgrid())
            desc0 = "kw[Grid2D %s %dx%d bits=%d ps=%s origin=%s]" % (vname, h, w, bits, ps, origin)
            if not dom.exact(C, C0):
                v.ok(False, "input-grid:Grid2D", "%s does not hold its coordinates" % desc0)
                continue
            run_kwforms(k, v, "Grid2D", mkgrid, C, prof, tstyle, plan, rplan, extras_g2d(aa, m, ps, origin, C), 0.0, desc0)
        return
    # 1D grids: the makers evaluate along the projected line (0, x_k); the keyword acts on that line
    L, bits = KW_MASKS_1D[var % len(KW_MASKS_1D)]
    m = dom.mask_from_bits(1, L, bits)[0]
    ps, origin = geoms1d(seed)[(2 * var + 1 + var // len(KW_MASKS_1D)) % 6]
    n = int((~m).sum())
    v.nontrivial = n >= 2
    v.outcome = "kw:g1d:n%d:%s" % (min(n, 3), "masked" if m.any() else "full")
    mk = lambda: aa.Mask1D(mask=m.copy(), pixel_scales=(ps,), origin=(origin,))
    xs = np.round(dom.rng(seed, "c17-kw1d", var).uniform(-3.0, 3.0, n), 4)
    plan = (("AT", A, ("s", "sL2"), aa.Array1D), ("GT", G, ("p", "pL3"), aa.Grid2D))
    for vname, mkgrid in (("uniform", lambda: aa.Grid1D.from_mask(mask=mk())), ("custom", lambda: aa.Grid1D(values=xs.copy(), mask=mk()))):
        X = arr(mkgrid().slim)
        desc0 = "kw[Grid1D %s L=%d bits=%d ps=%s origin=%s x=%s]" % (vname, L, bits, ps, origin, X.tolist())
        if X.shape != (n,):
            v.ok(False, "input-grid:Grid1D", "%s has slim shape %s" % (desc0, X.shape))
            continue
        P0 = np.stack([np.zeros(n), X], -1)
        obj_plan = [p for p in plan]
        run_kwforms_1d(k, v, mkgrid, P0, prof, tstyle, obj_plan, extras_g1d(m, ps, origin), 1e-12 * scale_of(X), desc0)


def run_kwforms_1d(k, v, mkgrid, P0, prof, tstyle, plan, mk_extra, ptol, desc0):
    """Grid1D reaches `transform` only under a maker (which projects it first): every keyword form under to_array / to_grid."""
    aa = k.aa
    centre, angle = prof
    for form, kw in KWFORMS:
        sfx = ":is_transformed=" + form
        F = frame_ref(P0, centre, angle, kw)
        tol = 1e-12 * max(scale_of(P0), scale_of(F))
        obj = mk_prof(k, "VerifC17ProfMid", prof, tstyle)
        for stack, dname, progs, want in plan:
            for prog in progs:
                desc = "%s %s.transform(%s) is_transformed=%s prof=%s tstyle=%s" % (desc0, dname, prog, form, prof, tstyle)
                out = call(obj, stack, prog, "np", mkgrid(), **kw)
                if check_kw_frame(v, "transform:Grid1D" + sfx, desc, obj, P0, F, kw, tol, ptol) is not None:
                    check_result(v, aa, dname, "Grid1D" + sfx, prog, desc, out, prog_ref(prog, F), want, mk_extra(dname), 2e-9 * scale_of(F))


# ---------------------------------------------------------------- (f) configuration histories


def cfg_histories(quick):
    """Sequences of indices into the (small, middle, large) minimum menu, one decorated call per entry."""
    if quick:
        return ["020", "202", "010", "121"]
    import itertools

    return ["".join(t) for L in (3, 4) for t in itertools.product("012", repeat=L) if len(set(t)) > 1]


def cfg_menus(seed, ci):
    """(small, middle, large) minima, ratios >= 1.7 so that the +-1e-6 shells of neighbouring minima do not overlap."""
    b = RMIN[CLS[ci]]
    r = dom.rng(seed, "c17-cfg", ci)
    lo = float(np.round(r.uniform(0.4, 0.9), 3))
    return [(b, 2.0 * b, 5.0 * b), (b / 6.0, b / 2.5, b), (lo, float(np.round(lo * r.uniform(1.8, 2.4), 3)), float(np.round(lo * r.uniform(4.5, 6.0), 3)))]


def cfg_points(seed, ci, menu):
    lo, mid, hi = menu
    radii = [0.5 * lo, lo * (1 - 1e-6), lo * (1 + 1e-6), math.sqrt(lo * mid), mid * (1 - 1e-6), mid * (1 + 1e-6), math.sqrt(mid * hi),
             hi * (1 - 1e-6), hi * (1 + 1e-6), 2.0 * hi]
    pts = np.array([(rr * sy, rr * cx) for (sy, cx) in ring_dirs(seed, 2)[:6] + ring_dirs(seed, 0)[:2] for rr in radii])
    return pts[dom.rng(seed, "c17-cfgperm", ci).permutation(len(pts))]


def radial_section():
    from autoconf import conf

    return conf.instance["grids"]["radial_minimum"]["radial_minimum"]


def run_cfg(k, v, ci, cont, hist, pi, seed):
    """One profile object, one decorated method, several calls; between the calls the configured radial minimum of the
    profile's class is changed. The reference reads the configuration that is current AT EACH CALL."""
    aa = k.aa
    cls = CLS[ci]
    prof = profiles(seed)[pi]
    centre, angle = prof
    sfx = ":config-history"
    want = {("irr", "A"): aa.ArrayIrregular, ("irr", "G"): aa.Grid2DIrregular, ("irr", "V"): aa.VectorYX2DIrregular,
            ("g2d", "A"): aa.Array2D, ("g2d", "G"): aa.Grid2D, ("g2d", "V"): aa.VectorYX2D}
    itype = {"nd": "ndarray", "irr": "Grid2DIrregular", "g2d": "Grid2D"}[cont]
    saved = radial_section()[cls]
    differed = moved = unmoved = 0
    try:
        for mi, menu in enumerate(cfg_menus(seed, ci)):
            Pf = cfg_points(seed, ci, menu)  # designed in the profile frame
            n = len(Pf)
            m = ring_mask(n)

            def wrap(Cw):
                if cont == "nd":
                    return Cw.copy()
                if cont == "irr":
                    return aa.Grid2DIrregular(values=Cw.copy())
                return aa.Grid2D(values=Cw.copy(), mask=aa.Mask2D(mask=m.copy(), pixel_scales=(0.7, 0.7), origin=(0.1, -0.2)))

            extra = None
            if cont == "g2d":
                def extra(o):
                    return None if same_mask2d(o.mask, m, (0.7, 0.7), (0.1, -0.2)) else "result is not on the input mask"
            S = t_inv(Pf, centre, angle)
            stacks = [("R", None, "id", Pf, False), ("TR", None, "id", S, True)]
            if cont != "nd":
                a = ("ATR", "to_array", "s"), ("GTR", "to_grid", "p"), ("VTR", "to_vector_yx", "p")
                stacks.append(a[(mi + pi) % 3] + (S, True))
                stacks.append((("AR", "to_array", "s"), ("GR", "to_grid", "p"), ("VR", "to_vector_yx", "p"))[(mi + pi + 1) % 3] + (Pf, False))
            for stack, dname, prog, Cin, transformed in stacks:
                for same_grid in (True, False):
                    obj = mk_prof(k, cls, prof, "wna" if cont != "nd" else "nd")
                    grid = wrap(Cin)
                    C = arr(grid)
                    Fr = t_ref(C, centre, angle) if transformed else C
                    prev = None
                    for step, h in enumerate(hist):
                        rmin = float(menu[int(h)])
                        radial_section()[cls] = rmin
                        if float(radial_section()[cls]) != rmin:
                            raise RuntimeError("harness: could not configure the radial minimum of %s" % cls)
                        if not same_grid and step:
                            grid = wrap(Cin)
                        desc = "cfg[%s %s prof=%s %s, %s grid] call %d of history %s with the configured minimum now %r" % (
                            cls, cont, prof, ".".join({"A": "to_array", "G": "to_grid", "V": "to_vector_yx", "T": "transform", "R": "relocate"}[c] for c in stack),
                            "same" if same_grid else "fresh", step + 1, [menu[int(x)] for x in hist[: step + 1]], rmin)
                        out = call(obj, stack, prog, "np", grid)
                        fs = f_seen(obj)
                        res = check_reloc(v, desc, fs[0][1] if len(fs) == 1 else None, Fr, rmin, sfx)
                        if res is None:
                            continue
                        if dname is not None:
                            check_stack_output(v, aa, dname, itype + sfx, prog, desc, out, res[0], res[1], want[(cont, stack[0])], extra)
                        if same_grid:
                            v.ok(dom.exact(arr(grid), C), "relocate_to_radial_minimum:input-mutated" + sfx, "%s: caller's grid was modified" % desc)
                        _, _, _, inside, outside = reloc_classes(Fr, rmin)
                        moved, unmoved = max(moved, int(inside.sum())), max(unmoved, int(outside.sum()))
                        if prev is not None and (prev != inside).any():
                            differed += 1
                        prev = inside
    finally:
        radial_section()[cls] = saved
    v.nontrivial = differed >= 1 and moved >= 1 and unmoved >= 1
    v.outcome = "cfg:%s:%s:%s" % (cls, cont, "changed" if differed else "constant")


# ---------------------------------------------------------------- (g) instances of SUBCLASSES of the dispatched grid classes

# The statement is about "a masked uniform grid", "an irregular grid", "a 1D grid": an instance of a subclass of Grid2D /
# Grid2DIrregular / Grid1D IS such a grid (the library itself hands out Grid2DIrregularUniform, a subclass of
# Grid2DIrregular, from three factory methods; downstream projects subclass the grids). The result must be the uniform /
# irregular / 1D counterpart container (a subclass of it is accepted), on the input's mask / coordinates, entry k =
# f(coordinate k), for every maker alone and stacked with transform / relocate / project_grid and every return form.
SUB = ":subclass"
SUB_IRR = ("IU", "IU.grid_from", "IU.upscale1", "IU.upscale2", "IU.deflection", "UserIU", "UserIrr", "UserIrr2")
SUB_2D = ("UserGrid2D", "UserGrid2D2")
SUB_1D = ("UserGrid1D", "UserGrid1D2")
IU_SHAPE, IU_PS = (5, 7), (1.0, 0.5)
MAKER_NAME = {"A": "to_array", "G": "to_grid", "V": "to_vector_yx", "T": "transform", "R": "relocate", "P": "project_grid"}


def stack_name(stack):
    return ".".join(MAKER_NAME[c] for c in stack)


def sub_irr_grid(k, variant, pts, seed):
    """(grid, built directly from `pts`?) - the library's Grid2DIrregularUniform, built directly and through each of its
    factory methods, and user subclasses of Grid2DIrregular / Grid2DIrregularUniform."""
    aa = k.aa
    IU = aa.Grid2DIrregularUniform
    if variant == "IU":
        return IU(values=pts.copy(), shape_native=IU_SHAPE, pixel_scales=IU_PS), True
    if variant == "UserIU":
        return k.sub["UserIU"](values=pts.copy(), shape_native=IU_SHAPE, pixel_scales=IU_PS), True
    if variant in ("UserIrr", "UserIrr2"):
        return k.sub[variant](values=pts.copy()), True
    if variant == "IU.grid_from":
        parent = IU(values=irregular_menu(seed, 2)[:2].copy(), shape_native=IU_SHAPE, pixel_scales=IU_PS)
        return parent.grid_from(pts.copy()), True
    if variant in ("IU.upscale1", "IU.upscale2"):
        # every sparse coordinate becomes upscale_factor**2 coordinates; the grid's own coordinates are what the caller sees
        sparse = pts[: max(1, (len(pts) + 1) // 2)] if variant.endswith("2") else pts
        return IU.from_grid_sparse_uniform_upscale(grid_sparse_uniform=sparse.copy(), upscale_factor=int(variant[-1]), pixel_scales=IU_PS), False
    if variant == "IU.deflection":
        d = np.round(dom.rng(seed, "c17-sub-defl").uniform(-1.0, 1.0, pts.shape), 3)
        parent = IU(values=pts + d, shape_native=IU_SHAPE, pixel_scales=IU_PS)
        return parent.grid_2d_via_deflection_grid_from(deflection_grid=d), False
    raise ValueError(variant)


def check_stack_result(v, aa, dname, itype, prog, desc, out, exp, chk, want, extra, loose):
    """Output of <maker> . [transform .] relocate for every return form: single results and lists element by element."""
    kind, idxs, is_list = PROGS[prog]
    if not is_list:
        if isinstance(out, list):
            v.ok(False, "%s:%s" % (dname, itype), "%s: non-list result returned as list" % desc)
            return
        check_stack_output(v, aa, dname, itype, prog, desc, out, exp, chk, want, extra, loose)
        return
    fid = "list-wrapping:%s" % dname
    if not isinstance(out, list) or len(out) != len(idxs):
        v.ok(False, fid, lambda: "%s: list of %d results returned as %s%s"
             % (desc, len(idxs), type(out).__name__, (" of length %d" % len(out)) if isinstance(out, list) else ""))
        return
    v.ok(True, fid)
    for j, (o, r) in enumerate(zip(out, prog_ref(prog, exp))):
        check_stack_output(v, aa, dname, itype, prog, "%s[element %d]" % (desc, j), o, exp, chk, want, extra, loose, fid=fid, ref=r)


def sub_makers(types, vector=True):
    plan = [("A", "to_array", S_PROGS, types[0]), ("G", "to_grid", P_PROGS, types[1])]
    if vector:
        plan.append(("V", "to_vector_yx", P_PROGS, types[2]))
    return plan


def run_sub_stacks(k, v, itype, grid, C, prof, types, mk_extra, desc0):
    """Every maker stacked with transform, with relocate and with transform . relocate, every return form, on a grid whose
    coordinates (as the caller sees them) are C."""
    aa = k.aa
    centre, angle = prof
    TC = t_ref(C, centre, angle)
    sc = scale_of(C)
    makers = sub_makers(types)
    moved = 0
    for tstyle in ("nd", "wna", "tg"):
        obj = mk_prof(k, "VerifC17ProfMid", prof, tstyle)
        for mk_, dname, progs, want in makers:
            for prog in progs:
                desc = "%s %s.transform(%s) prof=%s tstyle=%s" % (desc0, dname, prog, prof, tstyle)
                out = call(obj, mk_ + "T", prog, "np", grid)
                if check_transform_seen(v, itype, desc, obj, C, TC, 1e-12 * sc):
                    check_result(v, aa, dname, itype, prog, desc, out, prog_ref(prog, TC), want, mk_extra(dname), 2e-9 * scale_of(TC), loose=True)
    for cls in ("VerifC17ProfMid", "VerifC17ProfBig"):
        rmin = RMIN[cls]
        obj = mk_prof(k, cls, prof, "wna")
        for mk_, dname, progs, want in makers:
            for stack, F in ((mk_ + "R", C), (mk_ + "TR", TC)):
                for prog in progs:
                    desc = "%s %s(%s, %s) prof=%s" % (desc0, stack_name(stack), prog, cls, prof)
                    out = call(obj, stack, prog, "np", grid)
                    fs = f_seen(obj)
                    res = check_reloc(v, desc, fs[0][1] if len(fs) == 1 else None, F, rmin, SUB)
                    if res is not None:
                        moved += int(((res[0] != F).any(axis=1) & res[1]).sum())
                        check_stack_result(v, aa, dname, itype, prog, desc, out, res[0], res[1], want, mk_extra(dname), True)
    return moved


def extras_irr_sub(aa, n, C):
    def mk_extra(dname, full=True):
        def extra(out):
            if len(out) != n:
                return "result has %d entries for %d coordinates" % (len(out), n)
            if dname == "to_vector_yx" and not (isinstance(out.grid, aa.Grid2DIrregular) and dom.exact(arr(out.grid), C)):
                return "vector field is not attached to the input coordinates"
            return None

        return extra

    return mk_extra


def extras_g2d_sub(aa, m, ps, origin, C):
    def mk_extra(dname, full=True):
        def extra(out):
            if not same_mask2d(out.mask, m, ps, origin):
                return "result is not on the input mask: %s ps=%s origin=%s" % (np.array(out.mask).tolist(), out.mask.pixel_scales, out.mask.origin)
            if full and not dom.exact(arr(out.native), scatter2d(m, arr(out.slim))):
                return "native form is not the scatter of the slim entries onto the unmasked pixels: %s" % arr(out.native).tolist()
            if dname == "to_vector_yx" and not (isinstance(out.grid, aa.Grid2D) and dom.exact(arr(out.grid), C)):
                return "vector field is not attached to the input grid"
            return None

        return extra

    return mk_extra


def run_sub_irr(k, v, variant, menu, n, pi, seed):
    aa = k.aa
    pts = irregular_menu(seed, menu)[:n].astype(float)
    profs = profiles(seed)
    prof = profs[pi]
    grid, direct = sub_irr_grid(k, variant, pts, seed)
    base = aa.Grid2DIrregular
    itype = "Grid2DIrregular" + SUB
    if not (isinstance(grid, base) and type(grid) is not base and arr(grid).ndim == 2 and arr(grid).shape[1] == 2 and len(grid) >= 1):
        # what the constructors / factories hand out is not C17's business: only genuine subclass instances are inputs here
        v.ok(not direct, "input-grid:" + itype, "%s built from %s is %s %s" % (variant, pts.tolist(), type(grid).__name__, arr(grid).tolist()))
        v.outcome = "sub:irr:%s:not-a-subclass-instance" % variant
        return
    C = arr(grid)  # coordinate k of the input, as the caller sees it
    nn = len(C)
    desc0 = "%s[%s menu %d n=%d: %s]" % (type(grid).__name__, variant, menu, n, C.tolist())
    if direct:
        v.ok(dom.exact(C, pts), "input-grid:" + itype, "%s does not hold its coordinates %s" % (desc0, pts.tolist()))
    v.nontrivial = nn >= 2
    types = (aa.ArrayIrregular, aa.Grid2DIrregular, aa.VectorYX2DIrregular)
    mk_extra = extras_irr_sub(aa, nn, C)
    # every maker alone, every return form (exact: no arithmetic between the function and the container)
    run_makers(k, v, itype, grid, C, mk_extra, types, desc0, 0.0, loose=True)
    # project_grid alone and over transform: an irregular grid is evaluated as it is (one entry per coordinate)
    for pr in (prof, profs[3], profs[4]):
        obj = mk_prof(k, "VerifC17ProfMid", pr)
        for prog, want in (("s", aa.ArrayIrregular), ("p", aa.Grid2DIrregular)):
            desc = "%s project_grid(%s) prof=%s" % (desc0, prog, pr)
            out = call(obj, "P", prog, "np", grid)
            check_seen_once(v, "project_grid:" + itype, desc, obj, C, 0.0)
            check_container(v, aa, "project_grid:" + itype, desc, out, prog_ref(prog, C), want, mk_extra("project_grid"), 0.0, loose=True)
    TC = t_ref(C, prof[0], prof[1])
    obj = mk_prof(k, "VerifC17ProfMid", prof, "wna")
    for prog, want in (("s", aa.ArrayIrregular), ("p", aa.Grid2DIrregular)):
        desc = "%s project_grid.transform(%s) prof=%s" % (desc0, prog, prof)
        out = call(obj, "PT", prog, "np", grid)
        if check_transform_seen(v, itype, desc, obj, C, TC, 1e-12 * scale_of(C)):
            check_container(v, aa, "project_grid:" + itype, desc, out, prog_ref(prog, TC), want, mk_extra("project_grid"), 2e-9 * scale_of(TC), loose=True)
    moved = run_sub_stacks(k, v, itype, grid, C, prof, types, mk_extra, desc0)
    v.ok(dom.exact(arr(grid), C), "input-grid:" + itype, "%s: caller's grid was modified" % desc0)
    v.outcome = "sub:irr:%s:n%d:moved%s" % (variant, min(nn, 3), "0" if moved == 0 else "+")


def run_sub_g2d(k, v, variant, h, w, bits, gi, seed):
    aa = k.aa
    gcls = k.sub[variant]
    m = dom.mask_from_bits(h, w, bits)
    ps, origin = geoms2d(seed)[gi]
    mask = aa.Mask2D(mask=m.copy(), pixel_scales=ps, origin=origin)
    n = int((~m).sum())
    v.nontrivial = n >= 2 and bool(m.any())
    profs = profiles(seed)
    itype = "Grid2D" + SUB
    C_uni = arr(aa.Grid2D.from_mask(mask=mask))
    C_cus = C_uni + dom.rng(seed, "c17-subjit", h, w, bits, gi).uniform(-0.4, 0.4, (n, 2)) * np.array(ps)
    types = (aa.Array2D, aa.Grid2D, aa.VectorYX2D)
    moved = 0
    for q, (vname, C0) in enumerate((("uniform", C_uni), ("custom", C_cus))):
        grid = gcls(values=C0.copy(), mask=mask)
        desc0 = "%s[%s %dx%d bits=%d ps=%s origin=%s]" % (gcls.__name__, vname, h, w, bits, ps, origin)
        if not (type(grid) is gcls and dom.exact(arr(grid), C0)):
            v.ok(False, "input-grid:" + itype, "%s is %s %s" % (desc0, type(grid).__name__, arr(grid).tolist()))
            continue
        C = arr(grid)
        mk_extra = extras_g2d_sub(aa, m, ps, origin, C)
        run_makers(k, v, itype, grid, C, mk_extra, types, desc0, 0.0, loose=True)
        moved += run_sub_stacks(k, v, itype, grid, C, profs[1 + (bits + gi + q) % 2], types, mk_extra, desc0)
        if vname == "uniform":
            # project_grid depends on the geometry of the mask only
            run_project_2d(k, v, grid, m, ps, origin, profs, desc0, fid="project_grid:" + itype, loose=True)
        v.ok(dom.exact(arr(grid), C), "input-grid:" + itype, "%s: caller's grid was modified" % desc0)
    v.outcome = "sub:g2d:%s:n%d:moved%s" % (variant, min(n, 4), "0" if moved == 0 else "+")


def run_sub_g1d(k, v, variant, L, bits, gi, seed):
    aa = k.aa
    gcls = k.sub[variant]
    m = dom.mask_from_bits(1, L, bits)[0]
    ps, origin = geoms1d(seed)[gi]
    mask = aa.Mask1D(mask=m.copy(), pixel_scales=(ps,), origin=(origin,))
    n = int((~m).sum())
    profs = profiles(seed)
    itype = "Grid1D" + SUB
    v.nontrivial = n >= 2 and bool(m.any())
    v.outcome = "sub:g1d:%s:n%d:%s" % (variant, min(n, 3), "masked" if m.any() else "full")
    xs = np.round(dom.rng(seed, "c17-sub1d", L, bits, gi).uniform(-3.0, 3.0, n), 4)
    if n >= 3:
        xs[2] = xs[0]  # a repeated coordinate
    mk_extra = extras_g1d(m, ps, origin)
    types = (aa.Array1D, aa.Grid2D, None)
    makers = sub_makers(types, vector=False)  # to_vector_yx on 1D grids is documented as unsupported
    for vname, X0 in (("uniform", arr(aa.Grid1D.from_mask(mask=mask).slim)), ("custom", xs)):
        grid = gcls(values=X0.copy(), mask=mask)
        desc0 = "%s[%s L=%d bits=%d ps=%s origin=%s x=%s]" % (gcls.__name__, vname, L, bits, ps, origin, X0.tolist())
        if not (type(grid) is gcls and dom.exact(arr(grid.slim), X0)):
            v.ok(False, "input-grid:" + itype, "%s is %s %s" % (desc0, type(grid).__name__, arr(grid).tolist()))
            continue
        X = arr(grid.slim)
        sc = scale_of(X)
        ctol = 1e-12 * sc
        P0 = np.stack([np.zeros(n), X], -1)  # the documented projection at angle 0: (0, x_k)
        run_makers(k, v, itype, grid, P0, mk_extra, types, desc0, 2e-9 * sc, vector=False, loose=True)
        obj = mk_prof(k, "VerifC17ProfMid", profs[0])
        call(obj, "A", "s", "np", grid)
        check_seen_once(v, "to_array:" + itype, desc0 + " to_array projected line", obj, P0, ctol)
        # project_grid: line rotated clockwise by (angle + 90) about the origin
        for prof in profs:
            _, A = prof_centre_angle(prof)
            obj = mk_prof(k, "VerifC17ProfMid", prof)
            ey, ex = rot_cw(np.zeros(n), X, A)
            desc = "%s project_grid prof=%s" % (desc0, prof)
            out = call(obj, "P", "s", "np", grid)
            got = check_seen_once(v, "project_grid:" + itype, desc, obj, np.stack([ey, ex], -1), ctol)
            if got is not None:
                ok = type_ok(out, aa.Array1D, True) and near(arr(out), prog_ref("s", got), 0.0)
                v.ok(ok, "project_grid:" + itype, lambda: "%s: result %s %s is not the Array1D of f along the projected line" % (desc, type(out).__name__, arr(out).tolist()))
        # transform / relocation under the makers: evaluated on T(projected line), every return form
        for pi in (1, 2):
            prof = profs[pi]
            TC = t_ref(P0, prof[0], prof[1])
            for tstyle in ("nd", "tg"):
                obj = mk_prof(k, "VerifC17ProfMid", prof, tstyle)
                for mk_, dname, progs, want in makers:
                    for prog in progs:
                        desc = "%s %s.transform(%s) prof=%s tstyle=%s" % (desc0, dname, prog, prof, tstyle)
                        out = call(obj, mk_ + "T", prog, "np", grid)
                        if check_transform_seen(v, itype, desc, obj, P0, TC, ctol):
                            check_result(v, aa, dname, itype, prog, desc, out, prog_ref(prog, TC), want, mk_extra(dname), 2e-9 * scale_of(TC), loose=True)
        for cls in ("VerifC17ProfMid", "VerifC17ProfBig"):
            rmin = RMIN[cls]
            for pi in (0, 1):
                prof = profs[pi]
                obj = mk_prof(k, cls, prof, "wna")
                for mk_, dname, progs, want in makers:
                    for prog in progs:
                        desc = "%s %s.transform.relocate(%s, %s) prof=%s" % (desc0, dname, prog, cls, prof)
                        out = call(obj, mk_ + "TR", prog, "np", grid)
                        fs = f_seen(obj)
                        if len(fs) != 1:
                            v.ok(False, "relocate_to_radial_minimum:moved" + SUB, "%s: function called %d times" % (desc, len(fs)))
                            continue
                        ts = [s_ for s_ in obj.seen if s_[0] == "T"]
                        # the relocation acts on the grid `transform` produced (taken from the trace: it carries the ~1e-16
                        # rounding of the projection, which matters next to r == 0)
                        TC = t_ref(ts[0][1], prof[0], prof[1]) if len(ts) == 1 else t_ref(P0, prof[0], prof[1])
                        res = check_reloc(v, desc, fs[0][1], TC, rmin, SUB)
                        if res is not None:
                            check_stack_result(v, aa, dname, itype, prog, desc, out, res[0], res[1], want, mk_extra(dname), True)
        v.ok(dom.exact(arr(grid.slim), X), "input-grid:" + itype, "%s: caller's grid was modified" % desc0)
