"""C06 - mapping matrices conserve flux and encode the claimed interpolation (rectangular, Delaunay)."""
import itertools

import numpy as np

from mc import dom
from mc.core import V
from mc.ref import delaunay as rdel
from mc.ref import rectangular as rrect

ID = "C06"
ENGINE = "scope"
CHUNK = 48

RULE = (
    "a case = one real Mapper: (mask, per-pixel sub-size map, source-plane menu, mesh). Three completely enumerated "
    "blocks: P ('plumbing') = every mask of the tier's mask scope x EVERY sub-size map of its menu (uniform 1..4 via the "
    "int API, ascending and descending cyclic 1..4 patterns, the ascending pattern stored with float dtype as the library's "
    "own from_radial_bins/from_adapt constructors store it, every map in {1,2,3}^n for small n) x one rectangular and one "
    "Delaunay geometry taken cyclically from the 44 geometries (3i+7j mod 20, 5i+7j mod 24 of mask index i and "
    "sub-map index j, so every sub-map index meets every geometry); G ('geometry') = every one of the 44 geometries "
    "(4 source-plane menus x (5 rectangular shapes + 6 Delaunay vertex menus)) x every mask on the tier's G frames x "
    "sub-size maps {uniform 2, cyclic 1..4}; N = rectangular neighbour tables for every shape in a square range, on a "
    "bare mesh object in every read order of its two derived tables (neighbours alone; edge_pixel_list then neighbours; "
    "neighbours then edge_pixel_list; both read again at the end); H ('histories') = read-order histories on ONE mapper "
    "object: for every mesh geometry (5 rectangular shapes, 6 Delaunay vertex menus) every ordered d-tuple of distinct "
    "reads out of the menu of 12 (rectangular) / 16 (Delaunay) public reads (neighbours+sizes, edge_pixel_list, "
    "pix_sub_weights, the three pix_*_for_sub_slim_index tables, mapping_matrix, unique_mappings, pixel_signals_from, "
    "sub_slim_indexes_for_pix_index(_arr), data_weight_total_for_pix_from, mapped_to_source_from, "
    "interpolated_array_from, a Constant regularization matrix; Delaunay also mesh.delaunay, mesh.voronoi, "
    "mesh.split_cross, pix_sub_weights_split_cross) is evaluated first on the pristine object, then the remaining reads "
    "in menu order (plus the whole menu reversed), and finally every observable of the property is read again; every "
    "observable is compared with the REFERENCE model each time it is read (never with an earlier read), the other "
    "reads are events whose values are not judged. (mask, sub-size map) and source-plane menu of an H case are taken "
    "cyclically from 3 plumbing cases x 4 source menus by the order index. "
    "The rectangular mesh is the library's own overlay_grid on the source-plane points, the Delaunay vertices are a "
    "menu in unit coordinates scaled to 1.2x the image frame. non-trivial = at least one image pixel is split over "
    ">= 2 source pixels (a row of the mapping matrix with >= 2 non-zero entries); for N: always"
)
ASSUMPTIONS = [
    "the mapping of one sub-pixel depends only on its own source-plane position and the mesh (the code has no "
    "cross-talk between sub-pixels except through the index tables), so the index plumbing (mask x sub-size map) and "
    "the geometry (source-plane menu x mesh) are enumerated as two blocks with cyclic pairing instead of the full "
    "product; every geometry still meets every mask of the G frames and every sub-map index of the P block",
    "source-plane points are kept >= 1e-6 from interior cell edges / triangle sides and from nearest-vertex ties, "
    "Delaunay vertex sets have collinearity margin > 1e-3 and empty-circumcircle margin > 1e-6 (deterministic re-draw of "
    "the seeded jitter otherwise), so no answer is decided by rounding; a single source-plane point (1 pixel, sub 1) is "
    "paired only with odd x odd rectangular shapes (on an even side it sits exactly on the central cell edge)",
    "the grouping 'sub-pixels of image pixel i' is the over-sampler's documented layout (contiguous blocks of sub_i^2 "
    "sub-pixels in slim order); the reference computes owner and 1/sub_i^2 itself and does not read over_sampler tables",
    "Voronoi natural-neighbour weights are out of scope (stated in the property; the C library is absent)",
    "read-order interference (one read damaging a cached table another read returns, or changing an input another read "
    "consumes) is a matter of which tables alias each other, not of the source-plane menu or the mask: the H block "
    "enumerates orders x mesh geometry completely and pairs the (mask, sub-size map, source menu) cyclically; an "
    "interference that needs three specific earlier reads is inside the thorough tier (d=3), one that needs four is not "
    "enumerated unless the menu order or its reverse happens to contain it",
    "edge pixels of a rectangular mesh = pixels with fewer than four 4-connected neighbours (the outer ring); the edge "
    "pixels of a triangulation (unbounded Voronoi cells) are not part of the property and are read as an event only",
]
BOUNDS = {
    "quick": "P: all masks with <= 9 cells (every shape) x sub-maps {1,2,3,4 uniform; cyclic up/down 1..4; cyclic up as float "
             "dtype; all of {1,2,3}^n for n<=3}; G: all masks on 3x3, 2x4, 4x2 frames x {sub 2, cyclic} x 44 geometries "
             "(source menus identity/shear/warp/magnify x rect 3x3,3x4,4x3,5x3,3x5 + Delaunay menus of 5..10 vertices); "
             "N: rect shapes 3..9 x 3..9 x 3 read orders of the bare mesh; H: 5 rect shapes x 133 orders (d=2 prefixes of 12 "
             "reads + reversed menu) + 6 Delaunay menus x 241 orders (d=2 prefixes of 16 reads + reversed menu)",
    "thorough": "P: all masks with <= 12 cells x sub-maps as quick but {1,2,3}^n for n<=4; G: all masks on 3x3, 2x4, 4x2, "
                "3x4, 4x3, 2x5, 5x2 frames x {sub 2, cyclic} x 44 geometries; N: rect shapes 3..14 x 3..14 x 3 read orders; "
                "H: as quick with d=3 prefixes (1321 orders per rect shape, 3361 per Delaunay menu)",
}

# ----------------------------------------------------------------------------- menus

PS = (0.8, 1.1)  # image pixel scales (y, x) - deliberately anisotropic
ORIGIN = (0.3, -0.2)  # image mask origin (y, x)
SRC_KINDS = ("identity", "shear", "warp", "magnify")
RECT_SHAPES = ((3, 3), (3, 4), (4, 3), (5, 3), (3, 5))
N_DEL_MENUS = 6
JITTER = 0.03  # amplitude of the seeded jitter of source-plane points
VJITTER = 0.12  # amplitude of the seeded jitter of Delaunay vertices (unit coordinates)
EDGE_MARGIN = 1e-6
COLLINEAR_MARGIN = 1e-3
COCIRCULAR_MARGIN = 1e-6

RECT_GEOS = [(s, "rect", list(sh)) for s in SRC_KINDS for sh in RECT_SHAPES]  # 20
DEL_GEOS = [(s, "del", k) for s in SRC_KINDS for k in range(N_DEL_MENUS)]  # 24


def sub_menu(n, tier):
    """Sub-size maps for a mask with n unmasked pixels: ints = uniform through the int API, lists = per-pixel map."""
    nmax = 3 if tier == "quick" else 4
    out = [1, 2, 3, 4]
    lists = []
    if n <= nmax:
        lists = [list(t) for t in itertools.product((1, 2, 3), repeat=n)]
    up = [(k % 4) + 1 for k in range(n)]
    down = [4 - (k % 4) for k in range(n)]
    for extra in (up, down):
        if extra not in lists:
            lists.append(extra)
    # the same per-pixel map stored as FLOATS: this is what the library's own constructors of per-pixel maps
    # (OverSamplingUniform.from_radial_bins / from_adaptive_scheme / from_adapt) hand to the over-sampler
    lists.append([float(x) for x in up])
    return out + lists


# ---- read-order histories (block H and the orders of block N)
#
# one read = one public derived table / query of the mapper (or of its mesh through the mapper).  Reads marked (*) are
# observables of the property and are compared with the reference model every time they are read; the others are
# consumers of the same cached tables (what a regularization scheme, an inversion with edge-pixel zeroing or a plotter
# evaluates) and act as events only - apart from exceptions nothing is demanded of their values.
#   nb (*)    mapper.neighbors (arr + sizes)                     edge (*)  mapper.edge_pixel_list
#   psw (*)   mapper.pix_sub_weights (mappings, sizes, weights)  trio (*)  pix_indexes/_sizes/_weights_for_sub_slim_index
#   M (*)     mapper.mapping_matrix                              um (*)    mapper.unique_mappings
#   sig       mapper.pixel_signals_from(1.0)                     inv       sub_slim_indexes_for_pix_index(_arr)
#   dwt       mapper.data_weight_total_for_pix_from()            m2s       mapper.mapped_to_source_from(array)
#   interp    mapper.interpolated_array_from(values, (4, 5))     reg       Constant regularization matrix of the mapper
#   tri / vor / split / pswx (Delaunay only): mesh.delaunay, mesh.voronoi, mesh.split_cross, pix_sub_weights_split_cross
H_READS_RECT = ("nb", "edge", "psw", "trio", "M", "um", "sig", "inv", "dwt", "m2s", "interp", "reg")
H_READS_DEL = H_READS_RECT + ("tri", "vor", "split", "pswx")
H_CHECKED = ("nb", "edge", "psw", "trio", "M", "um")
N_ORDERS = ("n", "en", "ne")  # bare mesh: neighbours alone (fresh), after / before edge_pixel_list; all re-read at the end
# (h, w, mask bits, sub-size map) used by the H block, paired cyclically with the orders
H_PLUMBING = (
    (2, 2, 0, [1, 2, 3, 4]),
    (3, 3, 0b000010001, 2),
    (1, 3, 0, [3.0, 1.0, 2.0]),
)


def h_orders(alpha, depth):
    """
    Every ordered `depth`-tuple of distinct reads as a prefix on the pristine object, followed by the remaining reads
    in menu order; plus the complete reverse of the menu.  With depth 2 every ordered pair (X read before Y) occurs
    with X as the very first read of the object, and every pair occurs in both relative orders.
    """
    alpha = list(alpha)
    for pre in itertools.permutations(alpha, depth):
        yield list(pre) + [a for a in alpha if a not in pre]
    yield alpha[::-1]


def g_frames(tier):
    if tier == "quick":
        return [(3, 3), (2, 4), (4, 2)]
    return [(3, 3), (2, 4), (4, 2), (3, 4), (4, 3), (2, 5), (5, 2)]


def _single_point_ok(n, sub, mkind, mparam):
    """A single source-plane point on an even-sided rectangular mesh is a structural tie: not enumerated."""
    if mkind != "rect":
        return True
    total = n * sub * sub if isinstance(sub, int) else sum(s * s for s in sub)
    if total > 1:
        return True
    return mparam[0] % 2 == 1 and mparam[1] % 2 == 1


def cases(tier, seed):
    seed = int(seed)
    # ---- N: rectangular neighbour tables
    top = 9 if tier == "quick" else 14
    for R in range(3, top + 1):
        for C in range(3, top + 1):
            for order in N_ORDERS:
                yield ["N", R, C, order]
    # ---- H: read-order histories on ONE mapper / mesh object
    depth = 2 if tier == "quick" else 3
    for mkind, geos, alpha in (("rect", [list(sh) for sh in RECT_SHAPES], H_READS_RECT),
                               ("del", list(range(N_DEL_MENUS)), H_READS_DEL)):
        for gi, mparam in enumerate(geos):
            for oi, order in enumerate(h_orders(alpha, depth)):
                h, w, bits, sub = H_PLUMBING[(oi + gi) % len(H_PLUMBING)]
                src = SRC_KINDS[(oi // len(H_PLUMBING) + gi) % len(SRC_KINDS)]
                yield ["H", h, w, bits, sub, src, mkind, mparam, order, seed]
    # ---- P: index plumbing, exhaustive in mask x sub-size map
    ncell = 9 if tier == "quick" else 12
    for i, (h, w, bits) in enumerate(dom.all_mask_cases(ncell)):
        n = h * w - bin(bits).count("1")
        for j, sub in enumerate(sub_menu(n, tier)):
            for geo in (RECT_GEOS[(3 * i + 7 * j) % len(RECT_GEOS)], DEL_GEOS[(5 * i + 7 * j) % len(DEL_GEOS)]):
                src, mkind, mparam = geo
                if _single_point_ok(n, sub, mkind, mparam):
                    yield ["P", h, w, bits, sub, src, mkind, mparam, seed]
    # ---- G: geometry, exhaustive in geometry x mask on the G frames
    for (h, w) in g_frames(tier):
        for bits in range(2 ** (h * w) - 1):
            n = h * w - bin(bits).count("1")
            subs = [2, [(k % 4) + 1 for k in range(n)]]
            for sub in subs:
                for (src, mkind, mparam) in RECT_GEOS + DEL_GEOS:
                    if _single_point_ok(n, sub, mkind, mparam):
                        yield ["G", h, w, bits, sub, src, mkind, mparam, seed]


# ----------------------------------------------------------------------------- case construction (harness side)


def image_points(m, subs):
    """
    Image-plane centres of all sub-pixels, pixel by pixel in slim (row-major) order, s_i^2 per pixel, and the owner
    (slim index) of each sub-pixel.  Computed here from the frame geometry, not read from the library.
    """
    H, W = m.shape
    pts, owner = [], []
    for i, (r, c) in enumerate(np.argwhere(~m)):
        s = subs[i]
        cy = ORIGIN[0] + ((H - 1) / 2.0 - r) * PS[0]
        cx = ORIGIN[1] + (c - (W - 1) / 2.0) * PS[1]
        for a in range(s):
            for b in range(s):
                pts.append((cy + PS[0] * (0.5 - (a + 0.5) / s), cx + PS[1] * ((b + 0.5) / s - 0.5)))
                owner.append(i)
    return np.array(pts, dtype=float).reshape(-1, 2), np.array(owner, dtype=int)


def distort(g, kind):
    y, x = g[:, 0], g[:, 1]
    if kind == "identity":
        return g.copy()
    if kind == "shear":
        return np.stack([y + 0.35 * x, x - 0.2 * y], axis=1)
    if kind == "warp":
        return np.stack([0.9 * y + 0.25 * x + 0.05 * x * x, 1.2 * x - 0.15 * y + 0.04 * y * y], axis=1)
    if kind == "magnify":
        return 2.5 * g
    raise ValueError(kind)


def unit_vertices(menu, r):
    """Delaunay vertex menus in unit coordinates (y, x) in about [-1, 1]^2, before jitter."""
    if menu == 0:  # square ring + centre (5)
        return np.array([[0.9, -0.9], [0.9, 0.9], [-0.9, 0.9], [-0.9, -0.9], [0.05, -0.1]])
    if menu == 1:  # 2x3 lattice (6)
        return np.array([[y, x] for y in (0.8, -0.8) for x in (-0.9, 0.0, 0.9)])
    if menu == 2:  # hexagon ring + centre (7)
        a = np.arange(6) * np.pi / 3.0 + 0.2
        return np.concatenate([np.stack([0.9 * np.sin(a), 0.9 * np.cos(a)], axis=1), [[0.0, 0.0]]])
    if menu == 3:  # seeded general position (8)
        return r.uniform(-1.0, 1.0, size=(8, 2))
    if menu == 4:  # 3x3 lattice (9)
        return np.array([[y, x] for y in (0.9, 0.0, -0.9) for x in (-0.9, 0.0, 0.9)])
    if menu == 5:  # two pentagon rings (10)
        a = np.arange(5) * 2 * np.pi / 5.0
        outer = np.stack([np.sin(a), np.cos(a)], axis=1)
        inner = 0.45 * np.stack([np.sin(a + np.pi / 5.0), np.cos(a + np.pi / 5.0)], axis=1)
        return np.concatenate([outer, inner])
    raise ValueError(menu)


def build_vertices(menu, h, w, seed):
    """Vertex set scaled to 1.2x the image frame, seeded jitter, re-drawn until in general position with margin."""
    r = dom.rng(seed, "c06-verts", menu, h, w)
    base = unit_vertices(menu, r)
    half = np.array([1.2 * h * PS[0] / 2.0, 1.2 * w * PS[1] / 2.0])
    for _ in range(200):
        u = base + VJITTER * r.uniform(-1, 1, size=base.shape)
        verts = np.array(ORIGIN) + u * half
        tris, mg = rdel.analyse(verts)
        if mg["collinear"] > COLLINEAR_MARGIN and mg["cocircular"] > COCIRCULAR_MARGIN:
            return verts, tris, mg
    raise RuntimeError("harness: no vertex set in general position after 200 draws")


def build_source_points(case, base, judge):
    """
    base + seeded jitter; points that `judge(points) -> bool mask of bad points` rejects (closer than the margin to a
    decision boundary) get a fresh jitter, deterministically, until none is rejected.
    """
    r = dom.rng(case[-1], "c06-src", case[1:-1])
    pts = base + JITTER * r.uniform(-1, 1, size=base.shape)
    for _ in range(200):
        bad = judge(pts)
        if not bad.any():
            return pts
        k = int(bad.sum())
        pts[bad] = base[bad] + JITTER * r.uniform(-1, 1, size=(k, 2))
    raise RuntimeError("harness: could not place source-plane points away from decision boundaries")


# ----------------------------------------------------------------------------- shared oracles


def check_neighbors(v, cls, nb, ref_adj, note=""):
    """Neighbour table (arr [P, max], -1 padded; sizes [P]) equals the reference adjacency and is symmetric."""
    arr = np.asarray(nb)
    sizes = np.asarray(nb.sizes)
    P = len(ref_adj)
    if not v.ok(arr.ndim == 2 and arr.shape[0] == P and sizes.shape == (P,), cls,
                lambda: "neighbour table shapes %s / %s for %d source pixels" % (arr.shape, sizes.shape, P)):
        return
    lib = []
    bad = None
    for p in range(P):
        k = int(sizes[p])
        row = [int(x) for x in arr[p, :k]] if 0 <= k <= arr.shape[1] else None
        lib.append(row)
        if bad is None and (row is None or len(set(row)) != len(row) or set(row) != ref_adj[p]):
            bad = "pixel %d: neighbours %s (size %d) expected %s" % (p, row, k, sorted(ref_adj[p]))
    v.ok(bad is None, cls, lambda: "neighbour list differs from mesh adjacency: " + bad + note)
    asym = None
    for p in range(P):
        for q in (lib[p] or []):
            if not (0 <= q < P) or lib[q] is None or p not in lib[q]:
                asym = "%d lists %d but not vice versa" % (p, q)
                break
        if asym:
            break
    v.ok(asym is None, cls, lambda: "neighbour lists not symmetric: " + asym + note)


def guarded(v, fn):
    """
    Evaluate one observable of the mapper; an exception is recorded with the runner's own class-id format
    (unexpected-exception:<Type>@<file:func> of the innermost library frame) and the remaining observables of the
    case are still checked, so two independent defects on one input class show up in one run.
    """
    import os
    import traceback

    try:
        return True, fn()
    except Exception as e:
        tb = traceback.extract_tb(e.__traceback__)
        where = ""
        for fr in reversed(tb):
            if "/autoarray/" in fr.filename:
                where = "%s:%s" % (os.path.basename(fr.filename), fr.name)
                break
        if not where:
            raise
        v.fail("unexpected-exception:%s@%s" % (type(e).__name__, where),
               "".join(traceback.format_exception_only(type(e), e)).strip()[:300] + " | "
               + " <- ".join("%s:%d" % (os.path.basename(f.filename), f.lineno) for f in reversed(tb[-4:])))
        return False, None


def accumulate(n, P, owner, subs, rows):
    """M[i, p] = sum over the sub-pixels s of pixel i of (1 / sub_i^2) * weight_s(p); rows[s] = iterable of (p, weight)."""
    M = np.zeros((n, P))
    for s, row in enumerate(rows):
        i = owner[s]
        f = 1.0 / float(subs[i] * subs[i])
        for p, wgt in row:
            M[i, p] += f * wgt
    return M


def check_matrix_laws(v, kind, mapper, n, P, owner, subs, lib_rows, psw_ok, Mref):
    """mapping matrix (accumulation, reference, row sums, sign) and its sparse unique-mapping encoding."""
    Macc = accumulate(n, P, owner, subs, lib_rows) if lib_rows is not None else None
    cls = kind + ":mapping_matrix"
    okM, M = guarded(v, lambda: np.array(mapper.mapping_matrix, dtype=float))
    if okM and v.ok(M.shape == (n, P), cls, lambda: "mapping_matrix shape %s expected %s" % (M.shape, (n, P))):
        if Macc is not None:
            v.ok(dom.close(M, Macc), cls,
                 lambda: "mapping_matrix != sum_sub (1/sub_i^2) * weight built from the mapper's own pix_sub_weights; subs=%s "
                         "maxdiff=%s rows lib=%s expected=%s" % (subs, dom.maxdiff(M, Macc), M.tolist()[:3], Macc.tolist()[:3]))
        if psw_ok:
            v.ok(dom.close(M, Mref), cls,
                 lambda: "mapping_matrix != reference interpolation matrix; maxdiff=%s" % dom.maxdiff(M, Mref))
        rs = M.sum(axis=1)
        v.ok(bool(np.all(np.abs(rs - 1.0) <= 1e-9)), kind + ":row-sum",
             lambda: "row sums %s (subs=%s)" % (rs.tolist(), subs))
        v.ok(bool(np.all(M >= -1e-12)), kind + ":nonneg", lambda: "min entry %s" % M.min())
    else:
        M = None

    # ---- sparse unique-mapping encoding used by the w-tilde formalism
    cls = kind + ":unique_mappings"
    okU, um = guarded(v, lambda: mapper.unique_mappings)
    if not okU:
        return M
    d2p = np.asarray(um.data_to_pix_unique)
    dw = np.asarray(um.data_weights, dtype=float)
    pl = np.asarray(um.pix_lengths)
    if not v.ok(d2p.ndim == 2 and d2p.shape == dw.shape and d2p.shape[0] == n and pl.shape == (n,), cls,
                lambda: "shapes data_to_pix_unique %s data_weights %s pix_lengths %s, n=%d" % (d2p.shape, dw.shape, pl.shape, n)):
        return M
    dense = np.zeros((n, P))
    struct = None
    if Macc is None:
        return M  # the per-sub-pixel weights themselves could not be observed; nothing to compare the encoding with
    distinct = [set() for _ in range(n)]
    for s, row in enumerate(lib_rows):
        for p, _w in row:
            distinct[owner[s]].add(p)
    for i in range(n):
        L = int(pl[i])
        if not (0 <= L <= d2p.shape[1]):
            struct = struct or "pixel %d: pix_lengths %d outside 0..%d" % (i, L, d2p.shape[1])
            continue
        ids = [int(x) for x in d2p[i, :L]]
        if len(set(ids)) != len(ids):
            struct = struct or "pixel %d: duplicate source pixel in %s" % (i, ids)
        if any(not (0 <= p < P) for p in ids):
            struct = struct or "pixel %d: source pixel index out of range in %s" % (i, ids)
            continue
        if L != len(distinct[i]):
            struct = struct or "pixel %d: pix_lengths %d but its sub-pixels map to %d distinct source pixels %s" % (
                i, L, len(distinct[i]), sorted(distinct[i]))
        for k, p in enumerate(ids):
            dense[i, p] += dw[i, k]
    v.ok(struct is None, cls, lambda: "unique mapping structure: " + struct)
    # compared with the matrix the statement defines from the mapper's own per-sub-pixel weights (Macc), so that a defect
    # of the dense accumulation alone is reported as <kind>:mapping_matrix and not also here
    v.ok(dom.close(dense, Macc), cls,
         lambda: "dense matrix rebuilt from unique_mappings != sum_sub (1/sub_i^2) * weight; subs=%s maxdiff=%s rebuilt=%s "
                 "expected=%s (vs mapper.mapping_matrix maxdiff=%s)"
                 % (subs, dom.maxdiff(dense, Macc), dense.tolist()[:3], Macc.tolist()[:3],
                    dom.maxdiff(dense, M) if M is not None else "n/a"))
    return M


def check_over_sampler(v, osr, owner, subs):
    """The two over-sampler tables the mapper consumes (localises a defect that is the over-sampler's, not the mapper's)."""
    try:
        sf = np.asarray(osr.slim_for_sub_slim)
    except Exception:
        return  # the mapper reads the same table: let the exception surface at mapper.mapping_matrix, the C06 observable
    v.ok(dom.exact(sf, owner), "over_sampler:slim_for_sub_slim", lambda: "got %s expected %s" % (sf.tolist(), owner.tolist()))
    fr = np.array(osr.sub_fraction, dtype=float)
    want = 1.0 / np.array(subs, dtype=float) ** 2
    v.ok(dom.close(fr, want, rtol=1e-14), "over_sampler:sub_fraction", lambda: "got %s expected %s" % (fr.tolist(), want.tolist()))


# ----------------------------------------------------------------------------- run


def run_case(case):
    import autoarray as aa

    v = V(ID)
    if case[0] == "N":
        run_rect_neighbors(aa, v, case)
        return v.result()
    order = None
    if case[0] == "H":
        _, h, w, bits, sub, src, mkind, mparam, order, seed = case
    else:
        _, h, w, bits, sub, src, mkind, mparam, seed = case
    m = dom.mask_from_bits(h, w, bits)
    n = int((~m).sum())
    subs = [int(sub)] * n if isinstance(sub, int) else [int(x) for x in sub]
    mask = aa.Mask2D(mask=m.copy(), pixel_scales=PS, origin=ORIGIN)
    if isinstance(sub, int):
        osr = aa.OverSamplingUniform(sub_size=int(sub)).over_sampler_from(mask=mask)  # uniform int API
    elif any(isinstance(x, float) for x in sub):
        # per-pixel map with float dtype, as produced by OverSamplingUniform.from_radial_bins / from_adapt
        osr = aa.OverSamplerUniform(mask=mask, sub_size=aa.Array2D(values=np.array(subs, dtype=float), mask=mask))
    else:
        osr = aa.OverSamplerUniform(mask=mask, sub_size=aa.Array2D(values=list(subs), mask=mask))  # per-pixel int map
    img, owner = image_points(m, subs)
    base = distort(img, src)
    check_over_sampler(v, osr, owner, subs)
    if order is not None:
        run_history(aa, v, case, mask, osr, n, subs, owner, base, mkind, mparam, h, w, seed, [str(x) for x in order])
    elif mkind == "rect":
        run_rect(aa, v, case, mask, osr, n, subs, owner, base, tuple(mparam))
    elif mkind == "del":
        run_delaunay(aa, v, case, mask, osr, n, subs, owner, base, int(mparam), h, w, seed)
    else:
        raise ValueError(mkind)
    return v.result()


def rect_edge_pixels(shape):
    """Edge pixels of the rectangular mesh: the pixels with fewer than four 4-connected neighbours (outer ring)."""
    return sorted(p for p, a in enumerate(rrect.adjacency(shape)) if len(a) < 4)


def check_edge_pixels(v, cls, lib, ref, note=""):
    got = [int(x) for x in lib]
    v.ok(sorted(got) == list(ref) and len(set(got)) == len(got), cls,
         lambda: "edge_pixel_list %s expected %s%s" % (got, list(ref), note))


def run_rect_neighbors(aa, v, case):
    _, R, C = case[:3]
    order = case[3] if len(case) > 3 else "n"
    grid = aa.Grid2DIrregular(values=[[1.0, -1.0], [-0.5, 2.0]])
    mesh = aa.Mesh2DRectangular.overlay_grid(shape_native=(R, C), grid=grid)
    v.ok(int(mesh.pixels) == R * C and tuple(mesh.shape_native) == (R, C), "rect:overlay-geometry",
         lambda: "pixels %s shape_native %s for %s" % (mesh.pixels, mesh.shape_native, (R, C)))
    ref_adj = rrect.adjacency((R, C))
    ref_edge = rect_edge_pixels((R, C))
    if order == "n":
        check_neighbors(v, "rect:neighbors", mesh.neighbors, ref_adj)
    else:
        # one bare mesh object, its two derived tables read in the given order and both read again at the end
        done = []
        for step in list(order) + ["n", "e"]:
            note = " [reads so far on this mesh object: %s]" % (" -> ".join(done) or "none")
            if step == "n":
                ok, nb = guarded(v, lambda: mesh.neighbors)
                if ok:
                    check_neighbors(v, "rect:neighbors:read-order", nb, ref_adj, note)
            else:
                ok, ep = guarded(v, lambda: mesh.edge_pixel_list)
                if ok:
                    check_edge_pixels(v, "rect:edge_pixel_list:read-order", ep, ref_edge, note)
            done.append("neighbors" if step == "n" else "edge_pixel_list")
    v.nontrivial = True
    v.outcome = "N:%s:rect:%s" % (order, "square" if R == C else ("tall" if R > C else "wide"))


def run_rect(aa, v, case, mask, osr, n, subs, owner, base, shape):
    R, C = shape
    P = R * C
    S = len(base)

    def judge(pts):
        if len(pts) == 1:
            return np.zeros(1, dtype=bool)  # single point: centre of the centre cell of an odd x odd mesh
        geom = rrect.overlay_geometry(pts, shape)
        return rrect.cells_of(pts, geom)[3] < EDGE_MARGIN

    pts = build_source_points(case, base, judge)
    sg = aa.Grid2DIrregular(values=pts.copy())
    mesh = aa.Mesh2DRectangular.overlay_grid(shape_native=shape, grid=sg)
    mapper = aa.Mapper(
        mapper_grids=aa.MapperGrids(mask=mask, source_plane_data_grid=sg, source_plane_mesh_grid=mesh),
        over_sampler=osr, regularization=None,
    )
    geom = rrect.overlay_geometry(pts, shape)
    row, col, ref_idx, dist, inside = rrect.cells_of(pts, geom)

    # ---- the overlaid mesh is the documented one (bounding box +- 1e-8, equal cells, row 0 at the top)
    scale = 1.0 + float(np.max(np.abs(pts)))
    lib_ps = np.array(mesh.pixel_scales, dtype=float)
    lib_or = np.array(mesh.origin, dtype=float)
    geo_ok = v.ok(
        tuple(int(x) for x in mesh.shape_native) == (R, C) and int(mesh.pixels) == P
        and dom.close(lib_ps, [geom["dy"], geom["dx"]], rtol=1e-9, atol=0.0)
        and dom.close(lib_or, geom["origin"], rtol=0.0, atol=1e-12 * scale),
        "rect:overlay-geometry",
        lambda: "shape %s pixel_scales %s origin %s expected %s %s %s" % (
            mesh.shape_native, lib_ps.tolist(), lib_or.tolist(), (R, C), (geom["dy"], geom["dx"]), geom["origin"]))
    centres = np.array(mesh, dtype=float)
    cen_ok = v.ok(centres.shape == (P, 2) and dom.close(centres, geom["centres"], rtol=0.0, atol=1e-11 * scale),
                  "rect:mesh-centres",
                  lambda: "pixel centres differ from the documented overlay: maxdiff %s; lib[0]=%s ref[0]=%s lib[-1]=%s ref[-1]=%s"
                          % (dom.maxdiff(centres, geom["centres"]), centres[0].tolist(), geom["centres"][0].tolist(),
                             centres[-1].tolist(), geom["centres"][-1].tolist()))

    # ---- pix_sub_weights: one cell per sub-pixel, weight 1
    okP, psw = guarded(v, lambda: mapper.pix_sub_weights)
    mp = np.asarray(psw.mappings) if okP else np.zeros((0, 0), dtype=int)
    sz = np.asarray(psw.sizes) if okP else np.zeros(0, dtype=int)
    wt = np.asarray(psw.weights, dtype=float) if okP else np.zeros((0, 0))
    st_ok = okP and v.ok(
        mp.shape == (S, 1) and sz.shape == (S,) and wt.shape == (S, 1) and bool(np.all(sz == 1)) and bool(np.all(wt == 1.0))
        and bool(np.all((mp >= 0) & (mp < P))) and np.issubdtype(mp.dtype, np.integer),
        "pix_sub_weights:rect",
        lambda: "mappings %s %s sizes %s weights %s (S=%d, P=%d): sizes=%s weights=%s mappings=%s" % (
            mp.shape, mp.dtype, sz.shape, wt.shape, S, P, sz.tolist()[:8], wt.ravel().tolist()[:8], mp.ravel().tolist()[:8]))
    psw_ok = False
    lib_rows = []
    if st_ok:
        lib_idx = mp[:, 0].astype(int)
        lib_rows = [[(int(lib_idx[s]), float(wt[s, 0]))] for s in range(S)]
        wrong = np.flatnonzero(lib_idx != ref_idx)
        psw_ok = v.ok(
            len(wrong) == 0, "rect:cell",
            lambda: "sub-pixel %d at (y,x)=%s mapped to cell %d=(row %d,col %d) but lies in cell %d=(row %d,col %d) of the %dx%d "
                    "overlay (y_edges=%s x_edges=%s, %d of %d points wrong)" % (
                        wrong[0], pts[wrong[0]].tolist(), lib_idx[wrong[0]], lib_idx[wrong[0]] // C, lib_idx[wrong[0]] % C,
                        ref_idx[wrong[0]], row[wrong[0]], col[wrong[0]], R, C, geom["y_edges"].tolist(),
                        geom["x_edges"].tolist(), len(wrong), S))
        if cen_ok and geo_ok:
            # containment stated with the mesh's own centres and pixel scales
            cy, cx = centres[lib_idx, 0], centres[lib_idx, 1]
            tol = 1e-9 * scale
            out = np.flatnonzero((np.abs(pts[:, 0] - cy) > lib_ps[0] / 2 + tol) | (np.abs(pts[:, 1] - cx) > lib_ps[1] / 2 + tol))
            v.ok(len(out) == 0, "rect:cell",
                 lambda: "sub-pixel %d at %s is not inside the cell it is mapped to (pixel %d, centre %s, scales %s)" % (
                     out[0], pts[out[0]].tolist(), lib_idx[out[0]], centres[lib_idx[out[0]]].tolist(), lib_ps.tolist()))
    v.ok(bool(inside.all()), "harness:points-inside-overlay")

    Mref = accumulate(n, P, owner, subs, [[(int(ref_idx[s]), 1.0)] for s in range(S)])
    check_matrix_laws(v, "rect", mapper, n, P, owner, subs, lib_rows if st_ok else None, psw_ok, Mref)
    check_neighbors(v, "rect:neighbors", mapper.neighbors, rrect.adjacency(shape))
    v.ok(mapper.neighbors is mesh.neighbors or dom.exact(np.asarray(mapper.neighbors), np.asarray(mesh.neighbors)),
         "rect:neighbors", "mapper.neighbors differs from source_plane_mesh_grid.neighbors")

    split = int(np.max(np.sum(Mref > 0, axis=1)))
    v.nontrivial = split >= 2
    hit = len(set(ref_idx.tolist()))
    v.outcome = "rect:%dx%d:hit%s:split%d" % (R, C, "1" if hit == 1 else ("2-4" if hit <= 4 else "5+"), min(split, 4))


def run_delaunay(aa, v, case, mask, osr, n, subs, owner, base, menu, h, w, seed):
    verts, tris, mg = build_vertices(menu, h, w, seed)
    P = len(verts)
    S = len(base)

    def judge(pts):
        return rdel.locate_many(verts, tris, pts)[2] < EDGE_MARGIN

    pts = build_source_points(case, base, judge)
    tri, ref_w, margin = rdel.locate_many(verts, tris, pts)
    # reference sanity (harness side): triangles tile the hull
    ta, ha = rdel.triangulation_area_check(verts, tris)
    v.ok(abs(ta - ha) <= 1e-9 * max(1.0, ha) and bool(np.all(tri >= -1)), "harness:reference-triangulation",
         lambda: "triangle area %s hull area %s" % (ta, ha))

    sg = aa.Grid2DIrregular(values=pts.copy())
    mesh = aa.Mesh2DDelaunay(values=aa.Grid2DIrregular(values=verts.copy()))
    mapper = aa.Mapper(
        mapper_grids=aa.MapperGrids(mask=mask, source_plane_data_grid=sg, source_plane_mesh_grid=mesh),
        over_sampler=osr, regularization=None,
    )
    v.ok(int(mapper.params) == P and dom.exact(np.array(mesh, dtype=float), verts), "delaunay:mesh-vertices",
         lambda: "params %s, vertices changed: %s" % (mapper.params, dom.maxdiff(np.array(mesh, dtype=float), verts)))

    okP, psw = guarded(v, lambda: mapper.pix_sub_weights)
    mp = np.asarray(psw.mappings) if okP else np.zeros((0, 0), dtype=int)
    sz = np.asarray(psw.sizes) if okP else np.zeros(0, dtype=int)
    wt = np.asarray(psw.weights, dtype=float) if okP else np.zeros((0, 0))
    st_ok = okP and v.ok(
        mp.shape == (S, 3) and sz.shape == (S,) and wt.shape == (S, 3) and np.issubdtype(mp.dtype, np.integer)
        and bool(np.all((sz == 1) | (sz == 3))),
        "pix_sub_weights:delaunay",
        lambda: "mappings %s %s sizes %s weights %s (S=%d): sizes=%s" % (mp.shape, mp.dtype, sz.shape, wt.shape, S, sz.tolist()[:10]))
    lib_rows = []
    psw_ok = False
    if st_ok:
        bad_struct = None
        for s in range(S):
            k = int(sz[s])
            ids = [int(x) for x in mp[s, :k]]
            ws = [float(x) for x in wt[s, :k]]
            lib_rows.append(list(zip(ids, ws)))
            if bad_struct is None and (any(not (0 <= p < P) for p in ids) or len(set(ids)) != k or min(ws) < 0.0
                                       or abs(sum(ws) - 1.0) > 1e-9):
                bad_struct = "sub-pixel %d: indices %s weights %s" % (s, ids, ws)
        st_ok = v.ok(bad_struct is None, "pix_sub_weights:delaunay",
                     lambda: "indices must be distinct valid vertices, weights >= 0 summing to 1: " + bad_struct)
    if st_ok:
        bad_simplex = bad_weight = bad_out = None
        n_in = n_out = 0
        for s in range(S):
            ids = [p for p, _ in lib_rows[s]]
            if tri[s] >= 0:
                n_in += 1
                if set(ids) != set(ref_w[s].keys()) or len(ids) != 3:
                    bad_simplex = bad_simplex or "sub-pixel %d at %s mapped to vertices %s but lies in Delaunay triangle %s (edge margin %.2e)" % (
                        s, pts[s].tolist(), ids, sorted(ref_w[s].keys()), margin[s])
                else:
                    for p, wgt in lib_rows[s]:
                        if abs(wgt - ref_w[s][p]) > 1e-9:
                            bad_weight = bad_weight or "sub-pixel %d at %s in triangle %s: weights %s expected barycentric %s" % (
                                s, pts[s].tolist(), ids, dict(lib_rows[s]), ref_w[s])
            else:
                n_out += 1
                (near, _one), = ref_w[s].items()
                if len(ids) != 1 or ids[0] != near or abs(lib_rows[s][0][1] - 1.0) > 1e-12:
                    bad_out = bad_out or "sub-pixel %d at %s is outside the hull: mapped to %s expected nearest vertex %d alone (margin %.2e)" % (
                        s, pts[s].tolist(), lib_rows[s], near, margin[s])
        ok1 = v.ok(bad_simplex is None, "delaunay:simplex", lambda: bad_simplex) if n_in else True
        ok2 = v.ok(bad_weight is None, "delaunay:weights", lambda: bad_weight) if n_in else True
        ok3 = v.ok(bad_out is None, "delaunay:outside-hull", lambda: bad_out) if n_out else True
        psw_ok = ok1 and ok2 and ok3

    Mref = accumulate(n, P, owner, subs, [list(ref_w[s].items()) for s in range(S)])
    check_matrix_laws(v, "delaunay", mapper, n, P, owner, subs, lib_rows if st_ok else None, psw_ok, Mref)
    ref_adj = rdel.adjacency_from_triangles(P, tris)
    check_neighbors(v, "delaunay:neighbors", mapper.neighbors, ref_adj)

    # ---- the same geometry at a coordinate scale of 1e-3 (barycentric weights and the triangulation are scale invariant), and a
    # mapper whose adaptive pixel signals are read BEFORE its mapping matrix (regularization schemes do that): same matrix
    def mk(scale, adapt):
        return aa.Mapper(
            mapper_grids=aa.MapperGrids(mask=mask, source_plane_data_grid=aa.Grid2DIrregular(values=pts.copy() * scale),
                                        source_plane_mesh_grid=aa.Mesh2DDelaunay(values=aa.Grid2DIrregular(values=verts.copy() * scale)),
                                        adapt_data=adapt),
            over_sampler=osr, regularization=None)

    adapt = aa.Array2D(values=0.3 + 0.7 * ((np.arange(n) * 5) % 7), mask=mask)
    okS, Ms = guarded(v, lambda: np.array(mk(1e-3, None).mapping_matrix, dtype=float))
    if okS:
        v.ok(Ms.shape == Mref.shape and dom.close(Ms, Mref, rtol=1e-7, atol=1e-9), "delaunay:weights:small-coordinate-scale",
             lambda: "source plane and vertices scaled by 1e-3: mapping matrix differs from the scale-invariant reference by %s" % dom.maxdiff(Ms, Mref))
    m3 = mk(1.0, adapt)
    okG, sig = guarded(v, lambda: np.array(m3.pixel_signals_from(signal_scale=1.0), dtype=float))
    okA, Ma = guarded(v, lambda: np.array(m3.mapping_matrix, dtype=float))
    if okA and psw_ok:
        v.ok(Ma.shape == Mref.shape and dom.close(Ma, Mref), "delaunay:mapping_matrix:after-pixel_signals_from",
             lambda: "mapping matrix read after mapper.pixel_signals_from(): maxdiff to reference %s, row sums %s" % (dom.maxdiff(Ma, Mref), Ma.sum(axis=1).tolist()[:6]))

    n_in = int(np.sum(tri >= 0))
    split = int(np.max(np.sum(Mref > 0, axis=1)))
    v.nontrivial = split >= 2

    def bucket(k):
        return "0" if k == 0 else ("some" if k < S else "all")

    v.outcome = "del:m%d:in-%s:split%d" % (menu, bucket(n_in), min(split, 4))


# ----------------------------------------------------------------------------- block H: read-order histories on one object


def _psw_rows(mp, sz, wt, S):
    """Per sub-pixel {source pixel: weight} from a (mappings, sizes, weights) triple, or a string describing a malformed one."""
    mp, sz, wt = np.asarray(mp), np.asarray(sz), np.asarray(wt, dtype=float)
    if not (mp.ndim == 2 and mp.shape[0] == S and wt.shape == mp.shape and sz.shape == (S,)):
        return "shapes mappings %s sizes %s weights %s for %d sub-pixels" % (mp.shape, sz.shape, wt.shape, S)
    rows = []
    for s in range(S):
        k = int(sz[s])
        if not (1 <= k <= mp.shape[1]):
            return "sub-pixel %d: size %d outside 1..%d" % (s, k, mp.shape[1])
        ids = [int(x) for x in mp[s, :k]]
        if len(set(ids)) != k:
            return "sub-pixel %d: duplicate source pixel in %s" % (s, ids)
        rows.append(dict(zip(ids, (float(x) for x in wt[s, :k]))))
    return rows


def _rows_differ(rows, ref_rows):
    for s, (a, b) in enumerate(zip(rows, ref_rows)):
        if set(a) != set(b) or any(abs(a[p] - b[p]) > 1e-9 for p in b):
            return "sub-pixel %d: {source pixel: weight} = %s expected %s" % (s, a, b)
    return None


def run_history(aa, v, case, mask, osr, n, subs, owner, base, mkind, mparam, h, w, seed, order):
    """
    ONE mapper object; the reads of `order` are evaluated on it one after the other and every observable of the
    property is compared with the reference model (never with an earlier read) at the moment it is read; after the
    last read every observable is read once more, so a table that a LATER read damaged in the cache is seen as well.
    """
    S = len(base)
    adapt = aa.Array2D(values=0.3 + 0.7 * ((np.arange(n) * 5) % 7), mask=mask)
    if mkind == "rect":
        kind = "rect"
        shape = tuple(int(x) for x in mparam)
        P = shape[0] * shape[1]

        def judge(pts):
            geom = rrect.overlay_geometry(pts, shape)
            return rrect.cells_of(pts, geom)[3] < EDGE_MARGIN

        pts = build_source_points(case, base, judge)
        ref_idx = rrect.cells_of(pts, rrect.overlay_geometry(pts, shape))[2]
        ref_rows = [{int(ref_idx[s]): 1.0} for s in range(S)]
        ref_adj = rrect.adjacency(shape)
        ref_edge = rect_edge_pixels(shape)
        sg = aa.Grid2DIrregular(values=pts.copy())
        mesh = aa.Mesh2DRectangular.overlay_grid(shape_native=shape, grid=sg)
    else:
        kind = "delaunay"
        verts, tris, _mg = build_vertices(int(mparam), h, w, seed)
        P = len(verts)

        def judge(pts):
            return rdel.locate_many(verts, tris, pts)[2] < EDGE_MARGIN

        pts = build_source_points(case, base, judge)
        _tri, ref_w, _margin = rdel.locate_many(verts, tris, pts)
        ref_rows = [dict(ref_w[s]) for s in range(S)]
        ref_adj = rdel.adjacency_from_triangles(P, tris)
        ref_edge = None  # the edge pixels of a triangulation (unbounded Voronoi cells) are not part of the property: event only
        sg = aa.Grid2DIrregular(values=pts.copy())
        mesh = aa.Mesh2DDelaunay(values=aa.Grid2DIrregular(values=verts.copy()))
    mapper = aa.Mapper(
        mapper_grids=aa.MapperGrids(mask=mask, source_plane_data_grid=sg, source_plane_mesh_grid=mesh, adapt_data=adapt),
        over_sampler=osr, regularization=None,
    )
    Mref = accumulate(n, P, owner, subs, [list(r.items()) for r in ref_rows])
    values = 1.0 + ((np.arange(P) * 3) % 5).astype(float)
    done = []

    def note():
        return " [reads so far on this mapper object: %s]" % (" -> ".join(done) or "none")

    def cls(name):
        return "%s:%s:read-order" % (kind, name)

    def rd_nb():
        check_neighbors(v, cls("neighbors"), mapper.neighbors, ref_adj, note())

    def rd_edge():
        ep = mapper.edge_pixel_list
        if ref_edge is not None:
            check_edge_pixels(v, cls("edge_pixel_list"), ep, ref_edge, note())

    def rows_check(name, mp, sz, wt):
        rows = _psw_rows(mp, sz, wt, S)
        if v.ok(not isinstance(rows, str), cls(name), lambda: "%s%s" % (rows, note())):
            bad = _rows_differ(rows, ref_rows)
            v.ok(bad is None, cls(name), lambda: "interpolation weights differ from the reference: %s%s" % (bad, note()))

    def rd_psw():
        psw = mapper.pix_sub_weights
        rows_check("pix_sub_weights", psw.mappings, psw.sizes, psw.weights)

    def rd_trio():
        rows_check("pix_weights_for_sub_slim_index", mapper.pix_indexes_for_sub_slim_index,
                   mapper.pix_sizes_for_sub_slim_index, mapper.pix_weights_for_sub_slim_index)

    def rd_M():
        M = np.array(mapper.mapping_matrix, dtype=float)
        if v.ok(M.shape == (n, P), cls("mapping_matrix"), lambda: "shape %s expected %s%s" % (M.shape, (n, P), note())):
            v.ok(dom.close(M, Mref), cls("mapping_matrix"),
                 lambda: "mapping_matrix != reference interpolation matrix; maxdiff=%s row sums %s%s" % (
                     dom.maxdiff(M, Mref), M.sum(axis=1).tolist()[:6], note()))
            v.ok(bool(np.all(np.abs(M.sum(axis=1) - 1.0) <= 1e-9)) and bool(np.all(M >= -1e-12)), cls("mapping_matrix"),
                 lambda: "rows must be non-negative and sum to one: row sums %s min %s%s" % (M.sum(axis=1).tolist()[:6], M.min(), note()))

    def rd_um():
        um = mapper.unique_mappings
        d2p = np.asarray(um.data_to_pix_unique)
        dw = np.asarray(um.data_weights, dtype=float)
        pl = np.asarray(um.pix_lengths)
        if not v.ok(d2p.ndim == 2 and d2p.shape == dw.shape and d2p.shape[0] == n and pl.shape == (n,), cls("unique_mappings"),
                    lambda: "shapes %s %s %s n=%d%s" % (d2p.shape, dw.shape, pl.shape, n, note())):
            return
        dense = np.zeros((n, P))
        struct = None
        for i in range(n):
            L = int(pl[i])
            ids = [int(x) for x in d2p[i, :L]] if 0 <= L <= d2p.shape[1] else None
            if ids is None or len(set(ids)) != len(ids) or any(not (0 <= p < P) for p in ids) or L != int(np.sum(Mref[i] > 0)):
                struct = struct or "pixel %d: pix_lengths %d, source pixels %s, reference row has %d non-zero entries" % (
                    i, L, ids, int(np.sum(Mref[i] > 0)))
                continue
            for k, p in enumerate(ids):
                dense[i, p] += dw[i, k]
        v.ok(struct is None, cls("unique_mappings"), lambda: "unique mapping structure: %s%s" % (struct, note()))
        v.ok(dom.close(dense, Mref), cls("unique_mappings"),
             lambda: "dense matrix rebuilt from unique_mappings != reference interpolation matrix; maxdiff=%s%s" % (
                 dom.maxdiff(dense, Mref), note()))

    def rd_inv():
        mapper.sub_slim_indexes_for_pix_index
        mapper.sub_slim_indexes_for_pix_index_arr

    reads = {
        "nb": rd_nb, "edge": rd_edge, "psw": rd_psw, "trio": rd_trio, "M": rd_M, "um": rd_um,
        "sig": lambda: mapper.pixel_signals_from(signal_scale=1.0),
        "inv": rd_inv,
        "dwt": lambda: mapper.data_weight_total_for_pix_from(),
        "m2s": lambda: mapper.mapped_to_source_from(array=adapt),
        "interp": lambda: mapper.interpolated_array_from(values=values, shape_native=(4, 5)),
        "reg": lambda: aa.reg.Constant(coefficient=1.3).regularization_matrix_from(linear_obj=mapper),
        "tri": lambda: mesh.delaunay,
        "vor": lambda: mesh.voronoi,
        "split": lambda: mesh.split_cross,
        "pswx": lambda: mapper.pix_sub_weights_split_cross,
    }
    for name in list(order) + ["final:" + r for r in H_CHECKED]:
        guarded(v, reads[name.split(":")[-1]])
        done.append(name)
    v.nontrivial = int(np.max(np.sum(Mref > 0, axis=1))) >= 2
    v.outcome = "H:%s:first-%s" % (kind, order[0])
