"""C03 - masked PSF blurring equals true 2D convolution restricted to the mask.

The real ``Convolver`` / ``Kernel2D`` / ``SimulatorImaging`` are driven on every mask of a completely
enumerated family and the whole linear operator they implement is extracted on basis images and
compared with the dense convolution matrix of ``mc.ref.convolution`` (explicit loops, no scipy, no
autoarray).
"""
import numpy as np

from mc import dom
from mc.core import V
from mc.ref import convolution as refconv

ID = "C03"
ENGINE = "scope"
CHUNK = 32

PIXEL_SCALES = (1.0, 2.0)
COEFS = (1.0, -2.0, 5e-4)  # sign and sub-1e-3 magnitude: any value-threshold shortcut becomes visible

RULE = (
    "cases = ('op') every (frame HxW, odd kernel shape khxkw, interior mask) with the kernel footprint of every "
    "unmasked pixel inside the frame and >=1 unmasked pixel, for all frame/kernel pairs inside the tier bound, "
    "ordered by frame cells, kernel cells, number of unmasked pixels; per case two labelled kernels (A: injective "
    "signed entries, B: zeros/negatives/5e-4 entry incl. possibly a zero centre) and on each: basis images on every "
    "unmasked and every blurring pixel (coefficient 1, thorough tier: x {1,-2,5e-4}) plus per coefficient -2 and "
    "5e-4 an image carrying it on every pixel with distinct weights, dense signed images with garbage outside the "
    "mask+blurring region, convolve_image_no_blurring on the same alphabet, convolve_mapping_matrix on c*I, a "
    "fractional positive matrix and a dense signed matrix with zeros, Kernel2D.convolved_array_from / "
    "_with_mask_from, and the simulator round trip; ('frame') per frame/kernel pair the whole-frame convolutions "
    "incl. the frame edge, padded/trimmed unmasked blurring and the simulator with an un-normalised PSF; ('even') "
    "every kernel shape in 1..6 x 1..6 with an even side must be rejected; ('dyn') per odd kernel shape in {1,3,5,7,9}^2 "
    "a (2kh+5)x(2kw+4) frame with images of large dynamic range and exact zeros (a 1e4 / 1e12 pixel cut by the frame "
    "corner + O(1) and 5e-4 pixels further away than the kernel reaches; dense signed field behind an exact-zero band "
    "with a -1e4 / -1e12 pixel; basis images x {1, 1e12} on first/middle/last pixel), three masks (whole interior, block "
    "around the faint pixels only, two components with a hole): Kernel2D.convolved_array_from / _with_mask_from, "
    "unmasked_blurred_array_from, Convolver.convolve_image and the noise-free simulator round trip, EVERY pixel "
    "compared with a shift-and-add reference within 1e-12 x sum|K||image| under that pixel's own footprint (exact "
    "where it sees only zeros); ('big') masks with more unmasked pixels than an int8 / uint8 / int16 / uint16 slim "
    "index can address (>127, >255, >32767, >65535 by more than two block rows; filled block and block with a lattice "
    "of holes + a masked row = two components, framed by exactly the kernel half-widths): complete operator "
    "extraction by kh*kw comb images (sources on a (kh,kw) lattice have disjoint footprints; signed distinct weights, "
    "coefficients 1/-2/5e-4) through convolve_image (image + blurring term), convolve_image_no_blurring and "
    "convolve_mapping_matrix (comb columns + dense signed column), a dense image with garbage outside, both whole-frame "
    "convolutions and the simulator's data on the large frame. non-trivial = 'op' case whose kernel is "
    "larger than 1x1 and whose unmasked set has >=2 pixels and is not a filled rectangle (the suite's fixtures are "
    "filled centred blocks and one cross), 'dyn' case with a kernel larger than 1x1, every 'big' case"
)
ASSUMPTIONS = [
    "the blurring operator is bilinear in (kernel, image): a kernel with pairwise distinct non-zero signed entries x "
    "every basis image identifies which kernel element produced every operator entry, so the operator is extracted "
    "completely; a second kernel with zeros, negatives and a 5e-4 entry covers value-dependent shortcuts on the kernel",
    "coefficient alphabet {1, -2, 5e-4} (+ dense signed/zero-containing images and matrices) represents all real "
    "image / mapping-matrix entries for code that is linear apart from possible sign/threshold tests on the entry",
    "the simulator is only driven with inputs for which it is defined: non-negative count rates (or a background sky "
    "level that makes them so), because it draws a Poisson deviate even when noise is switched off",
    "the simulator round trip uses PSFs that sum to one, except in the 'frame' cases which test exactly that the "
    "PSF handed to the simulator is the PSF the returned dataset fits with",
    "'dyn'/'big' accuracy demand: the value of the convolution at a pixel is a finite sum of products K[i,j]*image[s] over "
    "that pixel's kernel footprint, so 'equals the true convolution / zero residual' is read pixel-wise: the error at a "
    "pixel must be small relative to the magnitude of the terms that define THAT pixel (1e-12 x sum|K||image| under its "
    "footprint, >= 100 x the n*eps bound every direct summation of <= 81 products satisfies in any order), and exactly 0 "
    "where every contributing pixel is 0. This was weighed against the weaker norm-wise reading (error small relative to "
    "the brightest pixel of the whole frame, which an FFT-based evaluation meets): under that reading a bright pixel "
    "further away than the kernel reaches changes the value of a faint pixel, contradicting the statement's own 'values "
    "outside the mask and its blurring region never influence the result' and 'agrees at every pixel', an image of exact "
    "zeros away from a star gets negative counts, and the residual of the generating image is O(eps*max|image|) instead "
    "of the rounding of the pixel's own sum; the masked Convolver (direct scatter-add) meets the pixel-wise demand, and "
    "the whole-frame convolution is stated to agree with it at every pixel, so the pixel-wise demand is the one adopted. "
    "It is not stricter than direct summation can deliver: both library paths pass it on the unchanged tree",
    "'big': the frame tables hold slim indexes, so the only size-dependent behaviour of otherwise size-oblivious "
    "scatter code is the integer width of those tables; one mask family per width boundary reachable in memory (int8, "
    "uint8, int16, uint16) represents all large masks; comb images extract every operator entry because the true "
    "footprints of sources on a (kh,kw) lattice are disjoint and the weights are pairwise distinct (a mis-routed "
    "contribution cannot cancel against another one)",
]
BOUNDS = {
    "quick": "frames HxW with H,W in 1..6; odd kernels (kh,kw) in {1,3,5}^2 that fit; all 2^n-1 interior masks "
    "for every frame/kernel pair with n <= 12 interior cells (n = (H-kh+1)(W-kw+1); n <= 6 for the 1x1 kernel, n <= 10 for "
    "1xk / kx1 kernels on frames with more than 20 cells); "
    "basis extraction with coefficient 1 + weighted images for -2 and 5e-4; 27 even kernel shapes; 'dyn': all 25 kernel "
    "shapes {1,3,5,7,9}^2 (kernels A and |A|/sum), levels {1e4, 1e12}, 3 masks; 'big': index widths 127/255 x {block, "
    "holes} x kernels {1x3,3x1,3x3,3x5,5x3}, width 32767: 3x3 block (183x182 pixels), 1x3 and 3x1 holes, "
    "width 65535: 3x1 block (258x257 pixels), 1x3 holes (kernel A); blocks are the smallest s x s or (s+1) x s ones "
    "exceeding the width by more than two block rows",
    "thorough": "frames H,W in 1..7; odd kernels {1,3,5,7}^2 that fit; all interior masks for every "
    "pair with n <= 14 interior cells (n <= 9 for the 1x1 kernel) plus the 6x6 frame with the 3x3 kernel (n = 16, "
    "65 535 masks); every basis vector with every coefficient {1,-2,5e-4}; 27 even shapes; 'dyn': the same 25 shapes with "
    "kernels A, B and |A|/sum; 'big': widths 127/255 x {block, holes} x kernels {1x3,3x1,3x3,3x5,5x3,5x5,7x7,1x7,7x1}, "
    "width 32767 x {block, holes} x {1x3,3x1,3x3,3x5,5x3,5x5}, width 65535 x {block, holes} x {1x3,3x1,3x3} "
    "(kernels A and B)",
}


# ----------------------------------------------------------------------------- domain


def _pairs(tier):
    if tier == "quick":
        sides, ks, nmax, n11, cellmax, extra = range(1, 7), (1, 3, 5), 12, 6, 36, []
    else:
        sides, ks, nmax, n11, cellmax, extra = range(1, 8), (1, 3, 5, 7), 14, 9, 49, [((6, 6), (3, 3))]
    out = []
    for H in sides:
        for W in sides:
            if H * W > cellmax:
                continue
            for kh in ks:
                for kw in ks:
                    ih, iw = H - kh + 1, W - kw + 1
                    if ih < 1 or iw < 1:
                        continue
                    # the 1x1 kernel has no footprint (operator = scalar on every mask): smaller bound there
                    lim = nmax if kh * kw > 1 else n11
                    if tier == "quick" and min(kh, kw) == 1 and H * W > 20:
                        lim = min(lim, 10)  # 1-D kernels on the larger frames: n <= 10 (time budget of the quick tier)
                    if ih * iw <= lim:
                        out.append(((H, W), (kh, kw)))
    for p in extra:
        if p not in out:
            out.append(p)
    out.sort(key=lambda p: (p[0][0] * p[0][1], p[1][0] * p[1][1], p[0], p[1]))
    return out


# index-width classes of the slim-index tables: the largest slim index (n-1) exceeds what int8 / uint8 / int16 /
# uint16 can hold (the next width, int32, needs 2**31 pixels and is out of reach)
BIG_T = (127, 255, 32767, 65535)
DYN_KS = (1, 3, 5, 7, 9)
DYN_LEVELS = (1e4, 1e12)


def _big_cases(tier, seed):
    """('big') masks with more unmasked pixels than each integer width can index, filled block / block with holes
    and two components; the slow ones (>= 32768 pixels) are few in the quick tier."""
    full = 0 if tier == "quick" else 1
    small_ks = [(1, 3), (3, 1), (3, 3), (3, 5), (5, 3)]
    out = []
    if tier == "quick":
        out += [["big", 32767, 0, 3, 3, seed, 0], ["big", 32767, 1, 1, 3, seed, 0], ["big", 32767, 1, 3, 1, seed, 0],
                ["big", 65535, 0, 3, 1, seed, 0], ["big", 65535, 1, 1, 3, seed, 0]]
    else:
        for T in BIG_T[2:]:
            for holes in (0, 1):
                for k in small_ks + [(5, 5)]:
                    if T == 65535 and k[0] * k[1] > 9:
                        continue
                    out.append(["big", T, holes, k[0], k[1], seed, 1])
    for T in BIG_T[:2]:
        for holes in (0, 1):
            for k in small_ks + ([] if tier == "quick" else [(5, 5), (7, 7), (1, 7), (7, 1)]):
                out.append(["big", T, holes, k[0], k[1], seed, full])
    return out


def cases(tier, seed):
    seed = int(seed)
    # the 'big' cases cost seconds each: one at the head of each of the first chunks, so they run side by side
    big = _big_cases(tier, seed)
    slow = [c for c in big if c[1] >= 32767]
    rest = _cases_rest(tier, seed, [c for c in big if c[1] < 32767])
    k = 0
    for c in rest:
        if slow and k % CHUNK == 0:
            yield slow.pop(0)
            k += 1
        yield c
        k += 1
    for c in slow:
        yield c


def _cases_rest(tier, seed, big_small):
    for kh in range(1, 7):
        for kw in range(1, 7):
            if kh % 2 == 0 or kw % 2 == 0:
                yield ["even", kh, kw, seed]
    pairs = _pairs(tier)
    full = 0 if tier == "quick" else 1
    for (H, W), (kh, kw) in pairs:
        yield ["frame", H, W, kh, kw, seed]
    for kh in DYN_KS:
        for kw in DYN_KS:
            yield ["dyn", kh, kw, seed, full]
    for c in big_small:
        yield c
    for (H, W), (kh, kw) in pairs:
        n = (H - kh + 1) * (W - kw + 1)
        allbits = sorted(range(1, 2 ** n), key=lambda b: (bin(b).count("1"), b))
        for bits in allbits:
            yield ["op", H, W, kh, kw, bits, seed, full]


# ----------------------------------------------------------------------------- value menus (seeded)


def kernel_A(seed, kh, kw):
    """Injective signed labelling: pairwise distinct magnitudes in [1, kh*kw+1), mixed signs, asymmetric."""
    r = dom.rng(seed, "C03-A", kh, kw)
    n = kh * kw
    mags = 1.0 + r.permutation(n) + 0.5 * r.rand(n)
    sign = np.where(r.rand(n) < 0.4, -1.0, 1.0)
    if n > 1:  # both signs always present
        i, j = r.permutation(n)[:2]
        sign[i], sign[j] = -1.0, 1.0
    return (sign * mags).reshape(kh, kw)


def kernel_B(seed, kh, kw):
    """Adversarial labelling: exact zeros (possibly at the centre), negatives and one 5e-4 entry."""
    r = dom.rng(seed, "C03-B", kh, kw)
    n = kh * kw
    vals = np.round(r.uniform(-3.0, 3.0, size=n), 3)
    vals[vals == 0.0] = 0.7
    if n >= 2:
        zero = r.rand(n) < 0.3
        zero[int(r.randint(n))] = True
        if zero.all():
            zero[0] = False
        vals[zero] = 0.0
        nz = np.flatnonzero(~zero)
        vals[nz[int(r.randint(len(nz)))]] = 5e-4
        if len(nz) >= 2 and not (vals[nz] < 0).any():
            vals[nz[0] if vals[nz[0]] != 5e-4 else nz[1]] = -1.25
    return vals.reshape(kh, kw)


def image_native(seed, H, W, salt=0):
    """Dense signed non-integer frame image (also serves as 'garbage' outside mask + blurring region)."""
    r = dom.rng(seed, "C03-img", H, W, salt)
    a = np.round(r.uniform(-4.0, 4.0, size=(H, W)), 3)
    a[np.abs(a) < 0.05] = 0.3
    return a


def _a(x):
    return np.array(x)


class _V(V):
    """V that records at most one violation per finding class per case (so the per-case cap of the collector is
    not used up by repeats of one class and the reported counts are numbers of cases)."""

    __slots__ = ()

    def ok(self, cond, finding, msg=""):
        if not cond and any(x["finding"] == "%s:%s" % (self.pid, finding) for x in self.violations):
            self.checks += 1
            return False
        return V.ok(self, cond, finding, msg)


def _close(got, want, scale=1.0):
    """relative 1e-9, absolute 1e-12 x the magnitude of the terms that were summed (sum|K| * max|input|)"""
    return dom.close(got, want, rtol=1e-9, atol=1e-12 * max(1.0, float(scale)))


def _close_local(got, want, local):
    """Pixel-wise accuracy relative to the terms that DEFINE that pixel: |got - want| <= 1e-12 * sum_k |K_k||image_k| over
    the kernel footprint of the pixel (>= 100 x the rounding bound n*eps of summing <= 81 products in any order); exact
    where the footprint sees only zeros."""
    got = np.asarray(got, dtype=float)
    want = np.asarray(want, dtype=float)
    local = np.asarray(local, dtype=float)
    if got.shape != want.shape or want.shape != local.shape:
        return False
    return bool(np.all(np.abs(got - want) <= 1e-12 * local))


def _diff_local(got, want, local):
    got = np.asarray(got, dtype=float)
    want = np.asarray(want, dtype=float)
    local = np.asarray(local, dtype=float)
    if got.shape != want.shape or want.shape != local.shape:
        return "shape %s vs %s" % (got.shape, want.shape)
    if got.size == 0:
        return "empty"
    bad = ~(np.abs(got - want) <= 1e-12 * local)
    k = int(np.flatnonzero(bad.ravel())[0]) if bad.any() else 0
    return "%d of %d pixels off by more than 1e-12 x local magnitude; first at flat %d: got %.17g want %.17g, sum|K||image| under its footprint %.3g" % (
        int(bad.sum()), bad.size, k, float(got.ravel()[k]), float(want.ravel()[k]), float(local.ravel()[k]))


def _diff(got, want):
    got = np.asarray(got)
    want = np.asarray(want)
    if got.shape != want.shape:
        return "shape %s vs %s" % (got.shape, want.shape)
    if got.size == 0:
        return "empty"
    k = int(np.argmax(np.abs(got - want)))
    return "maxdiff %.3g at flat %d: got %.6g want %.6g" % (
        float(np.max(np.abs(got - want))), k, float(got.ravel()[k]), float(want.ravel()[k]))


# ----------------------------------------------------------------------------- run


def run_case(case):
    import autoarray as aa

    v = _V(ID)
    kind = case[0]
    if kind == "even":
        run_even(aa, v, *case[1:])
    elif kind == "frame":
        run_frame(aa, v, *case[1:])
    elif kind == "op":
        run_op(aa, v, *case[1:])
    elif kind == "dyn":
        run_dyn(aa, v, *case[1:])
    elif kind == "big":
        run_big(aa, v, *case[1:])
    else:
        raise ValueError("unknown case kind %r" % (kind,))
    return v.result()


def _raises(fn):
    try:
        fn()
    except Exception as e:  # rejection = any exception; the type is recorded in the outcome
        return type(e).__name__
    return None


def run_even(aa, v, kh, kw, seed):
    """Even-sided kernels must be rejected by the Convolver and by both whole-frame convolutions."""
    H = W = 11
    m = np.ones((H, W), dtype=bool)
    m[5, 5] = False
    m[5, 6] = False
    mask = aa.Mask2D(mask=m, pixel_scales=PIXEL_SCALES)
    r = dom.rng(seed, "C03-even", kh, kw)
    K = np.round(r.uniform(0.1, 2.0, size=(kh, kw)), 3)
    kern = aa.Kernel2D.no_mask(values=K, pixel_scales=PIXEL_SCALES)
    nat = image_native(seed, H, W)
    full = aa.Array2D.no_mask(values=nat, pixel_scales=PIXEL_SCALES)
    e1 = _raises(lambda: aa.Convolver(mask=mask, kernel=kern))
    e2 = _raises(lambda: kern.convolved_array_from(array=full))
    e3 = _raises(lambda: kern.convolved_array_with_mask_from(array=full.native, mask=mask))
    tag = "kernel %dx%d" % (kh, kw)
    v.ok(e1 is not None, "even-kernel-accepted:Convolver", tag)
    v.ok(e2 is not None, "even-kernel-accepted:Kernel2D.convolved_array_from", tag)
    v.ok(e3 is not None, "even-kernel-accepted:Kernel2D.convolved_array_with_mask_from", tag)
    v.nontrivial = False
    v.outcome = "even:%s/%s/%s" % (e1, e2, e3)


def _simulator(aa, K, **kw):
    kern = aa.Kernel2D.no_mask(values=K, pixel_scales=PIXEL_SCALES)
    return aa.SimulatorImaging(
        exposure_time=50.0,
        psf=kern,
        normalize_psf=False,
        add_poisson_noise_to_data=False,
        include_poisson_noise_in_noise_map=False,
        noise_if_add_noise_false=0.25,
        noise_seed=1,
        **kw
    )


def _unit_sum_kernels(KA, KB):
    """Two PSFs that sum to one: a non-negative one and a signed one (zeros kept)."""
    P = np.abs(KA) / np.abs(KA).sum()
    S = KB.copy()
    c = (S.shape[0] // 2, S.shape[1] // 2)
    S[c] += 1.0 - S.sum()
    return P, S


def run_frame(aa, v, H, W, kh, kw, seed):
    """Per frame/kernel pair: whole-frame convolutions (every pixel incl. the frame edge), padded/trimmed
    unmasked blurring, and the simulator driven with a PSF that does NOT sum to one."""
    KA, KB = kernel_A(seed, kh, kw), kernel_B(seed, kh, kw)
    nat = image_native(seed, H, W)
    full = aa.Array2D.no_mask(values=nat.copy(), pixel_scales=PIXEL_SCALES)
    for name, K in (("A", KA), ("B", KB)):
        M = refconv.conv_matrix((H, W), K)
        want = (M @ nat.ravel()).reshape(H, W)
        kern = aa.Kernel2D.no_mask(values=K.copy(), pixel_scales=PIXEL_SCALES)
        v.ok(dom.exact(_a(kern.native), K) and tuple(kern.shape_native) == (kh, kw), "Kernel2D.no_mask:values",
             lambda: "kernel %s stored %s" % (name, _a(kern.native).tolist()))
        got = kern.convolved_array_from(array=full)
        v.ok(_close(_a(got.native), want, 4 * np.abs(K).sum()), "Kernel2D.convolved_array_from",
             lambda: "full frame %dx%d kernel %s %dx%d: %s" % (H, W, name, kh, kw, _diff(_a(got.native), want)))
        # every basis image of the frame, incl. sources on the frame edge (zero padding outside)
        G = np.zeros((H * W, H * W))
        for s in range(H * W):
            e = np.zeros(H * W)
            e[s] = 1.0
            G[:, s] = _a(kern.convolved_array_from(
                array=aa.Array2D.no_mask(values=e.reshape(H, W), pixel_scales=PIXEL_SCALES)).native).ravel()
        v.ok(dom.close(G, M), "Kernel2D.convolved_array_from",
             lambda: "whole-frame operator, frame %dx%d kernel %s %dx%d: %s" % (H, W, name, kh, kw, _diff(G, M)))

        # padded -> blurred -> trimmed (what unmasked blurred images use): values beyond the frame are real
        py, px = kh // 2, kw // 2
        pshape = (H + 2 * py, W + 2 * px)
        pnat = image_native(seed, pshape[0], pshape[1], salt=1)
        pmask = aa.Mask2D.all_false(shape_native=pshape, pixel_scales=PIXEL_SCALES)
        parr = aa.Array2D.no_mask(values=pnat.copy(), pixel_scales=PIXEL_SCALES)
        ub = pmask.unmasked_blurred_array_from(padded_array=parr, psf=kern, image_shape=(H, W))
        Mp = refconv.conv_matrix(pshape, K)
        wantp = (Mp @ pnat.ravel()).reshape(pshape)[py:py + H, px:px + W]
        v.ok(_close(_a(ub.native), wantp, 4 * np.abs(K).sum()), "Mask2D.unmasked_blurred_array_from",
             lambda: "frame %dx%d kernel %s %dx%d: %s" % (H, W, name, kh, kw, _diff(_a(ub.native), wantp)))

    # simulator with a PSF that does not sum to one; mask = whole interior
    P, _ = _unit_sum_kernels(KA, KB)
    K2 = 2.5 * P
    img = np.abs(nat)
    sim = _simulator(aa, K2)
    ds = sim.via_image_from(image=aa.Array2D.no_mask(values=img.copy(), pixel_scales=PIXEL_SCALES))
    M2 = refconv.conv_matrix((H, W), K2)
    want = (M2 @ img.ravel()).reshape(H, W)
    v.ok(_close(_a(ds.data.native), want, 4 * np.abs(K2).sum()), "SimulatorImaging.via_image_from:data",
         lambda: "un-normalised psf, frame %dx%d kernel %dx%d: %s" % (H, W, kh, kw, _diff(_a(ds.data.native), want)))
    n = (H - kh + 1) * (W - kw + 1)
    m = dom.interior_mask((H, W), (kh, kw), 2 ** n - 1)
    mask = aa.Mask2D(mask=m.copy(), pixel_scales=PIXEL_SCALES)
    bmask = mask.derive_mask.blurring_from(kernel_shape_native=(kh, kw))
    md = ds.apply_mask(mask=mask)
    model = md.convolver.convolve_image(
        image=aa.Array2D(values=img.copy(), mask=mask), blurring_image=aa.Array2D(values=img.copy(), mask=bmask))
    resid = _a(md.data.slim) - _a(model.slim)
    okfit = dom.close(resid, np.zeros_like(resid), atol=1e-9)
    if okfit:
        v.ok(True, "simulator-fit:residual")
    else:
        psf_used = _a(md.psf.native)
        renorm = (not dom.close(psf_used, K2)) and dom.close(psf_used, K2 / K2.sum())
        # is the whole residual explained by the dataset fitting with psf / psf.sum() ?
        Mn = refconv.conv_matrix((H, W), K2 / K2.sum())
        u = np.flatnonzero(~m.ravel())
        explained = dom.close(_a(model.slim), (Mn @ img.ravel())[u])
        # Imaging(...) renormalises its PSF to unit sum by default (documented `use_normalized_psf=True` policy), so a
        # dataset simulated with a non-unit-sum PSF is fitted with psf/psf.sum(): that is normalisation policy, not a
        # convolution error, and is outside the statement. Only a residual NOT explained by it is a violation.
        v.ok(renorm and explained, "simulator-fit:residual",
             lambda: "frame %dx%d kernel %dx%d psf sum %.3g given to SimulatorImaging(normalize_psf=False): psf sum of the "
             "simulated dataset %.3g, after apply_mask %.3g, max |data - model| %.3g"
             % (H, W, kh, kw, K2.sum(), _a(ds.psf.native).sum(), psf_used.sum(), float(np.max(np.abs(resid)))))
    # signed unit-sum PSF + signed image on a background sky (sky add / subtract path), whole interior unmasked
    _, S = _unit_sum_kernels(KA, KB)
    _sim_roundtrip(aa, v, H, W, m, mask, bmask, "signed+sky", S, nat, _sky_for(S, nat), 1e-9)
    v.nontrivial = False
    v.outcome = "frame:%dx%d:fit=%s" % (kh, kw, "exact" if okfit else "up-to-psf-renormalisation")


def run_op(aa, v, H, W, kh, kw, bits, seed, full=0):
    m = dom.interior_mask((H, W), (kh, kw), bits)
    assert refconv.footprint_inside(m, (kh, kw))
    mask = aa.Mask2D(mask=m.copy(), pixel_scales=PIXEL_SCALES)
    u = np.flatnonzero(~m.ravel())  # slim order of the mask = row-major
    n = len(u)
    reach = refconv.reach_region(m, (kh, kw))
    b = np.flatnonzero(reach.ravel())
    nb = len(b)

    # --- the blurring region the library hands out (its slim order defines the blurring image)
    bmask = mask.derive_mask.blurring_from(kernel_shape_native=(kh, kw))
    bm = _a(bmask).astype(bool)
    v.ok(dom.exact(~bm, reach), "blurring-region:derive_mask.blurring_from",
         lambda: "mask %s kernel %dx%d blurring(unmasked)=%s want %s" % (
             (~m).astype(int).tolist(), kh, kw, (~bm).astype(int).tolist(), reach.astype(int).tolist()))
    bl = np.flatnonzero(~bm.ravel())  # library's blurring pixels, slim order
    nbl = len(bl)

    nat = image_native(seed, H, W)
    nat2 = image_native(seed, H, W, salt=2)
    zero_im = aa.Array2D(values=np.zeros(n), mask=mask)
    zero_bl = aa.Array2D(values=np.zeros(nbl), mask=bmask)
    rect = False
    ys, xs = np.nonzero(~m)
    if n:
        rect = n == (ys.max() - ys.min() + 1) * (xs.max() - xs.min() + 1)
    v.nontrivial = bool(kh * kw > 1 and n >= 2 and not rect)
    v.outcome = "op:%dx%d:n%d:b%d:%s" % (kh, kw, n, nb, "rect" if rect else "c%d" % dom.n_components(m, conn8=True))

    KA, KB = kernel_A(seed, kh, kw), kernel_B(seed, kh, kw)
    for name, K in (("A", KA), ("B", KB)):
        tag = "frame %dx%d mask(unmasked flat)=%s kernel %s=%s" % (H, W, u.tolist(), name, K.tolist())
        M = refconv.conv_matrix((H, W), K)
        Muu = M[np.ix_(u, u)]
        sc = float(np.abs(K).sum())
        kern = aa.Kernel2D.no_mask(values=K.copy(), pixel_scales=PIXEL_SCALES)
        conv = aa.Convolver(mask=mask, kernel=kern)
        v.ok(dom.exact(np.asarray(conv.blurring_mask).astype(bool), bm), "blurring-region:Convolver.blurring_mask", tag)

        # ---- operator extraction: every basis image of the mask (image term) and of the blurring region
        #      (blurring term). full=1: every basis vector with every coefficient of COEFS. full=0: basis with
        #      coefficient 1, then per further coefficient c one image c*w on mask and blurring region together
        #      (pairwise distinct weights w in [1,2): every source pixel carries an entry of that sign/magnitude
        #      class, and the operator entries themselves are already pinned by the basis extraction).
        for c in (COEFS if full else COEFS[:1]):
            for k in range(n):
                e = np.zeros(n)
                e[k] = c
                got = _a(conv.convolve_image(image=aa.Array2D(values=e, mask=mask), blurring_image=zero_bl).slim)
                want = c * Muu[:, k]
                v.ok(_close(got, want, sc * abs(c)), "convolve_image:image-term",
                     lambda: "%s | %g*e[slim %d]: %s" % (tag, c, k, _diff(got, want)))
                got = _a(conv.convolve_image_no_blurring(image=aa.Array2D(values=e, mask=mask)).slim)
                v.ok(_close(got, want, sc * abs(c)), "convolve_image_no_blurring",
                     lambda: "%s | %g*e[slim %d]: %s" % (tag, c, k, _diff(got, want)))
            for k in range(nbl):
                e = np.zeros(nbl)
                e[k] = c
                got = _a(conv.convolve_image(image=zero_im, blurring_image=aa.Array2D(values=e, mask=bmask)).slim)
                want = c * M[u, bl[k]]
                v.ok(_close(got, want, sc * abs(c)), "convolve_image:blurring-term",
                     lambda: "%s | %g*e[blurring slim %d = flat %d]: %s" % (tag, c, k, bl[k], _diff(got, want)))
        wfull = (1.0 + np.arange(H * W) / float(H * W)).reshape(H, W)
        for c in COEFS[1:]:
            img = c * wfull
            im = aa.Array2D(values=img[~m], mask=mask)
            got = _a(conv.convolve_image(image=im, blurring_image=zero_bl).slim)
            want = Muu @ img.ravel()[u]
            v.ok(_close(got, want, sc * abs(c) * 2), "convolve_image:image-term",
                 lambda: "%s | image %g*w on the mask: %s" % (tag, c, _diff(got, want)))
            got = _a(conv.convolve_image_no_blurring(image=im).slim)
            v.ok(_close(got, want, sc * abs(c) * 2), "convolve_image_no_blurring",
                 lambda: "%s | image %g*w on the mask: %s" % (tag, c, _diff(got, want)))
            if nbl:
                got = _a(conv.convolve_image(image=zero_im, blurring_image=aa.Array2D(values=img[~bm], mask=bmask)).slim)
                want = M[np.ix_(u, bl)] @ img.ravel()[bl]
                v.ok(_close(got, want, sc * abs(c) * 2), "convolve_image:blurring-term",
                     lambda: "%s | image %g*w on the blurring region: %s" % (tag, c, _diff(got, want)))

        # ---- dense signed images (additivity); garbage everywhere outside mask + blurring region
        for img in (nat, nat2):
            want = (M @ img.ravel())[u]  # garbage outside the reach region cannot reach an unmasked pixel
            im = aa.Array2D(values=img.copy(), mask=mask)
            bi = aa.Array2D(values=img.copy(), mask=bmask)
            got = conv.convolve_image(image=im, blurring_image=bi)
            v.ok(_close(_a(got.slim), want, 4 * sc), "convolve_image",
                 lambda: "%s | dense image: %s" % (tag, _diff(_a(got.slim), want)))
            v.ok(dom.exact(_a(got.mask), m), "convolve_image:result-mask", tag)
            clean = np.where(m & ~reach, 0.0, img)
            got2 = conv.convolve_image(
                image=aa.Array2D(values=clean[~m], mask=mask), blurring_image=aa.Array2D(values=clean[~bm], mask=bmask))
            v.ok(dom.exact(_a(got2.slim), _a(got.slim)), "convolve_image:outside-values-influence", tag)
            want_nb = Muu @ img.ravel()[u]
            got3 = conv.convolve_image_no_blurring(image=im)
            v.ok(_close(_a(got3.slim), want_nb, 4 * sc), "convolve_image_no_blurring",
                 lambda: "%s | dense image: %s" % (tag, _diff(_a(got3.slim), want_nb)))
            got4 = conv.convolve_image_no_blurring_interpolation(image=img.ravel()[u].copy())
            v.ok(_close(_a(got4.slim), want_nb, 4 * sc), "convolve_image_no_blurring_interpolation",
                 lambda: "%s | dense image: %s" % (tag, _diff(_a(got4.slim), want_nb)))

            # ---- whole-frame scipy convolutions agree wherever both are defined
            w1 = kern.convolved_array_with_mask_from(
                array=aa.Array2D.no_mask(values=img.copy(), pixel_scales=PIXEL_SCALES).native, mask=mask)
            v.ok(_close(_a(w1.slim), want, 4 * sc) and dom.exact(_a(w1.mask), m), "Kernel2D.convolved_array_with_mask_from",
                 lambda: "%s | %s" % (tag, _diff(_a(w1.slim), want)))
            v.ok(_close(_a(w1.slim), _a(got.slim), 4 * sc), "whole-frame-vs-convolver:with_mask_from",
                 lambda: "%s | %s" % (tag, _diff(_a(w1.slim), _a(got.slim))))
            w2 = kern.convolved_array_from(array=im)  # masked array: zero outside its mask, result on its mask
            v.ok(_close(_a(w2.slim), want_nb, 4 * sc) and dom.exact(_a(w2.mask), m), "Kernel2D.convolved_array_from",
                 lambda: "%s | masked array: %s" % (tag, _diff(_a(w2.slim), want_nb)))
            v.ok(_close(_a(w2.slim), _a(got3.slim), 4 * sc), "whole-frame-vs-convolver:convolved_array_from",
                 lambda: "%s | %s" % (tag, _diff(_a(w2.slim), _a(got3.slim))))

        # ---- mapping matrices: same operator applied to every column
        r = dom.rng(seed, "C03-X", H, W, kh, kw, bits, name)
        Xs = [("%g*I" % c, c * np.eye(n)) for c in COEFS]
        Xpos = np.round(r.uniform(0.05, 1.0, size=(n, 2)), 3)
        Xpos[int(r.randint(n)), 0] = 5e-4
        Xs.append(("positive-fractional", Xpos))
        Xd = np.round(r.uniform(-2.0, 2.0, size=(n, 3)), 3)
        Xd[np.abs(Xd) < 0.02] = 0.5
        Xd[int(r.randint(n)), 1] = 0.0
        Xd[int(r.randint(n)), 2] = -7e-4
        Xd[int(r.randint(n)), 0] = -1.5
        Xs.append(("dense-signed", Xd))
        for xname, X in Xs:
            got = np.asarray(conv.convolve_mapping_matrix(mapping_matrix=X.copy()))
            want = Muu @ X
            if _close(got, want, sc * np.abs(X).max()):
                v.ok(True, "convolve_mapping_matrix")
            else:
                want_pos = Muu @ np.where(X > 0, X, 0.0)
                only_nonpos = bool((X <= 0).any()) and _close(got, want_pos, sc * np.abs(X).max())
                v.ok(False, "convolve_mapping_matrix:nonpositive-entries" if only_nonpos else "convolve_mapping_matrix",
                     lambda: "%s | X=%s %s: %s%s" % (
                         tag, xname, X.tolist() if X.size <= 12 else "shape %s" % (X.shape,), _diff(got, want),
                         " (equals the operator applied to max(X,0))" if only_nonpos else ""))

    # ---- simulator round trip with PSFs that sum to one: data = whole-frame convolution, zero residual
    P, S = _unit_sum_kernels(KA, KB)
    _sim_roundtrip(aa, v, H, W, m, mask, bmask, "nonneg", P, np.abs(nat), 0.0, 1e-12)
    if full:
        _sim_roundtrip(aa, v, H, W, m, mask, bmask, "signed+sky", S, nat, _sky_for(S, nat), 1e-9)


def _sky_for(K, img):
    """Background sky level that keeps every simulated count rate positive (the simulator needs that)."""
    return float(np.ceil(np.abs(K).sum() * np.abs(img).max())) + 10.0


def _sim_roundtrip(aa, v, H, W, m, mask, bmask, name, K, img, sky, atol):
    u = np.flatnonzero(~m.ravel())
    n = len(u)
    sim = _simulator(aa, K, background_sky_level=sky)
    ds = sim.via_image_from(image=aa.Array2D.no_mask(values=img.copy(), pixel_scales=PIXEL_SCALES))
    M = refconv.conv_matrix((H, W), K)
    want = (M @ img.ravel()).reshape(H, W)
    v.ok(dom.close(_a(ds.data.native), want, atol=atol * max(1.0, 4 * np.abs(K).sum())), "SimulatorImaging.via_image_from:data",
         lambda: "frame %dx%d psf %s=%s: %s" % (H, W, name, K.tolist(), _diff(_a(ds.data.native), want)))
    md = ds.apply_mask(mask=mask)
    v.ok(tuple(md.data.shape_native) == (H, W) and dom.exact(_a(md.mask), m), "simulator-fit:apply_mask-changed-frame",
         lambda: "shape %s" % (md.data.shape_native,))
    model = md.convolver.convolve_image(
        image=aa.Array2D(values=img.copy(), mask=mask), blurring_image=aa.Array2D(values=img.copy(), mask=bmask))
    # history: the masked dataset (its convolver has just been read) is masked AGAIN with other masks of the same frame,
    # among them one with the same number of pixels but a different shape; each derived dataset must blur with frames of
    # its own mask, so the generating image is still fitted with zero residual
    un = np.argwhere(~m)
    if len(un) >= 3:
        alts = []
        m_a = m.copy()
        m_a[tuple(un[0])] = True  # one pixel fewer
        alts.append(m_a)
        cand = np.argwhere(m & ~np.array(bmask) if False else m)
        inner = [tuple(c) for c in cand if kh // 2 <= c[0] < H - kh // 2 and kw // 2 <= c[1] < W - kw // 2] if (kh := K.shape[0]) and (kw := K.shape[1]) else []
        if inner:
            m_b = m.copy()
            m_b[tuple(un[0])] = True
            m_b[inner[0]] = False  # same count, different shape
            alts.append(m_b)
        for m_alt in alts:
            mk = aa.Mask2D(mask=m_alt.copy(), pixel_scales=PIXEL_SCALES)
            try:
                bm = mk.derive_mask.blurring_from(kernel_shape_native=K.shape)
            except Exception:
                continue
            md2 = md.apply_mask(mask=mk)
            mod2 = md2.convolver.convolve_image(image=aa.Array2D(values=img.copy(), mask=mk), blurring_image=aa.Array2D(values=img.copy(), mask=bm))
            r2 = _a(md2.data.slim) - _a(mod2.slim)
            v.ok(dom.exact(_a(md2.convolver.mask), m_alt) and r2.shape == (int((~m_alt).sum()),) and dom.close(r2, np.zeros(r2.shape), atol=max(atol, 1e-11) * max(1.0, 4 * np.abs(K).sum())),
                 "simulator-fit:residual:re-masked-dataset",
                 lambda: "frame %dx%d psf %s: dataset masked twice (second mask %s): max |residual| %s" % (H, W, name, np.flatnonzero(~m_alt.ravel()).tolist(), np.max(np.abs(r2)) if r2.size else r2.shape))
    resid = _a(md.data.slim) - _a(model.slim)
    v.ok(resid.shape == (n,) and dom.close(resid, np.zeros(n), atol=max(atol, 1e-11) * max(1.0, 4 * np.abs(K).sum())), "simulator-fit:residual",
         lambda: "frame %dx%d mask %s psf %s=%s: max |residual| %s" % (
             H, W, u.tolist(), name, K.tolist(), np.max(np.abs(resid)) if resid.size else resid.shape))


# ----------------------------------------------------------------------------- 'dyn': large dynamic range, exact zeros


def _reach_fast(m, kshape):
    """reach region (see mc.ref.convolution.reach_region) by shift-and-OR, for large frames"""
    H, W = m.shape
    hy, hx = kshape[0] // 2, kshape[1] // 2
    u = np.zeros((H + 2 * hy, W + 2 * hx), dtype=bool)
    u[hy:hy + H, hx:hx + W] = ~m
    near = np.zeros((H, W), dtype=bool)
    for i in range(kshape[0]):
        for j in range(kshape[1]):
            near |= u[i:i + H, j:j + W]
    return m & near


def _dyn_frame(kh, kw):
    return 2 * kh + 5, 2 * kw + 4


def _dyn_images(seed, kh, kw, level):
    """Non-negative / signed frame images with a large dynamic range and exact zeros.

    'star': exact zeros except one pixel of value `level` next to the top-left corner (its footprint is cut by the frame
    edge) and four distinct O(1) pixels near the bottom-right corner, further away than the kernel reaches.
    'field': dense signed O(1) values on the bottom-right part, an exact-zero band of more than a kernel width between
    it and a -level pixel on the frame's first row."""
    H, W = _dyn_frame(kh, kw)
    r = dom.rng(seed, "C03-dyn", kh, kw, level)
    star = np.zeros((H, W))
    star[1, 2 if W > 2 else 0] = level
    fy, fx = H - kh // 2 - 2, W - kw // 2 - 2
    star[fy, fx] = 1.0
    star[fy + 1, fx + 1] = 0.5
    star[fy - 1, fx] = np.round(r.uniform(0.1, 0.9), 3)
    star[fy, fx - 1] = 5e-4
    field = np.zeros((H, W))
    dense = image_native(seed, H, W, salt=7)
    field[kh + 3:, kw + 2:] = dense[kh + 3:, kw + 2:]
    field[0, 1] = -level
    return [("star", star), ("field", field)]


def _dyn_masks(kh, kw):
    """Masks of the 'dyn' frame (footprints inside the frame): whole interior; the block around the faint pixels only
    (the bright pixel is then outside mask + blurring region); two components with a hole, one of them next to the
    bright pixel."""
    H, W = _dyn_frame(kh, kw)
    hy, hx = kh // 2, kw // 2
    out = []
    m = np.ones((H, W), dtype=bool)
    m[hy:H - hy, hx:W - hx] = False
    out.append(("interior", m))
    m = np.ones((H, W), dtype=bool)
    m[H - hy - 4:H - hy, W - hx - 4:W - hx] = False
    out.append(("faint-block", m))
    m = np.ones((H, W), dtype=bool)
    m[hy:hy + 2, hx:hx + 3] = False
    m[H - hy - 3:H - hy, W - hx - 4:W - hx] = False
    m[H - hy - 2, W - hx - 2] = True
    out.append(("two-components", m))
    return out


def run_dyn(aa, v, kh, kw, seed, full=0):
    """Whole-frame convolutions, the Convolver and the simulator on images with a large dynamic range and exact zeros,
    every pixel compared with the shift-and-add reference relative to the LOCAL magnitude of the terms it sums."""
    H, W = _dyn_frame(kh, kw)
    KA, KB = kernel_A(seed, kh, kw), kernel_B(seed, kh, kw)
    P, _ = _unit_sum_kernels(KA, KB)
    masks = _dyn_masks(kh, kw)
    for mname, m in masks:
        assert refconv.footprint_inside(m, (kh, kw)) and (~m).any()
    kerns = [("A", KA), ("P", P)] + ([("B", KB)] if full else [])
    for name, K in kerns:
        kern = aa.Kernel2D.no_mask(values=K.copy(), pixel_scales=PIXEL_SCALES)
        tagk = "frame %dx%d kernel %s %dx%d" % (H, W, name, kh, kw)
        convs = []
        for mname, m in masks:
            mask = aa.Mask2D(mask=m.copy(), pixel_scales=PIXEL_SCALES)
            bmask = mask.derive_mask.blurring_from(kernel_shape_native=(kh, kw))
            reach = refconv.reach_region(m, (kh, kw))
            v.ok(dom.exact(~_a(bmask).astype(bool), reach), "blurring-region:derive_mask.blurring_from", "%s mask %s" % (tagk, mname))
            convs.append((mname, m, mask, bmask, reach, aa.Convolver(mask=mask, kernel=kern)))
        images = []
        for level in DYN_LEVELS:
            for iname, img in _dyn_images(seed, kh, kw, level):
                images.append(("%s(%g)" % (iname, level), img))
        # basis images on the first, a middle and the last frame pixel, coefficient 1 and the largest level
        for s in (0, (H // 2) * W + W // 2, H * W - 1):
            for c in (1.0, DYN_LEVELS[-1]):
                e = np.zeros(H * W)
                e[s] = c
                images.append(("%g*e[flat %d]" % (c, s), e.reshape(H, W)))
        for iname, img in images:
            tag = "%s image %s" % (tagk, iname)
            want = refconv.convolve_native_shift(img, K)
            local = refconv.local_magnitude(img, K)
            got = kern.convolved_array_from(array=aa.Array2D.no_mask(values=img.copy(), pixel_scales=PIXEL_SCALES))
            v.ok(_close_local(_a(got.native), want, local), "Kernel2D.convolved_array_from:local-accuracy",
                 lambda: "%s: %s" % (tag, _diff_local(_a(got.native), want, local)))
            for mname, m, mask, bmask, reach, conv in convs:
                u = ~m
                seen = np.where(u | reach, img, 0.0)  # what the masked operator is given; identical to img on the footprints
                w_u, l_u = want[u], local[u]
                assert np.array_equal(refconv.convolve_native_shift(seen, K)[u], w_u)
                g1 = conv.convolve_image(image=aa.Array2D(values=img.copy(), mask=mask),
                                         blurring_image=aa.Array2D(values=img.copy(), mask=bmask))
                v.ok(_close_local(_a(g1.slim), w_u, l_u), "convolve_image:local-accuracy",
                     lambda: "%s mask %s: %s" % (tag, mname, _diff_local(_a(g1.slim), w_u, l_u)))
                g2 = kern.convolved_array_with_mask_from(
                    array=aa.Array2D.no_mask(values=img.copy(), pixel_scales=PIXEL_SCALES).native, mask=mask)
                v.ok(_close_local(_a(g2.slim), w_u, l_u), "Kernel2D.convolved_array_with_mask_from:local-accuracy",
                     lambda: "%s mask %s: %s" % (tag, mname, _diff_local(_a(g2.slim), w_u, l_u)))
                v.ok(_close_local(_a(g2.slim), _a(g1.slim), l_u), "whole-frame-vs-convolver:with_mask_from",
                     lambda: "%s mask %s: %s" % (tag, mname, _diff_local(_a(g2.slim), _a(g1.slim), l_u)))
                v.ok(_close_local(_a(got.native)[u], _a(g1.slim), l_u), "whole-frame-vs-convolver:convolved_array_from",
                     lambda: "%s mask %s: %s" % (tag, mname, _diff_local(_a(got.native)[u], _a(g1.slim), l_u)))
        # padded -> blurred -> trimmed
        py, px = kh // 2, kw // 2
        for iname, img in images[:4]:
            ub = aa.Mask2D.all_false(shape_native=(H, W), pixel_scales=PIXEL_SCALES).unmasked_blurred_array_from(
                padded_array=aa.Array2D.no_mask(values=img.copy(), pixel_scales=PIXEL_SCALES), psf=kern,
                image_shape=(H - 2 * py, W - 2 * px))
            sl = (slice(py, H - py), slice(px, W - px))
            want = refconv.convolve_native_shift(img, K)[sl]
            local = refconv.local_magnitude(img, K)[sl]
            v.ok(_close_local(_a(ub.native), want, local), "Mask2D.unmasked_blurred_array_from:local-accuracy",
                 lambda: "%s image %s: %s" % (tagk, iname, _diff_local(_a(ub.native), want, local)))

    # ---- simulator (noise off, no sky): data = whole-frame convolution; the generating image fits it with zero residual,
    #      i.e. a residual no larger than the rounding of the two direct summations at that pixel
    for level in DYN_LEVELS:
        for iname, img0 in _dyn_images(seed, kh, kw, level):
            img = np.abs(img0)
            tag = "frame %dx%d psf |A|/sum %dx%d image |%s(%g)|" % (H, W, kh, kw, iname, level)
            sim = _simulator(aa, P)
            try:
                ds = sim.via_image_from(image=aa.Array2D.no_mask(values=img.copy(), pixel_scales=PIXEL_SCALES))
            except Exception as e:
                v.ok(False, "SimulatorImaging.via_image_from:raised",
                     "%s (non-negative image, non-negative psf): %s: %s" % (tag, type(e).__name__, e))
                continue
            want = refconv.convolve_native_shift(img, P)
            local = refconv.local_magnitude(img, P)
            v.ok(_close_local(_a(ds.data.native), want, local), "SimulatorImaging.via_image_from:data:local-accuracy",
                 lambda: "%s: %s" % (tag, _diff_local(_a(ds.data.native), want, local)))
            for mname, m in masks:
                mask = aa.Mask2D(mask=m.copy(), pixel_scales=PIXEL_SCALES)
                bmask = mask.derive_mask.blurring_from(kernel_shape_native=(kh, kw))
                md = ds.apply_mask(mask=mask)
                model = md.convolver.convolve_image(
                    image=aa.Array2D(values=img.copy(), mask=mask), blurring_image=aa.Array2D(values=img.copy(), mask=bmask))
                u = ~m
                v.ok(_close_local(_a(md.data.slim), _a(model.slim), local[u]), "simulator-fit:residual:local-accuracy",
                     lambda: "%s mask %s: %s" % (tag, mname, _diff_local(_a(md.data.slim), _a(model.slim), local[u])))
    v.nontrivial = bool(kh * kw > 1)
    v.outcome = "dyn:%dx%d" % (kh, kw)


# ----------------------------------------------------------------------------- 'big': more pixels than an index width holds


def _big_mask(T, holes, kh, kw):
    """Smallest s x s or (s+1) x s block (filled, or with a lattice of holes and one masked row = two components), framed
    by exactly the kernel half-widths, that has more than T + 2*(block width) unmasked pixels."""
    hy, hx = kh // 2, kw // 2
    s = max(2, int(np.sqrt(T)))
    while True:
        for bh, bw in ((s, s), (s + 1, s)):
            blk = np.zeros((bh, bw), dtype=bool)
            if holes:
                i, j = np.indices((bh, bw))
                blk = ((3 * i + 5 * j) % 11 == 0) | (i == bh // 2)
            if int((~blk).sum()) > T + 2 * bw:
                m = np.ones((bh + 2 * hy, bw + 2 * hx), dtype=bool)
                m[hy:hy + bh, hx:hx + bw] = blk
                return m
        s += 1


def run_big(aa, v, T, holes, kh, kw, seed, full=0):
    """Masks whose slim indexes do not fit the next-smaller integer width: the complete operator is extracted with kh*kw
    'comb' images (sources on a lattice of period (kh, kw): their footprints are disjoint, so every operator entry is seen
    separately) and compared with the shift-and-add reference."""
    m = _big_mask(T, holes, kh, kw)
    H, W = m.shape
    u = ~m
    n = int(u.sum())
    assert n > T + 1 and refconv.footprint_inside(m, (kh, kw))
    mask = aa.Mask2D(mask=m.copy(), pixel_scales=PIXEL_SCALES)
    reach = _reach_fast(m, (kh, kw))
    if H * W <= 400:
        assert np.array_equal(reach, refconv.reach_region(m, (kh, kw)))
    bmask = mask.derive_mask.blurring_from(kernel_shape_native=(kh, kw))
    bm = _a(bmask).astype(bool)
    tag0 = "frame %dx%d, %d unmasked pixels (> %d), %s, kernel %dx%d" % (
        H, W, n, T, "holes + two components" if holes else "filled block", kh, kw)
    v.ok(dom.exact(~bm, reach), "blurring-region:derive_mask.blurring_from", tag0)
    v.nontrivial = True
    v.outcome = "big:%d:%s:%dx%d" % (T, "holes" if holes else "block", kh, kw)
    if not dom.exact(~bm, reach):
        return
    yy, xx = np.indices((H, W))
    flat = yy * W + xx
    wgt = (1.0 + flat / float(H * W)) * np.where((yy // kh + xx // kw) % 3 == 0, -1.0, 1.0)
    dense = image_native(seed, H, W, salt=3)
    dense[H // 3:H // 3 + 2 * kh + 2, :] = 0.0  # an exact-zero band wider than the kernel
    KA, KB = kernel_A(seed, kh, kw), kernel_B(seed, kh, kw)
    for name, K in [("A", KA)] + ([("B", KB)] if full else []):
        tag = "%s %s" % (tag0, name)
        kern = aa.Kernel2D.no_mask(values=K.copy(), pixel_scales=PIXEL_SCALES)
        conv = aa.Convolver(mask=mask, kernel=kern)
        v.ok(dom.exact(np.asarray(conv.blurring_mask).astype(bool), bm), "blurring-region:Convolver.blurring_mask", tag)
        cols = []
        for a in range(kh):
            for b in range(kw):
                c = COEFS[(a * kw + b) % len(COEFS)]
                comb = np.where((yy % kh == a) & (xx % kw == b), c * wgt, 0.0)
                seen = np.where(u | reach, comb, 0.0)
                want = refconv.convolve_native_shift(seen, K)[u]
                local = refconv.local_magnitude(seen, K)[u]
                got = _a(conv.convolve_image(image=aa.Array2D(values=comb[u], mask=mask),
                                             blurring_image=aa.Array2D(values=comb[~bm], mask=bmask)).slim)
                v.ok(_close_local(got, want, local), "convolve_image",
                     lambda: "%s | comb image (%d,%d) mod (%d,%d), coefficient %g: %s" % (tag, a, b, kh, kw, c, _diff_local(got, want, local)))
                inner = np.where(u, comb, 0.0)
                want_nb = refconv.convolve_native_shift(inner, K)[u]
                local_nb = refconv.local_magnitude(inner, K)[u]
                got = _a(conv.convolve_image_no_blurring(image=aa.Array2D(values=comb[u], mask=mask)).slim)
                v.ok(_close_local(got, want_nb, local_nb), "convolve_image_no_blurring",
                     lambda: "%s | comb image (%d,%d) mod (%d,%d), coefficient %g: %s" % (tag, a, b, kh, kw, c, _diff_local(got, want_nb, local_nb)))
                cols.append((comb[u], want_nb, local_nb))
        inner = np.where(u, dense, 0.0)
        cols.append((dense[u], refconv.convolve_native_shift(inner, K)[u], refconv.local_magnitude(inner, K)[u]))
        X = np.stack([c[0] for c in cols], axis=1)
        got = np.asarray(conv.convolve_mapping_matrix(mapping_matrix=X.copy()))
        wantX = np.stack([c[1] for c in cols], axis=1)
        localX = np.stack([c[2] for c in cols], axis=1)
        v.ok(_close_local(got, wantX, localX), "convolve_mapping_matrix",
             lambda: "%s | columns = comb images + dense signed column: %s" % (tag, _diff_local(got, wantX, localX)))

        # dense signed image with an exact-zero band, garbage outside mask + blurring region; whole-frame convolutions
        want_f = refconv.convolve_native_shift(dense, K)
        local_f = refconv.local_magnitude(dense, K)
        g1 = conv.convolve_image(image=aa.Array2D(values=dense.copy(), mask=mask), blurring_image=aa.Array2D(values=dense.copy(), mask=bmask))
        v.ok(_close_local(_a(g1.slim), want_f[u], local_f[u]) and dom.exact(_a(g1.mask), m), "convolve_image",
             lambda: "%s | dense image: %s" % (tag, _diff_local(_a(g1.slim), want_f[u], local_f[u])))
        farr = aa.Array2D.no_mask(values=dense.copy(), pixel_scales=PIXEL_SCALES)
        g2 = kern.convolved_array_from(array=farr)
        v.ok(_close_local(_a(g2.native), want_f, local_f), "Kernel2D.convolved_array_from:local-accuracy",
             lambda: "%s | dense image: %s" % (tag, _diff_local(_a(g2.native), want_f, local_f)))
        g3 = kern.convolved_array_with_mask_from(array=farr.native, mask=mask)
        v.ok(_close_local(_a(g3.slim), want_f[u], local_f[u]) and dom.exact(_a(g3.mask), m),
             "Kernel2D.convolved_array_with_mask_from:local-accuracy",
             lambda: "%s | dense image: %s" % (tag, _diff_local(_a(g3.slim), want_f[u], local_f[u])))
        v.ok(_close_local(_a(g3.slim), _a(g1.slim), local_f[u]), "whole-frame-vs-convolver:with_mask_from",
             lambda: "%s | dense image: %s" % (tag, _diff_local(_a(g3.slim), _a(g1.slim), local_f[u])))

    # simulator on the large frame (noise off, no sky): data = whole-frame convolution at every pixel
    P, _ = _unit_sum_kernels(KA, KB)
    img = np.abs(dense)
    ds = _simulator(aa, P).via_image_from(image=aa.Array2D.no_mask(values=img.copy(), pixel_scales=PIXEL_SCALES))
    want = refconv.convolve_native_shift(img, P)
    local = refconv.local_magnitude(img, P)
    v.ok(_close_local(_a(ds.data.native), want, local), "SimulatorImaging.via_image_from:data:local-accuracy",
         lambda: "%s psf |A|/sum: %s" % (tag0, _diff_local(_a(ds.data.native), want, local)))
