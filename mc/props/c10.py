"""C10 - blurring, edge and border pixel sets match their definitions for every mask.

Reference model (independent of autoarray, explicit loops):

* blurring(m, (kh, kw)): for every unmasked pixel p the footprint is the (kh x kw) window centred on p.
  If any footprint cell lies outside the array an error must be raised instead of a result; otherwise the
  blurring mask is True everywhere except the MASKED cells lying in at least one footprint.
* edge: MUST contain every unmasked pixel with a masked pixel among its in-array 8-neighbours, MUST NOT contain a
  pixel whose eight neighbours all exist and are unmasked; unmasked pixels on the outer row/column whose in-array
  neighbours are all unmasked are FREE (either answer accepted - the statement's latitude).
* border: exactly the edge pixels from which a straight walk to the array boundary in >=1 of the 4 axis directions
  meets only masked pixels (an empty walk, i.e. a pixel on the array boundary, satisfies this vacuously).  With the
  latitude of the edge set this is checked as: (lower) every MUST-edge pixel with the walk property is present,
  (upper) every returned pixel has the walk property, (consistency) a FREE pixel is in the border iff the code put
  it in its own edge set.
* views: native indices, masks and coordinate grids derived from a slim-index set must denote the same pixels as
  that slim-index set, in slim (row-major) order; coordinates are pixel centres.
"""
import numpy as np

from mc import dom
from mc.core import V

ID = "C10"
ENGINE = "scope"
CHUNK = 128
RULE = (
    "cases = (family m) every boolean mask with >=1 unmasked pixel of every shape HxW with H*W <= bound, NOT restricted "
    "to a masked outer ring, and (family w) every non-empty subset of a small window unmasked inside a larger, otherwise "
    "masked frame (so that 3- and 5-wide kernels fit for some pixels and leave the array for others); per case all 9 "
    "odd kernel shapes {1,3,5}^2 for blurring_from / Grid2D.blurring_grid_from and all edge/border views; "
    "non-trivial = the mask has a masked pixel and (some unmasked pixel is not a MUST-edge pixel, or some MUST-edge "
    "pixel is not a border pixel, or a kernel larger than 1x1 yields a result rather than the exception)"
)
ASSUMPTIONS = [
    "the pixel sets depend only on the boolean mask; pixel scales / origin only enter the coordinate-grid views "
    "affinely, so one (seed-chosen) anisotropic pixel scale and non-zero origin per run suffices",
    "kernel half-widths 0, 1, 2 in each axis (shapes {1,3,5}^2, non-square included) represent all odd kernels: "
    "the footprint test is monotone in the half-width and a 5-wide kernel already exceeds every frame of family m",
    "edge_buffed is not defined by the property statement; only the part common to its docstring and its code is "
    "checked (masked pixels are unmasked iff 8-adjacent to an unmasked pixel; MUST-edge pixels stay unmasked)",
]
BOUNDS = {
    "quick": "family m: all masks with <= 12 cells (all shapes incl. 1xN, Nx1; 35 943 masks); family w: 7x6 frame, "
    "all 4095 non-empty subsets of the 4x3 window at (1,1) and of the 4x3 window at (2,2); x 9 kernel shapes {1,3,5}^2",
    "thorough": "family m: all masks with <= 16 cells (576 600 masks); family w: 7x7 frame, all 65 535 non-empty "
    "subsets of the 4x4 window at (1,1) and at (2,2), plus the quick windows; x 9 kernel shapes {1,3,5}^2",
}

KERNELS = [(1, 1), (1, 3), (3, 1), (3, 3), (1, 5), (5, 1), (3, 5), (5, 3), (5, 5)]

PS_MENU = [(1.0, 2.0), (0.7, 0.7), (0.05, 0.1), (2.0, 0.5), (0.3, 1.7)]
OR_MENU = [(0.5, -1.0), (0.0, 0.0), (-0.25, 3.0), (10.0, 0.125), (-1.3, -0.7)]

WINDOWS = {
    "quick": [(7, 6, 1, 1, 4, 3), (7, 6, 2, 2, 4, 3)],
    "thorough": [(7, 6, 1, 1, 4, 3), (7, 6, 2, 2, 4, 3), (7, 7, 1, 1, 4, 4), (7, 7, 2, 2, 4, 4)],
}


def geometry(seed):
    """Seed-chosen value menu entry (pixel scales, origin); never selects which masks run."""
    s = int(seed)
    ps = PS_MENU[s % len(PS_MENU)]
    og = OR_MENU[(s + s // len(PS_MENU)) % len(OR_MENU)]
    return [ps[0], ps[1], og[0], og[1]]


def cases(tier, seed):
    geo = geometry(seed)
    n = 12 if tier == "quick" else 16
    # simplest first: all masks up to 9 cells, then the window family, then the rest of family m
    for (h, w, bits) in dom.all_mask_cases(9):
        yield ["m", h, w, bits] + geo
    for (H, W, y0, x0, hh, ww) in WINDOWS[tier]:
        for bits in range(1, 2 ** (hh * ww)):
            yield ["w", H, W, y0, x0, hh, ww, bits] + geo
    for (h, w, bits) in dom.all_mask_cases(n):
        if h * w > 9:
            yield ["m", h, w, bits] + geo


def mask_of(case):
    if case[0] == "m":
        _, h, w, bits = case[:4]
        return dom.mask_from_bits(h, w, bits), case[4:8]
    _, H, W, y0, x0, hh, ww, bits = case[:8]
    m = np.ones((H, W), dtype=bool)
    for k in range(hh * ww):
        if (bits >> k) & 1:  # bit set <=> UNMASKED
            m[y0 + k // ww, x0 + k % ww] = False
    return m, case[8:12]


# ----------------------------------------------------------------------------- reference model

N8 = [(-1, -1), (-1, 0), (-1, 1), (0, -1), (0, 1), (1, -1), (1, 0), (1, 1)]


def ref_unmasked(m):
    """Row-major list of unmasked pixels == pixel of slim index k."""
    H, W = m.shape
    return [(i, j) for i in range(H) for j in range(W) if not m[i, j]]


def ref_edge_classes(m):
    H, W = m.shape
    must, mustnot, free = set(), set(), set()
    for i in range(H):
        for j in range(W):
            if m[i, j]:
                continue
            has_masked = False
            all_exist = True
            for di, dj in N8:
                a, b = i + di, j + dj
                if 0 <= a < H and 0 <= b < W:
                    if m[a, b]:
                        has_masked = True
                else:
                    all_exist = False
            if has_masked:
                must.add((i, j))
            elif all_exist:
                mustnot.add((i, j))
            else:
                free.add((i, j))
    return must, mustnot, free


def ref_walk(m, i, j):
    """True iff in >=1 axis direction every pixel between (i,j) and the array boundary is masked."""
    H, W = m.shape
    up = all(m[a, j] for a in range(0, i))
    down = all(m[a, j] for a in range(i + 1, H))
    left = all(m[i, b] for b in range(0, j))
    right = all(m[i, b] for b in range(j + 1, W))
    return up or down or left or right


def ref_blurring(m, kh, kw):
    """Returns None if a footprint leaves the array, else the expected blurring mask."""
    H, W = m.shape
    hy, hx = (kh - 1) // 2, (kw - 1) // 2
    out = np.ones((H, W), dtype=bool)
    for i in range(H):
        for j in range(W):
            if m[i, j]:
                continue
            if i - hy < 0 or i + hy > H - 1 or j - hx < 0 or j + hx > W - 1:
                return None
            for a in range(i - hy, i + hy + 1):
                for b in range(j - hx, j + hx + 1):
                    if m[a, b]:
                        out[a, b] = False
    return out


def ref_centres(pixels, shape, geo):
    H, W = shape
    psy, psx, oy, ox = geo
    cy, cx = (H - 1) / 2.0, (W - 1) / 2.0
    return np.array([[(cy - i) * psy + oy, (j - cx) * psx + ox] for (i, j) in pixels], dtype=float).reshape(-1, 2)


def coords_close(got, want, geo, shape):
    got = np.asarray(got, dtype=float)
    if got.shape != want.shape:
        return False
    if want.size == 0:
        return True
    scale = max(abs(geo[2]), abs(geo[3]), geo[0] * shape[0], geo[1] * shape[1], 1e-3)
    return bool(np.max(np.abs(got - want)) <= 1e-12 * scale)


def mask_with(shape, pixels):
    out = np.ones(shape, dtype=bool)
    for (i, j) in pixels:
        out[i, j] = False
    return out


def as_index_list(arr, n):
    """Returns (list of ints, problem string or None) for a returned slim-index array."""
    a = np.asarray(arr)
    if a.ndim != 1:
        return None, "not 1D: shape %s" % (a.shape,)
    if a.size and not np.issubdtype(a.dtype, np.integer):
        return None, "not integer dtype: %s" % a.dtype
    lst = [int(x) for x in a]
    if any(x < 0 or x >= n for x in lst):
        return None, "index out of range [0,%d): %s" % (n, lst)
    return lst, None


# ----------------------------------------------------------------------------- the check


class V10(V):
    """V that records at most one violation per finding class per case (so class counts are case counts)."""

    __slots__ = ("seen", "suffix")

    def __init__(self, pid):
        V.__init__(self, pid)
        self.seen = set()
        self.suffix = ""

    def ok(self, cond, finding, msg=""):
        return V.ok(self, cond, finding + self.suffix if not cond else finding, msg)

    def fail(self, finding, msg="", counted=False):
        if self.suffix and not finding.endswith(self.suffix):
            finding = finding + self.suffix
        if finding in self.seen:
            if not counted:
                self.checks += 1
            return
        self.seen.add(finding)
        V.fail(self, finding, msg, counted)


def attempt(fn):
    """(value, None) or (None, 'Type: message') - so one failing view does not hide the other observations."""
    try:
        return fn(), None
    except Exception as e:  # reported by the caller under the finding class of the call site
        return None, "%s: %s" % (type(e).__name__, str(e)[:200])


def run_case(case):
    import autoarray as aa
    from autoarray import exc

    v = V10(ID)
    m, geo = mask_of(case)
    geo = [float(g) for g in geo]
    mask = aa.Mask2D(mask=m.copy(), pixel_scales=(geo[0], geo[1]), origin=(geo[2], geo[3]))
    _check_mask(aa, exc, v, mask, m, geo, case, "")
    keep = (v.nontrivial, v.outcome)
    # ---- history: views were read on `mask`; a copy of it, then the mask object itself, is edited in place (one more pixel
    # masked) and every view is read again: each must describe the edited mask, not the mask as it was first read
    u = np.argwhere(~m)
    if case[0] == "m" and len(u) >= 2 and m.size <= 9:
        y0, x0 = (int(t) for t in u[len(u) // 2])
        m2 = m.copy()
        m2[y0, x0] = True
        ed = mask.copy()
        ed[y0, x0] = True
        v.suffix = ":after-edit-of-copy"
        _check_mask(aa, exc, v, ed, m2, geo, case, "")
        mask[y0, x0] = True
        v.suffix = ":after-in-place-edit"
        _check_mask(aa, exc, v, mask, m2, geo, case, "")
        v.suffix = ""
    v.nontrivial, v.outcome = keep
    return v.result()


def _check_mask(aa, exc, v, mask, m, geo, case, _unused):
    H, W = m.shape

    px = ref_unmasked(m)
    n = len(px)
    must, mustnot, free = ref_edge_classes(m)
    ring = dom.touches_frame(m)
    sfx = ":outer-ring" if ring else ""
    desc = lambda: "mask=%s" % m.astype(int).tolist()

    # ------------------------------------------------------------------ edge
    di = mask.derive_indexes
    fe = "edge_slim" + sfx
    e_raw, err = attempt(lambda: np.array(di.edge_slim))
    if err is not None:
        e_raw, e_lst, prob = np.zeros(0), None, "raised " + err
    else:
        e_lst, prob = as_index_list(e_raw, n)
    v.ok(prob is None, fe, lambda: "%s edge_slim=%s %s" % (desc(), e_raw.tolist(), prob))
    edge_valid = False
    e_set = set()
    if e_lst is not None:
        e_px = [px[k] for k in e_lst]
        e_set = set(e_px)
        c1 = v.ok(
            all(e_lst[k] < e_lst[k + 1] for k in range(len(e_lst) - 1)),
            fe,
            lambda: "%s edge_slim not strictly increasing: %s" % (desc(), e_lst),
        )
        c2 = v.ok(
            must <= e_set,
            fe,
            lambda: "%s edge_slim=%s (pixels %s) misses pixels with a masked 8-neighbour: %s (slim %s)"
            % (desc(), e_lst, e_px, sorted(must - e_set), sorted(px.index(p) for p in must - e_set)),
        )
        c3 = v.ok(
            not (e_set & mustnot),
            fe,
            lambda: "%s edge_slim=%s contains pixels whose 8 neighbours all exist and are unmasked: %s"
            % (desc(), e_lst, sorted(e_set & mustnot)),
        )
        edge_valid = c1 and c2 and c3
        check_views(aa, v, mask, m, geo, "edge", e_lst, px)

    # ------------------------------------------------------------------ border
    fb = "border_slim" + sfx
    b_raw, err = attempt(lambda: np.array(di.border_slim))
    if err is not None:
        b_raw, b_lst, prob_b = np.zeros(0), None, "raised " + err
    else:
        b_lst, prob_b = as_index_list(b_raw, n)
    v.ok(prob_b is None, fb, lambda: "%s border_slim=%s %s" % (desc(), b_raw.tolist(), prob_b))
    b_set = set()
    must_border = set(p for p in must if ref_walk(m, p[0], p[1]))
    if b_lst is not None:
        b_px = [px[k] for k in b_lst]
        b_set = set(b_px)
        v.ok(
            all(b_lst[k] < b_lst[k + 1] for k in range(len(b_lst) - 1)),
            fb,
            lambda: "%s border_slim not strictly increasing: %s" % (desc(), b_lst),
        )
        v.ok(
            must_border <= b_set,
            fb,
            lambda: "%s border_slim=%s (pixels %s) misses edge pixels with an all-masked axis walk: %s (slim %s)"
            % (desc(), b_lst, b_px, sorted(must_border - b_set), sorted(px.index(p) for p in must_border - b_set)),
        )
        bad = [p for p in b_px if not ref_walk(m, p[0], p[1]) or p in mustnot]
        v.ok(
            not bad,
            fb,
            lambda: "%s border_slim=%s contains pixels with no all-masked axis walk / non-edge pixels: %s"
            % (desc(), b_lst, bad),
        )
        if edge_valid:
            # latitude: a FREE pixel (always has an empty walk) is a border pixel iff the code calls it an edge pixel
            incons = [p for p in sorted(free) if (p in b_set) != (p in e_set)]
            v.ok(
                not incons,
                "border_slim-vs-edge_slim:free-pixels",
                lambda: "%s pixels on the array boundary with no masked neighbour are treated differently by "
                "edge_slim=%s and border_slim=%s: %s" % (desc(), e_lst, b_lst, incons),
            )
        check_views(aa, v, mask, m, geo, "border", b_lst, px)

    # ------------------------------------------------------------------ edge_buffed (weak: see ASSUMPTIONS)
    eb, err = attempt(lambda: np.array(mask.derive_mask.edge_buffed))
    if err is not None:
        eb = np.zeros(0)
        v.fail("edge_buffed", "%s edge_buffed raised %s" % (desc(), err))
    ok_eb = eb.shape == m.shape and eb.dtype == bool
    if ok_eb:
        for i in range(H):
            for j in range(W):
                if m[i, j]:
                    adj = any(
                        0 <= i + a < H and 0 <= j + b < W and not m[i + a, j + b] for (a, b) in N8
                    )
                    if bool(eb[i, j]) != (not adj):
                        ok_eb = False
                elif (i, j) in must and eb[i, j]:
                    ok_eb = False
    v.ok(ok_eb, "edge_buffed", lambda: "%s edge_buffed=%s" % (desc(), eb.astype(int).tolist()))

    # ------------------------------------------------------------------ blurring
    n_res = 0
    n_res_big = 0
    for (kh, kw) in KERNELS:
        want = ref_blurring(m, kh, kw)
        kd = lambda: "%s kernel=%s" % (desc(), (kh, kw))
        bl_returned = None
        for site in ("blurring_from", "blurring_grid_from"):
            got, err = None, None
            try:
                if site == "blurring_from":
                    got = mask.derive_mask.blurring_from(kernel_shape_native=(kh, kw))
                else:
                    got = aa.Grid2D.blurring_grid_from(mask=mask, kernel_shape_native=(kh, kw))
            except Exception as e:
                err = e
            if want is None:
                if err is None:
                    v.fail(
                        site + ":no-exception",
                        lambda: "%s: a footprint leaves the array but a result was returned: %s"
                        % (kd(), np.array(got.mask if site == "blurring_grid_from" else got).astype(int).tolist()),
                    )
                else:
                    v.ok(
                        isinstance(err, exc.MaskException),
                        site + ":exception-type",
                        lambda: "%s raised %s (%s) instead of exc.MaskException" % (kd(), type(err).__name__, err),
                    )
                continue
            if err is not None:
                v.fail(
                    site + ":spurious-exception",
                    lambda: "%s: every footprint is inside the array but %s was raised: %s" % (kd(), type(err).__name__, err),
                )
                continue
            if site == "blurring_from":
                n_res += 1
                n_res_big += 1 if (kh, kw) != (1, 1) else 0
                g = np.array(got)
                v.ok(
                    g.shape == want.shape and g.dtype == bool and bool(np.array_equal(g, want)),
                    "blurring_from",
                    lambda: "%s got=%s want=%s" % (kd(), g.astype(int).tolist(), want.astype(int).tolist()),
                )
                bl_returned = g
            else:
                # the grid view must denote the pixels of the blurring mask the library itself returned, in slim order
                ref_m = bl_returned if (bl_returned is not None and bl_returned.shape == m.shape) else want
                bpx = ref_unmasked(ref_m)
                gm = np.array(got.mask)
                v.ok(
                    gm.shape == ref_m.shape and bool(np.array_equal(gm, ref_m)),
                    "views-disagree:blurring_grid_from",
                    lambda: "%s grid.mask=%s blurring mask=%s" % (kd(), gm.astype(int).tolist(), ref_m.astype(int).tolist()),
                )
                gc = np.array(got.slim)
                wc = ref_centres(bpx, m.shape, geo)
                v.ok(
                    coords_close(gc, wc, geo, m.shape),
                    "views-disagree:blurring_grid_from",
                    lambda: "%s grid=%s want centres of %s = %s" % (kd(), gc.tolist(), bpx, wc.tolist()),
                )

    v.nontrivial = bool(m.any()) and (must != set(px) or must_border != must or n_res_big > 0)
    v.outcome = "%s:n%d:e%d:b%d:res%d" % (case[0], n, len(e_set), len(b_set), n_res)
    return v.result()


def check_views(aa, v, mask, m, geo, which, lst, px):
    """native / mask / grid views of the slim-index set `lst` (as returned by the library) denote the same pixels."""
    want_px = [px[k] for k in lst]
    ordered = sorted(set(want_px))  # slim order == row-major order
    desc = lambda: "mask=%s %s_slim=%s" % (m.astype(int).tolist(), which, lst)

    want_m = mask_with(m.shape, ordered)
    wc = ref_centres(ordered, m.shape, geo)

    nat, err = attempt(lambda: np.array(getattr(mask.derive_indexes, which + "_native")))
    want_nat = np.array(want_px, dtype=int).reshape(-1, 2)
    v.ok(
        err is None
        and nat.shape == want_nat.shape
        and np.issubdtype(nat.dtype, np.integer)
        and bool(np.array_equal(nat, want_nat)),
        "views-disagree:%s_native" % which,
        lambda: "%s %s_native=%s want %s" % (desc(), which, err or nat.tolist(), want_nat.tolist()),
    )

    dm, err = attempt(lambda: np.array(getattr(mask.derive_mask, which)))
    v.ok(
        err is None and dm.shape == want_m.shape and dm.dtype == bool and bool(np.array_equal(dm, want_m)),
        "views-disagree:derive_mask.%s" % which,
        lambda: "%s derive_mask.%s=%s want %s"
        % (desc(), which, err or dm.astype(int).tolist(), want_m.astype(int).tolist()),
    )

    def grid_view():
        g = getattr(mask.derive_grid, which)
        return np.array(g.slim), np.array(g.mask)

    gg, err = attempt(grid_view)
    v.ok(
        err is None
        and coords_close(gg[0], wc, geo, m.shape)
        and gg[1].shape == want_m.shape
        and bool(np.array_equal(gg[1], want_m)),
        "views-disagree:derive_grid.%s" % which,
        lambda: "%s derive_grid.%s=%s want centres of %s = %s"
        % (desc(), which, err or (gg[0].tolist(), gg[1].astype(int).tolist()), ordered, wc.tolist()),
    )
