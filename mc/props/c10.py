"""C10 - blurring, edge and border pixel sets match their definitions for every mask.

Reference model (independent of autoarray, explicit loops):

* blurring(m, (kh, kw)): for every unmasked pixel p the footprint is the (kh x kw) window centred on p.
  If any footprint cell lies outside the array an error must be raised instead of a result; otherwise the
  blurring mask is True everywhere except the MASKED cells lying in at least one footprint.
* edge: MUST contain every unmasked pixel with a masked pixel among its in-array 8-neighbours, MUST NOT contain a
  pixel whose eight neighbours all exist and are unmasked; unmasked pixels on the outer row/column whose in-array
  neighbours are all unmasked are FREE (either answer accepted - the statement's latitude).
* border: exactly the edge pixels from which a straight walk to the array boundary in >=1 of the 4 axis directions
  meets only masked pixels (an empty walk, i.e. a pixel on the array boundary, satisfies this vacuously).  With the
  latitude of the edge set this is checked as: (lower) every MUST-edge pixel with the walk property is present,
  (upper) every returned pixel has the walk property, (consistency) a FREE pixel is in the border iff the code put
  it in its own edge set.
* views: native indices, masks and coordinate grids derived from a slim-index set must denote the same pixels as
  that slim-index set, in slim (row-major) order; coordinates are pixel centres.  Order is demanded of every view on
  its own: slim indexes strictly increasing, native rows in row-major order, k-th unmasked pixel of the mask view ==
  pixel of the k-th slim index, k-th grid row == centre of that pixel.
"""
import numpy as np

from mc import dom
from mc.core import V

ID = "C10"
ENGINE = "scope"
CHUNK = 128
RULE = (
    "cases = (family m) every boolean mask with >=1 unmasked pixel of every shape HxW with H*W <= bound, NOT restricted "
    "to a masked outer ring, (family w) every non-empty subset of a small window unmasked inside a larger, otherwise "
    "masked frame (so that 3- and 5-wide kernels fit for some pixels and leave the array for others), and structured "
    "large masks given by completely enumerated integer parameter boxes: (family r) rectangular annuli = a rectangle "
    "with a rectangular masked hole, all four ring thicknesses independent, optionally an unmasked island inside the "
    "hole, plus square rings of uniform thickness up to 40x40; (family d) discs and concentric circular annuli in exact "
    "integer arithmetic, centred on a pixel centre / corner / side; (family t) unions of two rectangles, touching or "
    "separated by a masked gap, side by side or stacked, with every relative shift; (family b) filled blocks up to "
    "66x70 whose slim indexes exceed 127, 255 and 4095; per case all odd kernel shapes {1,3,5}^2 (thorough: also "
    "{1,3,5,7}^2 at margin 3) for blurring_from / Grid2D.blurring_grid_from and all edge/border views, each view "
    "(slim, native, mask, grid) checked for the pixel SET and, explicitly, for slim ORDER; "
    "non-trivial = the mask has a masked pixel and (some unmasked pixel is not a MUST-edge pixel, or some MUST-edge "
    "pixel is not a border pixel, or a kernel larger than 1x1 yields a result rather than the exception)"
)
ASSUMPTIONS = [
    "the pixel sets depend only on the boolean mask; pixel scales / origin only enter the coordinate-grid views "
    "affinely, so one (seed-chosen) anisotropic pixel scale and non-zero origin per run suffices",
    "kernel half-widths 0, 1, 2 (thorough: 3) in each axis (shapes {1,3,5}^2 / {1,3,5,7}^2, non-square included) "
    "represent all odd kernels: the footprint test is monotone in the half-width, a 5-wide kernel already exceeds every "
    "frame of family m, and the structured families contain holes / gaps both narrower and wider than every half-width",
    "masks larger than the exhaustive bound of family m are represented by the structured families r, d, t, b (convex "
    "blocks, holes with interior pixels further than a half-width from every border pixel, islands inside holes, two "
    "components facing each other, concave unions); arbitrary topology is only exhaustive within families m and w",
    "order of the views is checked up to slim indexes of about 4600 (66x70 block); quick has a few dozen masks with "
    "more than 127 unmasked pixels, thorough every block 8..40 x 8..40",
    "edge_buffed is not defined by the property statement; only the part common to its docstring and its code is "
    "checked (masked pixels are unmasked iff 8-adjacent to an unmasked pixel; MUST-edge pixels stay unmasked)",
]
BOUNDS = {
    "quick": "family m: all masks with <= 12 cells (all shapes incl. 1xN, Nx1; 35 943 masks); family w: 7x6 frame, "
    "all 4095 non-empty subsets of the 4x3 window at (1,1) and of the 4x3 window at (2,2); structured (4861 masks, "
    "margin 2 unless stated): r = every rectangle 3..7 x 3..7 with every closed rectangular hole (thicknesses >= 1 on "
    "all four sides) without / with the island inset by 1, plus square rings n=8..15 of every uniform thickness and "
    "n=20,30,40 of thickness 1,2,5 (1415); d = frames 13x13, 14x14, 13x14, 14x13, 15x15, every doubled outer radius "
    "2..side-5 and every doubled hole radius none,0..R-1 (distinct pixel sets), plus 12 discs / annuli of diameter "
    "15..40 (178); t = rectangle sides {2,3,5}^4, gap 0..3, shift -2..2, both arrangements (3240); b = blocks "
    "{10,12,16,24,40}^2, 66x70, 12x13 at margin 0, 17x12 at margin 1 (28); x 9 kernel shapes {1,3,5}^2",
    "thorough": "family m: all masks with <= 16 cells (576 600 masks); family w: 7x7 frame, all 65 535 non-empty "
    "subsets of the 4x4 window at (1,1) and at (2,2), plus the quick windows; structured (70 949 masks): r = "
    "rectangles 3..9 x 3..9, every closed hole, island inset 0,1,2, at margin 2 and (kernels {1,3,5,7}^2) at margin 3; "
    "rectangles 3..7 with holes open to the outside (thickness 0 allowed); rectangles 3..6 at margins (1,2,3,2) and "
    "(0,2,2,0); square rings 8..40; d = every frame 9..15 x 9..15 with every radius pair, plus discs / annuli of every "
    "doubled radius 11..40 in three centrings with every third hole radius; t = rectangle sides {1..5}^4, gap 0..4, "
    "shift -3..3 at margin 2 and sides {2,3,5}^4, gap 1..3, shift {-2,0,1} at margin 3 with kernels up to 7; b = every "
    "block 8..40 x 8..40, 66x70, 70x66, 100x50, blocks {12,13,17}^2 at margins 0 and 1, {12,16,23,40}^2 at margin 3 "
    "with kernels up to 7; x 9 kernel shapes {1,3,5}^2 unless stated",
}

KERNELS = [(1, 1), (1, 3), (3, 1), (3, 3), (1, 5), (5, 1), (3, 5), (5, 3), (5, 5)]

PS_MENU = [(1.0, 2.0), (0.7, 0.7), (0.05, 0.1), (2.0, 0.5), (0.3, 1.7)]
OR_MENU = [(0.5, -1.0), (0.0, 0.0), (-0.25, 3.0), (10.0, 0.125), (-1.3, -0.7)]

WINDOWS = {
    "quick": [(7, 6, 1, 1, 4, 3), (7, 6, 2, 2, 4, 3)],
    "thorough": [(7, 6, 1, 1, 4, 3), (7, 6, 2, 2, 4, 3), (7, 7, 1, 1, 4, 4), (7, 7, 2, 2, 4, 4)],
}


def geometry(seed):
    """Seed-chosen value menu entry (pixel scales, origin); never selects which masks run."""
    s = int(seed)
    ps = PS_MENU[s % len(PS_MENU)]
    og = OR_MENU[(s + s // len(PS_MENU)) % len(OR_MENU)]
    return [ps[0], ps[1], og[0], og[1]]


def cases(tier, seed):
    geo = geometry(seed)
    n = 12 if tier == "quick" else 16
    # simplest first: all masks up to 9 cells, then the window family, then the structured large masks (the few slow ones
    # spread out so that no chunk collects them), then the rest of family m
    for (h, w, bits) in dom.all_mask_cases(9):
        yield ["m", h, w, bits] + geo
    for (H, W, y0, x0, hh, ww) in WINDOWS[tier]:
        for bits in range(1, 2 ** (hh * ww)):
            yield ["w", H, W, y0, x0, hh, ww, bits] + geo
    for head in structured_cases(tier):
        yield head + geo
    for (h, w, bits) in dom.all_mask_cases(n):
        if h * w > 9:
            yield ["m", h, w, bits] + geo


# ----------------------------------------------------------------------------- structured large masks (families r, d, t, b)
#
# Every family is a completely enumerated parameter box; the mask is a pure function of the integer parameters, so a
# case is replayable from its JSON form.  The last entry of every head is kmax: the blurring kernels are all odd shapes
# {1,3,..,kmax}^2.


def ra_mask(gt, gb, gl, gr, oh, ow, t, b, l, r, isl):
    """Rectangle oh x ow at margins (gt, gb, gl, gr) inside the frame, with a rectangular masked hole leaving
    thicknesses (t, b, l, r) of unmasked pixels on its four sides (a thickness of 0 opens the hole to the outside: U / C /
    two-bar shapes) and, if isl > 0, an unmasked island = the hole shrunk by isl on every side (a mask inside a hole)."""
    m = np.ones((gt + oh + gb, gl + ow + gr), dtype=bool)
    m[gt:gt + oh, gl:gl + ow] = False
    y0, y1, x0, x1 = gt + t, gt + oh - b, gl + l, gl + ow - r
    if y1 > y0 and x1 > x0:
        m[y0:y1, x0:x1] = True
        if isl > 0 and y1 - y0 > 2 * isl and x1 - x0 > 2 * isl:
            m[y0 + isl:y1 - isl, x0 + isl:x1 - isl] = False
    return m


def da_mask(H, W, R, r):
    """Disc / circular annulus about the frame centre in exact integer arithmetic: with doubled coordinates
    (2i-(H-1), 2j-(W-1)) a pixel is unmasked iff r^2 < d^2 <= R^2 (r < 0: no hole).  Odd frame sides put the centre on a
    pixel centre, even sides on a pixel corner, mixed sides on the middle of a pixel side."""
    yy = (2 * np.arange(H) - (H - 1))[:, None]
    xx = (2 * np.arange(W) - (W - 1))[None, :]
    d2 = yy * yy + xx * xx
    u = d2 <= R * R
    if r >= 0:
        u &= d2 > r * r
    return ~u


def tc_mask(g, ah, aw, bh, bw, side, gap, shift):
    """Union of two rectangles A (ah x aw) and B (bh x bw): side 0 puts B to the right of A behind `gap` masked columns,
    shifted down by `shift` rows (negative: up); side 1 puts B below A behind `gap` masked rows, shifted right by `shift`
    columns.  gap 0 makes them touch (one L / T / step shaped component), gap >= 1 gives two components.  g is the margin
    between the bounding box of the union and the frame."""
    if side == 0:
        ay, ax, by, bx = max(0, -shift), 0, max(0, shift), aw + gap
    else:
        ay, ax, by, bx = 0, max(0, -shift), ah + gap, max(0, shift)
    hh = max(ay + ah, by + bh)
    ww = max(ax + aw, bx + bw)
    m = np.ones((hh + 2 * g, ww + 2 * g), dtype=bool)
    m[g + ay:g + ay + ah, g + ax:g + ax + aw] = False
    m[g + by:g + by + bh, g + bx:g + bx + bw] = False
    return m


def bk_mask(g, h, w):
    """Filled h x w block at margin g."""
    m = np.ones((h + 2 * g, w + 2 * g), dtype=bool)
    m[g:g + h, g:g + w] = False
    return m


def _ra_heads(sizes, lo, isls, margins, kmax):
    for (oh, ow) in sizes:
        for t in range(lo, oh):
            for b in range(lo, oh - t):
                for l in range(lo, ow):
                    for r in range(lo, ow - l):
                        if t == b == l == r == 0:
                            continue  # hole == whole rectangle: nothing unmasked
                        for isl in isls:
                            if isl > 0 and not (oh - t - b > 2 * isl and ow - l - r > 2 * isl):
                                continue  # no room for an island: same mask as isl == 0
                            yield ["r"] + list(margins) + [oh, ow, t, b, l, r, isl, kmax]


def _ring_heads(ns, ts, isls, g, kmax):
    """Square frames-with-holes n x n of uniform thickness t (members of family r far beyond its complete box)."""
    for n in ns:
        for t in ts(n):
            if n - 2 * t < 1:
                continue
            for isl in isls:
                if isl > 0 and not (n - 2 * t > 2 * isl):
                    continue
                yield ["r", g, g, g, g, n, n, t, t, t, t, isl, kmax]


def _da_heads(frames, g, kmax, rs=None):
    for (H, W) in frames:
        seen = set()
        for R in range(2, min(H, W) - 2 * g):
            for r in (range(-1, R) if rs is None else rs(R)):
                key = da_mask(H, W, R, r).tobytes()
                if key in seen or not (~da_mask(H, W, R, r)).any():
                    continue  # same pixel set as a smaller (R, r) / empty
                seen.add(key)
                yield ["d", H, W, R, r, kmax]


def _tc_heads(dims, gaps, shifts, g, kmax):
    for ah in dims:
        for aw in dims:
            for bh in dims:
                for bw in dims:
                    for side in (0, 1):
                        for gap in gaps:
                            for shift in shifts:
                                yield ["t", g, ah, aw, bh, bw, side, gap, shift, kmax]


def _square(lo, hi):
    return [(a, b) for a in range(lo, hi + 1) for b in range(lo, hi + 1)]


def structured_cases(tier):
    quick = tier == "quick"
    cheap, big = [], []
    # family r: rectangular annuli (closed holes, optional island), complete box
    cheap += _ra_heads(_square(3, 7), 1, (0, 1), (2, 2, 2, 2), 5)
    cheap += _ring_heads(range(8, 16), lambda n: range(1, (n - 1) // 2 + 1), (0, 1), 2, 5)
    # family d: discs with and without concentric holes in 12..15-pixel frames (pixel-, corner- and side-centred)
    cheap += _da_heads([(13, 13), (14, 14), (13, 14), (14, 13), (15, 15)] if quick else _square(9, 15), 2, 5)
    # family t: unions of two rectangles
    if quick:
        cheap += _tc_heads((2, 3, 5), (0, 1, 2, 3), (-2, -1, 0, 1, 2), 2, 5)
    else:
        cheap += _tc_heads((1, 2, 3, 4, 5), (0, 1, 2, 3, 4), (-3, -2, -1, 0, 1, 2, 3), 2, 5)
        cheap += _tc_heads((2, 3, 5), (1, 2, 3), (-2, 0, 1), 3, 7)
        cheap += _ra_heads(_square(3, 9), 1, (0, 1, 2), (2, 2, 2, 2), 5)  # repeats the quick box: kept for simplicity
        cheap += _ra_heads(_square(3, 9), 1, (0, 1), (3, 3, 3, 3), 7)
        cheap += _ra_heads(_square(3, 7), 0, (0,), (2, 2, 2, 2), 5)  # holes open to the outside (U / C / bars)
        cheap += _ra_heads(_square(3, 6), 1, (0, 1), (1, 2, 3, 2), 5)  # margins smaller / larger than the half-widths
        cheap += _ra_heads(_square(3, 6), 1, (0,), (0, 2, 2, 0), 5)
    # large members (slim indexes beyond 127, 255, 4095): filled blocks, thick and thin rings, discs and annuli
    if quick:
        big += [["b", 2, h, w, 5] for h in (10, 12, 16, 24, 40) for w in (10, 12, 16, 24, 40)]
        big += [["b", 2, 66, 70, 5], ["b", 0, 12, 13, 5], ["b", 1, 17, 12, 5]]
        big += _ring_heads((20, 30, 40), lambda n: (1, 2, 5), (0, 1), 2, 5)
        for (H, W, R) in [(19, 19, 14), (21, 20, 15), (31, 31, 26), (44, 45, 39)]:
            big += [["d", H, W, R, r, 5] for r in (-1, R // 3, R - 5)]
    else:
        big += [["b", 2, h, w, 5] for (h, w) in _square(8, 40)]
        big += [["b", g, h, w, 5] for g in (0, 1) for h in (12, 13, 17) for w in (12, 13, 17)]
        big += [["b", 3, h, w, 7] for h in (12, 16, 23, 40) for w in (12, 16, 23, 40)]
        big += [["b", 2, 66, 70, 5], ["b", 2, 70, 66, 5], ["b", 2, 100, 50, 5]]
        big += _ring_heads(range(16, 41), lambda n: range(1, (n - 1) // 2 + 1, 2), (0, 1), 2, 5)
        for R in range(11, 41):
            for (ph, pw) in ((0, 0), (1, 1), (0, 1)):
                H, W = R + 5 + (R + ph) % 2, R + 5 + (R + pw) % 2
                big += [["d", H, W, R, r, 5] for r in range(-1, R, 3)]
    seen = set()
    step = max(1, len(cheap) // (len(big) + 1))
    big = list(reversed(big))
    for k, head in enumerate(cheap):
        if k % step == 0 and big:
            yield big.pop()
        if tuple(head) in seen:
            continue
        seen.add(tuple(head))
        yield head
    while big:
        yield big.pop()


STRUCT = {
    "r": (lambda a: ra_mask(*a[:11]), "rect-annulus(margins t,b,l,r=%d,%d,%d,%d; outer %dx%d; ring thickness t,b,l,r=%d,%d,%d,%d; island inset %d)"),
    "d": (lambda a: da_mask(*a[:4]), "disc(frame %dx%d; doubled radii outer %d, hole %d)"),
    "t": (lambda a: tc_mask(*a[:8]), "two-rectangles(margin %d; A %dx%d; B %dx%d; side %d; gap %d; shift %d)"),
    "b": (lambda a: bk_mask(*a[:3]), "block(margin %d; %dx%d)"),
}


def mask_of(case):
    if case[0] == "m":
        _, h, w, bits = case[:4]
        return dom.mask_from_bits(h, w, bits), case[4:8]
    if case[0] in STRUCT:
        return STRUCT[case[0]][0]([int(a) for a in case[1:-5]]), case[-4:]
    _, H, W, y0, x0, hh, ww, bits = case[:8]
    m = np.ones((H, W), dtype=bool)
    for k in range(hh * ww):
        if (bits >> k) & 1:  # bit set <=> UNMASKED
            m[y0 + k // ww, x0 + k % ww] = False
    return m, case[8:12]


def label_of(case, m):
    """Compact description of a structured mask for messages (the full pixel list of a 40x40 mask is useless)."""
    if case[0] not in STRUCT:
        return None
    return "%s shape=%dx%d unmasked=%d" % (
        STRUCT[case[0]][1] % tuple(int(a) for a in case[1:-5]), m.shape[0], m.shape[1], int((~m).sum()))


def kernels_of(case):
    if case[0] not in STRUCT or int(case[-5]) == 5:
        return KERNELS
    odd = range(1, int(case[-5]) + 1, 2)
    return [(a, b) for a in odd for b in odd]


# ----------------------------------------------------------------------------- reference model

N8 = [(-1, -1), (-1, 0), (-1, 1), (0, -1), (0, 1), (1, -1), (1, 0), (1, 1)]


def ref_unmasked(m):
    """Row-major list of unmasked pixels == pixel of slim index k."""
    H, W = m.shape
    return [(i, j) for i in range(H) for j in range(W) if not m[i, j]]


def ref_edge_classes(m):
    H, W = m.shape
    must, mustnot, free = set(), set(), set()
    for i in range(H):
        for j in range(W):
            if m[i, j]:
                continue
            has_masked = False
            all_exist = True
            for di, dj in N8:
                a, b = i + di, j + dj
                if 0 <= a < H and 0 <= b < W:
                    if m[a, b]:
                        has_masked = True
                else:
                    all_exist = False
            if has_masked:
                must.add((i, j))
            elif all_exist:
                mustnot.add((i, j))
            else:
                free.add((i, j))
    return must, mustnot, free


def ref_walk(m, i, j):
    """True iff in >=1 axis direction every pixel between (i,j) and the array boundary is masked."""
    H, W = m.shape
    up = all(m[a, j] for a in range(0, i))
    down = all(m[a, j] for a in range(i + 1, H))
    left = all(m[i, b] for b in range(0, j))
    right = all(m[i, b] for b in range(j + 1, W))
    return up or down or left or right


def ref_blurring(m, kh, kw):
    """Returns None if a footprint leaves the array, else the expected blurring mask."""
    H, W = m.shape
    hy, hx = (kh - 1) // 2, (kw - 1) // 2
    out = np.ones((H, W), dtype=bool)
    for i in range(H):
        for j in range(W):
            if m[i, j]:
                continue
            if i - hy < 0 or i + hy > H - 1 or j - hx < 0 or j + hx > W - 1:
                return None
            for a in range(i - hy, i + hy + 1):
                for b in range(j - hx, j + hx + 1):
                    if m[a, b]:
                        out[a, b] = False
    return out


def ref_centres(pixels, shape, geo):
    H, W = shape
    psy, psx, oy, ox = geo
    cy, cx = (H - 1) / 2.0, (W - 1) / 2.0
    return np.array([[(cy - i) * psy + oy, (j - cx) * psx + ox] for (i, j) in pixels], dtype=float).reshape(-1, 2)


def coords_close(got, want, geo, shape):
    got = np.asarray(got, dtype=float)
    if got.shape != want.shape:
        return False
    if want.size == 0:
        return True
    scale = max(abs(geo[2]), abs(geo[3]), geo[0] * shape[0], geo[1] * shape[1], 1e-3)
    return bool(np.max(np.abs(got - want)) <= 1e-12 * scale)


def mask_with(shape, pixels):
    out = np.ones(shape, dtype=bool)
    for (i, j) in pixels:
        out[i, j] = False
    return out


def as_index_list(arr, n):
    """Returns (list of ints, problem string or None) for a returned slim-index array."""
    a = np.asarray(arr)
    if a.ndim != 1:
        return None, "not 1D: shape %s" % (a.shape,)
    if a.size and not np.issubdtype(a.dtype, np.integer):
        return None, "not integer dtype: %s" % a.dtype
    lst = [int(x) for x in a]
    if any(x < 0 or x >= n for x in lst):
        return None, "index out of range [0,%d): %s" % (n, lst)
    return lst, None


# ----------------------------------------------------------------------------- the check


class V10(V):
    """V that records at most one violation per finding class per case (so class counts are case counts)."""

    __slots__ = ("seen", "suffix")

    def __init__(self, pid):
        V.__init__(self, pid)
        self.seen = set()
        self.suffix = ""

    def ok(self, cond, finding, msg=""):
        return V.ok(self, cond, finding + self.suffix if not cond else finding, msg)

    def fail(self, finding, msg="", counted=False):
        if self.suffix and not finding.endswith(self.suffix):
            finding = finding + self.suffix
        if finding in self.seen:
            if not counted:
                self.checks += 1
            return
        self.seen.add(finding)
        V.fail(self, finding, msg, counted)


def attempt(fn):
    """(value, None) or (None, 'Type: message') - so one failing view does not hide the other observations."""
    try:
        return fn(), None
    except Exception as e:  # reported by the caller under the finding class of the call site
        return None, "%s: %s" % (type(e).__name__, str(e)[:200])


def run_case(case):
    import autoarray as aa
    from autoarray import exc

    v = V10(ID)
    m, geo = mask_of(case)
    geo = [float(g) for g in geo]
    mask = aa.Mask2D(mask=m.copy(), pixel_scales=(geo[0], geo[1]), origin=(geo[2], geo[3]))
    _check_mask(aa, exc, v, mask, m, geo, case, label_of(case, m), kernels_of(case))
    keep = (v.nontrivial, v.outcome)
    # ---- history: views were read on `mask`; a copy of it, then the mask object itself, is edited in place (one more pixel
    # masked) and every view is read again: each must describe the edited mask, not the mask as it was first read
    u = np.argwhere(~m)
    if case[0] == "m" and len(u) >= 2 and m.size <= 9:
        y0, x0 = (int(t) for t in u[len(u) // 2])
        m2 = m.copy()
        m2[y0, x0] = True
        ed = mask.copy()
        ed[y0, x0] = True
        v.suffix = ":after-edit-of-copy"
        _check_mask(aa, exc, v, ed, m2, geo, case, "")
        mask[y0, x0] = True
        v.suffix = ":after-in-place-edit"
        _check_mask(aa, exc, v, mask, m2, geo, case, "")
        v.suffix = ""
    v.nontrivial, v.outcome = keep
    return v.result()


def short(lst, k=24):
    """List printed in full up to 2k entries, else head ... tail (messages are cut at 600 characters)."""
    lst = list(lst)
    if len(lst) <= 2 * k:
        return str(lst)
    return "%s ...(%d more)... %s" % (str(lst[:k])[:-1], len(lst) - 2 * k, str(lst[-k:])[1:])


def first_descent(lst):
    """Position of the first entry that is not larger than its predecessor, with its neighbourhood."""
    for k in range(len(lst) - 1):
        if not lst[k] < lst[k + 1]:
            return "entries %d..%d are %s" % (max(0, k - 1), min(len(lst), k + 3) - 1, lst[max(0, k - 1):k + 3])
    return "none"


def _check_mask(aa, exc, v, mask, m, geo, case, label=None, kernels=KERNELS):
    H, W = m.shape

    px = ref_unmasked(m)
    n = len(px)
    must, mustnot, free = ref_edge_classes(m)
    ring = dom.touches_frame(m)
    sfx = ":outer-ring" if ring else ""
    desc = (lambda: "mask=%s" % label) if label else (lambda: "mask=%s" % m.astype(int).tolist())
    slim_of = {p: k for k, p in enumerate(px)}
    show = (lambda a: "<%dx%d array, %d unmasked: %s>" % (a.shape + (int((~a).sum()), short(ref_unmasked(a), 8)))) if label else (
        lambda a: a.astype(int).tolist())

    # ------------------------------------------------------------------ edge
    di = mask.derive_indexes
    fe = "edge_slim" + sfx
    e_raw, err = attempt(lambda: np.array(di.edge_slim))
    if err is not None:
        e_raw, e_lst, prob = np.zeros(0), None, "raised " + err
    else:
        e_lst, prob = as_index_list(e_raw, n)
    v.ok(prob is None, fe, lambda: "%s edge_slim=%s %s" % (desc(), e_raw.tolist(), prob))
    edge_valid = False
    e_set = set()
    if e_lst is not None:
        e_px = [px[k] for k in e_lst]
        e_set = set(e_px)
        c1 = v.ok(
            all(e_lst[k] < e_lst[k + 1] for k in range(len(e_lst) - 1)),
            fe,
            lambda: "%s edge_slim not strictly increasing (slim order): %s; edge_slim=%s" % (desc(), first_descent(e_lst), short(e_lst)),
        )
        c2 = v.ok(
            must <= e_set,
            fe,
            lambda: "%s edge_slim=%s (pixels %s) misses pixels with a masked 8-neighbour: %s (slim %s)"
            % (desc(), short(e_lst), short(e_px), short(sorted(must - e_set)), short(sorted(slim_of[p] for p in must - e_set))),
        )
        c3 = v.ok(
            not (e_set & mustnot),
            fe,
            lambda: "%s edge_slim=%s contains pixels whose 8 neighbours all exist and are unmasked: %s"
            % (desc(), short(e_lst), short(sorted(e_set & mustnot))),
        )
        edge_valid = c1 and c2 and c3
        check_views(aa, v, mask, m, geo, "edge", e_lst, px, label)

    # ------------------------------------------------------------------ border
    fb = "border_slim" + sfx
    b_raw, err = attempt(lambda: np.array(di.border_slim))
    if err is not None:
        b_raw, b_lst, prob_b = np.zeros(0), None, "raised " + err
    else:
        b_lst, prob_b = as_index_list(b_raw, n)
    v.ok(prob_b is None, fb, lambda: "%s border_slim=%s %s" % (desc(), b_raw.tolist(), prob_b))
    b_set = set()
    must_border = set(p for p in must if ref_walk(m, p[0], p[1]))
    if b_lst is not None:
        b_px = [px[k] for k in b_lst]
        b_set = set(b_px)
        v.ok(
            all(b_lst[k] < b_lst[k + 1] for k in range(len(b_lst) - 1)),
            fb,
            lambda: "%s border_slim not strictly increasing (slim order): %s; border_slim=%s" % (desc(), first_descent(b_lst), short(b_lst)),
        )
        v.ok(
            must_border <= b_set,
            fb,
            lambda: "%s border_slim=%s (pixels %s) misses edge pixels with an all-masked axis walk: %s (slim %s)"
            % (desc(), short(b_lst), short(b_px), short(sorted(must_border - b_set)), short(sorted(slim_of[p] for p in must_border - b_set))),
        )
        bad = [p for p in b_px if not ref_walk(m, p[0], p[1]) or p in mustnot]
        v.ok(
            not bad,
            fb,
            lambda: "%s border_slim=%s contains pixels with no all-masked axis walk / non-edge pixels: %s"
            % (desc(), short(b_lst), short(bad)),
        )
        if edge_valid:
            # latitude: a FREE pixel (always has an empty walk) is a border pixel iff the code calls it an edge pixel
            incons = [p for p in sorted(free) if (p in b_set) != (p in e_set)]
            v.ok(
                not incons,
                "border_slim-vs-edge_slim:free-pixels",
                lambda: "%s pixels on the array boundary with no masked neighbour are treated differently by "
                "edge_slim=%s and border_slim=%s: %s" % (desc(), short(e_lst), short(b_lst), short(incons)),
            )
        check_views(aa, v, mask, m, geo, "border", b_lst, px, label)

    # ------------------------------------------------------------------ edge_buffed (weak: see ASSUMPTIONS)
    eb, err = attempt(lambda: np.array(mask.derive_mask.edge_buffed))
    if err is not None:
        eb = np.zeros(0)
        v.fail("edge_buffed", "%s edge_buffed raised %s" % (desc(), err))
    ok_eb = eb.shape == m.shape and eb.dtype == bool
    if ok_eb:
        for i in range(H):
            for j in range(W):
                if m[i, j]:
                    adj = any(
                        0 <= i + a < H and 0 <= j + b < W and not m[i + a, j + b] for (a, b) in N8
                    )
                    if bool(eb[i, j]) != (not adj):
                        ok_eb = False
                elif (i, j) in must and eb[i, j]:
                    ok_eb = False
    v.ok(ok_eb, "edge_buffed", lambda: "%s edge_buffed=%s" % (desc(), show(eb)))

    # ------------------------------------------------------------------ blurring
    n_res = 0
    n_res_big = 0
    for (kh, kw) in kernels:
        want = ref_blurring(m, kh, kw)
        kd = lambda: "%s kernel=%s" % (desc(), (kh, kw))
        bl_returned = None
        for site in ("blurring_from", "blurring_grid_from"):
            got, err = None, None
            try:
                if site == "blurring_from":
                    got = mask.derive_mask.blurring_from(kernel_shape_native=(kh, kw))
                else:
                    got = aa.Grid2D.blurring_grid_from(mask=mask, kernel_shape_native=(kh, kw))
            except Exception as e:
                err = e
            if want is None:
                if err is None:
                    v.fail(
                        site + ":no-exception",
                        lambda: "%s: a footprint leaves the array but a result was returned: %s"
                        % (kd(), show(np.array(got.mask if site == "blurring_grid_from" else got))),
                    )
                else:
                    v.ok(
                        isinstance(err, exc.MaskException),
                        site + ":exception-type",
                        lambda: "%s raised %s (%s) instead of exc.MaskException" % (kd(), type(err).__name__, err),
                    )
                continue
            if err is not None:
                v.fail(
                    site + ":spurious-exception",
                    lambda: "%s: every footprint is inside the array but %s was raised: %s" % (kd(), type(err).__name__, err),
                )
                continue
            if site == "blurring_from":
                n_res += 1
                n_res_big += 1 if (kh, kw) != (1, 1) else 0
                g = np.array(got)
                v.ok(
                    g.shape == want.shape and g.dtype == bool and bool(np.array_equal(g, want)),
                    "blurring_from",
                    lambda: "%s %s got=%s want=%s" % (kd(), blur_diff(g, want, m, kh, kw), show(g), show(want)),
                )
                bl_returned = g
            else:
                # the grid view must denote the pixels of the blurring mask the library itself returned, in slim order
                ref_m = bl_returned if (bl_returned is not None and bl_returned.shape == m.shape) else want
                bpx = ref_unmasked(ref_m)
                gm = np.array(got.mask)
                v.ok(
                    gm.shape == ref_m.shape and bool(np.array_equal(gm, ref_m)),
                    "views-disagree:blurring_grid_from",
                    lambda: "%s grid.mask=%s blurring mask=%s" % (kd(), show(gm), show(ref_m)),
                )
                gc = np.array(got.slim)
                wc = ref_centres(bpx, m.shape, geo)
                v.ok(
                    coords_close(gc, wc, geo, m.shape),
                    "views-disagree:blurring_grid_from",
                    lambda: "%s %s grid=%s want centres of %s = %s"
                    % (kd(), rows_diff(gc, wc), short(gc.tolist(), 6), short(bpx, 6), short(wc.tolist(), 6)),
                )

    v.nontrivial = bool(m.any()) and (must != set(px) or must_border != must or n_res_big > 0)
    v.outcome = "%s:n%d:e%d:b%d:res%d" % (case[0], n, len(e_set), len(b_set), n_res)
    return v.result()


def blur_diff(g, want, m, kh, kw):
    """Where a returned blurring mask differs from the definition (first few pixels of each kind)."""
    if g.shape != want.shape or g.dtype != bool:
        return "shape/dtype %s %s" % (g.shape, g.dtype)
    missing = [tuple(int(t) for t in p) for p in np.argwhere(~want & g)]
    extra = [tuple(int(t) for t in p) for p in np.argwhere(want & ~g)]
    return "masked pixels inside the %dx%d footprint of an unmasked pixel but not unmasked in the result: %s; unmasked in the result but outside every footprint (or not masked in the mask): %s;" % (
        kh, kw, short(missing, 6), short(extra, 6))


def rows_diff(got, want):
    got = np.asarray(got, dtype=float)
    if got.shape != want.shape:
        return "shape %s, want %s;" % (got.shape, want.shape)
    if want.size == 0:
        return ""
    bad = np.nonzero(np.abs(got - want).max(axis=1) > 1e-9)[0]
    if bad.size == 0:
        return "(differences below 1e-9)"
    k = int(bad[0])
    return "%d of %d rows differ, first at row %d: got %s want %s;" % (bad.size, want.shape[0], k, got[k].tolist(), want[k].tolist())


def check_views(aa, v, mask, m, geo, which, lst, px, label=None):
    """native / mask / grid views of the slim-index set `lst` (as returned by the library) denote the same pixels, each
    of them in slim (row-major) order whatever the order of `lst` itself."""
    want_px = [px[k] for k in lst]
    ordered = sorted(set(want_px))  # slim order == row-major order
    desc = lambda: "mask=%s %s_slim=%s" % (label or m.astype(int).tolist(), which, short(lst))
    show = (lambda a: "<%dx%d array, %d unmasked: %s>" % (a.shape + (int((~a).sum()), short(ref_unmasked(a), 8)))) if label else (
        lambda a: a.astype(int).tolist())

    want_m = mask_with(m.shape, ordered)
    wc = ref_centres(ordered, m.shape, geo)

    nat, err = attempt(lambda: np.array(getattr(mask.derive_indexes, which + "_native")))
    want_nat = np.array(want_px, dtype=int).reshape(-1, 2)
    v.ok(
        err is None
        and nat.shape == want_nat.shape
        and np.issubdtype(nat.dtype, np.integer)
        and bool(np.array_equal(nat, want_nat)),
        "views-disagree:%s_native" % which,
        lambda: "%s %s_native=%s want %s" % (desc(), which, err or short(nat.tolist()), short(want_nat.tolist())),
    )
    # explicit order: the rows of the native view are the pixels of the set in ascending slim (row-major) order
    ord_nat = np.array(ordered, dtype=int).reshape(-1, 2)
    v.ok(
        err is None and nat.shape == ord_nat.shape and bool(np.array_equal(nat, ord_nat)),
        "views-disagree:%s_native" % which,
        lambda: "%s %s_native is not the pixel set in slim (row-major) order: %s; %s_native=%s want %s"
        % (desc(), which, err or first_descent([tuple(r) for r in nat.tolist()]), which, err or short(nat.tolist()),
           short(ord_nat.tolist())),
    )

    dm, err = attempt(lambda: np.array(getattr(mask.derive_mask, which)))
    v.ok(
        err is None and dm.shape == want_m.shape and dm.dtype == bool and bool(np.array_equal(dm, want_m)),
        "views-disagree:derive_mask.%s" % which,
        lambda: "%s derive_mask.%s=%s want %s"
        % (desc(), which, err or show(dm), show(want_m)),
    )
    # explicit order: the k-th unmasked pixel (row-major) of the mask view is the pixel of the k-th slim index
    v.ok(
        err is None and dm.shape == want_m.shape and ref_unmasked(dm) == want_px,
        "views-disagree:derive_mask.%s" % which,
        lambda: "%s the k-th unmasked pixel of derive_mask.%s is not the pixel of the k-th entry of %s_slim: mask view pixels %s, "
        "slim view pixels %s" % (desc(), which, which, err or short(ref_unmasked(dm)), short(want_px)),
    )

    def grid_view():
        g = getattr(mask.derive_grid, which)
        return np.array(g.slim), np.array(g.mask)

    gg, err = attempt(grid_view)
    v.ok(
        err is None
        and coords_close(gg[0], wc, geo, m.shape)
        and gg[1].shape == want_m.shape
        and bool(np.array_equal(gg[1], want_m)),
        "views-disagree:derive_grid.%s" % which,
        lambda: "%s derive_grid.%s: %s got %s want centres of %s = %s"
        % (desc(), which, err or rows_diff(gg[0], wc), err or (short(gg[0].tolist(), 6), show(gg[1])), short(ordered, 6),
           short(wc.tolist(), 6)),
    )
    # explicit order: row k of the grid view is the centre of the pixel of the k-th slim index
    wc_lst = ref_centres(want_px, m.shape, geo)
    v.ok(
        err is None and coords_close(gg[0], wc_lst, geo, m.shape),
        "views-disagree:derive_grid.%s" % which,
        lambda: "%s row k of derive_grid.%s is not the centre of the pixel of the k-th entry of %s_slim: %s"
        % (desc(), which, which, err or rows_diff(gg[0], wc_lst)),
    )
