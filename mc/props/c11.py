"""C11 - queries are pure: no input mutation, no order dependence, deterministic (histex engine)."""
import copy as _copy

import numpy as np

from mc import dom, fix_inv, histex

ID = "C11"
ENGINE = "histex"
RULE = (
    "each graph is a real object graph (structures; imaging dataset; inversion+mappers+valued mapper in both "
    "formalisms; calls relying on shared default arguments; seeded simulation under a perturbed global RNG); all "
    "histories of reads / queries / derivations up to the stated depth are explored breadth-first, a history being "
    "extended only if it reaches a new canonical state (hash of every __dict__ entry incl. cached values, every "
    "caller-owned input, the shared default objects and the global RNG); evaluations = (history, event) executions "
    "on the real code; non-trivial = executions whose history is non-empty (the read is preceded by other accesses)"
)
ASSUMPTIONS = [
    "canonical state covers everything a later observation can depend on (object __dict__s reachable from the graph "
    "roots, caller inputs, shared defaults, numpy global RNG); equal hashes => equal futures",
    "differential oracle: value on a pristine graph where the read is the only access; for derived objects "
    "additionally the value reported by a fresh object constructed from the derived object's own contents",
    "a reference previously handed out to the caller that is later modified in place is NOT treated as a violation "
    "(the statement speaks of what quantities subsequently report)",
]
BOUNDS = {
    "quick": "graphs: struct, data, inv x {rect, rect+func, rect+rect, del+funcS} x {mapping, w-tilde} + positive solver, fit x 3, defaults, rng; "
             "history depth struct 4, fit 4, data 3, rng 3, defaults 3, inv 2, with state de-duplication",
    "thorough": "same graphs plus second mask variants of struct and data; depth struct 6, fit 6, data 4, rng 4, defaults 4, inv 3",
}

# ======================================================================================== helpers


def _arr(x):
    return np.array(x)


def _zoom_shape(arr, buf):
    y0, y1, x0, x1 = [int(v) for v in arr.mask.zoom_region]
    return y0 - buf, y1 + buf, x0 - buf, x1 + buf


def _zoom(arr, buf):
    y0, y1, x0, x1 = _zoom_shape(arr, buf)
    for _ in range(6):  # leave recognisable contents in the allocator's free lists (what a long-running process does anyway)
        t = np.full((y1 - y0, x1 - x0), 7.25)
        del t
    return _arr(arr.zoomed_around_mask(buffer=buf).native)


def _zoom_ref(arr, buf):
    """Rectangle around the unmasked pixels plus the buffer, zero outside the array (definition, written with slices)."""
    y0, y1, x0, x1 = _zoom_shape(arr, buf)
    nat = _arr(arr.native)
    out = np.zeros((y1 - y0, x1 - x0))
    ys, ye, xs, xe = max(y0, 0), min(y1, nat.shape[0]), max(x0, 0), min(x1, nat.shape[1])
    out[ys - y0:ye - y0, xs - x0:xe - x0] = nat[ys:ye, xs:xe]
    return out


class GraphBase:
    name = "?"
    skip_keys = ()

    def __init__(self):
        self.events = []
        self.fresh = {}

    def ev(self, label, fn, fresh=None):
        self.events.append((label, fn))
        if fresh is not None:
            self.fresh[label] = fresh

    def check(self, ctx, idx, res, hist_labels):
        label = self.events[idx][0]
        if label not in self.fresh or res[0] != "ok":
            return []
        try:
            want = histex.observe(self.fresh[label](ctx))
        except Exception as e:  # the fresh construction itself failing is a harness problem, surface it loudly
            return [{"finding": "harness-fresh-oracle-failed:%s" % label, "msg": repr(e)}]
        if not histex.same(res[1], want):
            when = "always" if not hist_labels else "after-reads"
            return [{"finding": "inconsistent-with-own-contents:%s" % label,
                     "msg": "after %s, %s reports %s but an object freshly built from the same contents reports %s (%s)"
                            % (hist_labels, label, histex.brief(res[1]), histex.brief(want), when)}]
        return []


# ======================================================================================== G-struct


class GStruct(GraphBase):
    name = "struct"

    def __init__(self, seed=0, variant=0):
        super().__init__()
        self.seed, self.variant = seed, variant
        import autoarray as aa

        self.aa = aa
        E = self.ev
        # --- constructors fed with the caller's own arrays (input purity)
        E("construct Array2D(native values)", lambda c: _arr(aa.Array2D(values=c["in_arr"], mask=c["mask"]).native))
        E("construct Array2D(native values, store_native)", lambda c: _arr(aa.Array2D(values=c["in_arr"], mask=c["mask"], store_native=True).native))
        E("construct Grid2D(native values)", lambda c: _arr(aa.Grid2D(values=c["in_grid"], mask=c["mask"]).native))
        E("construct Grid2D(native values, store_native)", lambda c: _arr(aa.Grid2D(values=c["in_grid"], mask=c["mask"], store_native=True).native))
        E("construct VectorYX2D(native values)", lambda c: _arr(aa.VectorYX2D(values=c["in_vec"], grid=c["g"], mask=c["mask"]).native))
        E("construct Kernel2D(values, normalize)", lambda c: _arr(aa.Kernel2D.no_mask(values=c["in_kern"], pixel_scales=1.0, normalize=True).native))
        E("construct Visibilities(values)", lambda c: _arr(aa.Visibilities(visibilities=c["in_vis"])))
        E("construct Array1D(native values)", lambda c: _arr(aa.Array1D(values=c["in_arr1"], mask=c["mask1"]).native))
        E("construct Mask2D(bool array)", lambda c: _arr(aa.Mask2D(mask=c["in_mask"], pixel_scales=1.0)))
        E("construct Mask2D(bool array, invert=True)", lambda c: _arr(aa.Mask2D(mask=c["in_mask"], pixel_scales=1.0, invert=True)))
        E("construct Mask2D(Mask2D, invert=True)", lambda c: _arr(aa.Mask2D(mask=c["mask"], pixel_scales=1.0, invert=True)))
        E("construct Mask1D(bool array, invert=True)", lambda c: _arr(aa.Mask1D(mask=c["in_mask1"], pixel_scales=1.0, invert=True)))
        E("construct Array2D(list of lists)", lambda c: _arr(aa.Array2D(values=c["in_list"], mask=c["mask"]).native))
        # natively stored STRUCTURES handed on to a constructor / apply_mask with a mask that masks more pixels
        E("construct Grid2D(values=gN [native-stored Grid2D], mask2)", lambda c: _arr(aa.Grid2D(values=c["gN"], mask=c["mask2"]).native),
          lambda c: _arr(aa.Grid2D(values=_arr(c["gN"].native).copy(), mask=c["mask2"]).native))
        E("construct Grid2D(values=gn.native, mask2)", lambda c: _arr(aa.Grid2D(values=c["gn"].native, mask=c["mask2"]).native),
          lambda c: _arr(aa.Grid2D(values=_arr(c["gn"].native).copy(), mask=c["mask2"]).native))
        E("construct Array2D(values=aN [native-stored Array2D], mask2)", lambda c: _arr(aa.Array2D(values=c["aN"], mask=c["mask2"]).native),
          lambda c: _arr(aa.Array2D(values=_arr(c["aN"].native).copy(), mask=c["mask2"]).native))
        E("read aN.apply_mask(mask2).native", lambda c: _arr(c["aN"].apply_mask(mask=c["mask2"]).native),
          lambda c: _arr(aa.Array2D(values=_arr(c["aN"].native).copy(), mask=c["mask2"]).native))
        E("read vecN.apply_mask(mask2).native", lambda c: _arr(c["vecN"].apply_mask(mask=c["mask2"]).native))
        E("read vec.native.apply_mask(mask2).native", lambda c: _arr(c["vec"].native.apply_mask(mask=c["mask2"]).native))
        E("SimulatorImaging(sky).via_image_from(image with negative pixels).data", lambda c: _arr(
            aa.SimulatorImaging(exposure_time=100.0, psf=c["own_kern"], background_sky_level=9.0, add_poisson_noise_to_data=False, noise_seed=1).via_image_from(image=c["a_neg"]).data.native))
        # windows that stick out of the array: the part outside must be zero whatever the process allocated and freed before
        for k, buf in (("a", 1), ("a", 2), ("a_full", 1), ("a_neg", 3), ("aN", 1)):
            E("read %s.zoomed_around_mask(buffer=%d).native" % (k, buf), (lambda k, buf: lambda c: _zoom(c[k], buf))(k, buf),
              (lambda k, buf: lambda c: _zoom_ref(c[k], buf))(k, buf))
        # plain content reads of every structure other events hand on: an event that wrote into one of them is seen by the next read
        for k in ("gN", "aN", "vecN", "a_neg", "a_full", "gn", "vec", "own_a", "kern", "mask", "mask2"):
            E("read %s (contents)" % k, (lambda k: lambda c: _arr(c[k]))(k))
        # slim (1D) inputs: the structure may legitimately share memory with the input, but no query may then write to it
        E("construct Array2D(slim values)", lambda c: _arr(aa.Array2D(values=c["in_slim"], mask=c["mask"]).native))
        E("construct Kernel2D(slim values, shape_native, normalize)",
          lambda c: _arr(aa.Kernel2D.no_mask(values=c["in_kern_slim"], shape_native=(3, 3), pixel_scales=1.0, normalize=True).native))
        E("construct Kernel2D(slim values).normalized", lambda c: _arr(aa.Kernel2D.no_mask(values=c["in_kern_slim"], shape_native=(3, 3), pixel_scales=1.0).normalized.native))
        E("construct Grid2D(slim values)", lambda c: _arr(aa.Grid2D(values=c["in_grid_slim"], mask=c["mask"]).native))
        E("construct Visibilities(values)*2 in_array", lambda c: _arr((aa.Visibilities(visibilities=c["in_vis"]) * 2.0).in_array))
        # structures that were BUILT on the caller's own arrays (no defensive copy by the harness): later queries must not write through
        E("read own_kern.normalized", lambda c: _arr(c["own_kern"].normalized.native))
        E("read own_kern.rescaled_with_odd_dimensions_from(0.5)", lambda c: _arr(c["own_kern"].rescaled_with_odd_dimensions_from(rescale_factor=0.5, normalize=True).native))
        E("read own_a.native then (own_a*2).slim", lambda c: [_arr(c["own_a"].native), _arr((c["own_a"] * 2.0).slim)])
        E("read own_a.binned.native", lambda c: _arr(c["own_a"].native.slim))
        E("SimulatorImaging(psf=own_kern).via_image_from(image).data", lambda c: _arr(
            aa.SimulatorImaging(exposure_time=100.0, psf=c["own_kern"], add_poisson_noise_to_data=False, noise_seed=1).via_image_from(image=c["a_full"]).data.native))
        # index tables of the mask and of masks derived from it
        E("read mask.derive_indexes.native_for_slim", lambda c: _arr(c["mask"].derive_indexes.native_for_slim))
        E("read mask.derive_indexes.unmasked_slim", lambda c: _arr(c["mask"].derive_indexes.unmasked_slim))
        MI = lambda c, x: aa.Mask2D(mask=_arr(x).copy(), pixel_scales=1.0)  # noqa: E731
        E("read mask.invert().derive_indexes.native_for_slim", lambda c: _arr(c["mask"].invert().derive_indexes.native_for_slim),
          lambda c: _arr(MI(c, c["mask"].invert()).derive_indexes.native_for_slim))
        E("read mask.copy().derive_indexes.native_for_slim", lambda c: _arr(c["mask"].copy().derive_indexes.native_for_slim),
          lambda c: _arr(MI(c, c["mask"]).derive_indexes.native_for_slim))
        E("read mask.invert().derive_indexes.edge_slim", lambda c: _arr(c["mask"].invert().derive_indexes.edge_slim),
          lambda c: _arr(MI(c, c["mask"].invert()).derive_indexes.edge_slim))
        E("read mask.invert().pixels_in_mask", lambda c: int(c["mask"].invert().pixels_in_mask), lambda c: int(MI(c, c["mask"].invert()).pixels_in_mask))
        E("read Grid2D.from_mask(mask.invert())", lambda c: _arr(aa.Grid2D.from_mask(mask=c["mask"].invert())),
          lambda c: _arr(aa.Grid2D.from_mask(mask=MI(c, c["mask"].invert()))))
        E("read Array2D(values, mask.invert()).native", lambda c: _arr(aa.Array2D(values=c["in_arr"].copy(), mask=c["mask"].invert()).native),
          lambda c: _arr(aa.Array2D(values=c["in_arr"].copy(), mask=MI(c, c["mask"].invert())).native))
        # --- reads
        E("read a.slim", lambda c: _arr(c["a"].slim))
        E("read a.native", lambda c: _arr(c["a"].native))
        E("read g.is_uniform", lambda c: bool(c["g"].is_uniform))
        E("read gn.is_uniform", lambda c: bool(c["gn"].is_uniform))
        E("read g.over_sampler.over_sampled_grid", lambda c: _arr(c["g"].over_sampler.over_sampled_grid))
        E("read g.native", lambda c: _arr(c["g"].native))
        E("read vis.amplitudes", lambda c: _arr(c["vis"].amplitudes))
        E("read vis.phases", lambda c: _arr(c["vis"].phases))
        E("read vis.ordered_1d", lambda c: _arr(c["vis"].ordered_1d))
        E("read vis.in_array", lambda c: _arr(c["vis"].in_array))
        E("read cmask.circular_radius", lambda c: float(c["cmask"].circular_radius))
        E("read cmask.is_circular", lambda c: bool(c["cmask"].is_circular))
        E("read mask.derive_indexes.edge_slim", lambda c: _arr(c["mask"].derive_indexes.edge_slim))
        E("read kern.normalized", lambda c: _arr(c["kern"].normalized.native))
        # --- derivations followed by a read on the derived object
        V = lambda x: aa.Visibilities(visibilities=_arr(x).copy())  # noqa: E731
        E("read (vis*2).amplitudes", lambda c: _arr((c["vis"] * 2.0).amplitudes), lambda c: _arr(V(c["vis"] * 2.0).amplitudes))
        E("read (vis*2).phases", lambda c: _arr((c["vis"] * (-1j)).phases), lambda c: _arr(V(c["vis"] * (-1j)).phases))
        E("read (vis*2).ordered_1d", lambda c: _arr((c["vis"] * 2.0).ordered_1d), lambda c: _arr(V(c["vis"] * 2.0).ordered_1d))
        E("read (vis+vis).in_array", lambda c: _arr((c["vis"] + c["vis"]).in_array), lambda c: _arr(V(c["vis"] + c["vis"]).in_array))
        E("read (-vis).ordered_1d", lambda c: _arr((-c["vis"]).ordered_1d), lambda c: _arr(V(-c["vis"]).ordered_1d))
        E("read vis[1:3].amplitudes", lambda c: _arr(c["vis"][1:3].amplitudes), lambda c: _arr(V(_arr(c["vis"])[1:3]).amplitudes))
        E("read vis.copy().amplitudes", lambda c: _arr(c["vis"].copy().amplitudes), lambda c: _arr(V(c["vis"]).amplitudes))
        G = lambda c, x: aa.Grid2D(values=_arr(x).copy(), mask=c["mask"])  # noqa: E731
        E("read (g*g).is_uniform", lambda c: bool((c["g"] * c["g"]).is_uniform), lambda c: bool(G(c, c["g"] * c["g"]).is_uniform))
        E("read (g**3).is_uniform", lambda c: bool((c["g"] ** 3).is_uniform), lambda c: bool(G(c, c["g"] ** 3).is_uniform))
        E("read (gn*1).is_uniform", lambda c: bool((c["gn"] * 1.0).is_uniform), lambda c: bool(G(c, c["gn"]).is_uniform))
        E("read g.copy().native", lambda c: _arr(c["g"].copy().native), lambda c: _arr(G(c, c["g"]).native))
        A = lambda c, x: aa.Array2D(values=_arr(x).copy(), mask=c["mask"])  # noqa: E731
        E("read (a*2).native", lambda c: _arr((c["a"] * 2.0).native), lambda c: _arr(A(c, c["a"] * 2.0).native))
        E("read (a-a).slim", lambda c: _arr((c["a"] - c["a"]).slim), lambda c: _arr(A(c, c["a"] - c["a"]).slim))
        E("read a.apply_mask(mask2).native", lambda c: _arr(c["a"].apply_mask(mask=c["mask2"]).native),
          lambda c: _arr(aa.Array2D(values=_arr(c["a"].native).copy(), mask=c["mask2"]).native))
        E("read a.resized_from((6,6)).native", lambda c: _arr(c["a"].resized_from(new_shape=(6, 6)).native))
        E("read a.trimmed_after_convolution_from((3,3)).native", lambda c: _arr(c["a_full"].trimmed_after_convolution_from(kernel_shape=(3, 3)).native))
        M = lambda c, x: aa.Mask2D(mask=_arr(x).copy(), pixel_scales=1.0)  # noqa: E731
        E("read cmask.invert().is_circular", lambda c: bool(c["cmask"].invert().is_circular), lambda c: bool(M(c, c["cmask"].invert()).is_circular))
        E("read cmask.invert().circular_radius", lambda c: float(c["cmask"].invert().circular_radius), lambda c: float(M(c, c["cmask"].invert()).circular_radius))
        E("read cmask.with_new_array(bigger circle).circular_radius",
          lambda c: float(c["cmask"].with_new_array(_arr(c["cmask_big"]).copy()).circular_radius),
          lambda c: float(M(c, c["cmask_big"]).circular_radius))

        # --- a copy is an independent object: writing into it (integer / slice index, i.e. in place on ITS buffer) must leave the
        # structure it was copied from untouched; the event reports the source's contents after the write into the copy
        def _write_into(cp):
            cp[0] = cp[0] * 0 + 7
            cp[1:2] = cp[1:2] * 0 - 3
            return cp

        for how, fn in (("copy.deepcopy(%s)", lambda x: _copy.deepcopy(x)), ("copy.copy(%s)", lambda x: _copy.copy(x)), ("%s.copy()", lambda x: x.copy()),
                        ("copy.deepcopy({'k': %s})['k']", lambda x: _copy.deepcopy({"k": x, "again": [x]})["k"])):
            for k in ("a", "aN", "g", "vis", "kern"):
                E("write into %s then read %s (contents)" % (how % k, k),
                  (lambda k, fn: lambda c: (_write_into(fn(c[k])), _arr(c[k]).copy())[1])(k, fn))

    def build(self):
        aa = self.aa
        r = dom.rng(self.seed, "c11struct", self.variant)
        if self.variant == 0:
            m = np.array([[1, 0, 0, 0], [0, 0, 1, 0], [0, 0, 0, 0], [1, 0, 0, 1]], dtype=bool)
        else:
            m = np.array([[0, 0, 1, 0], [0, 1, 0, 0], [1, 0, 0, 0], [0, 0, 0, 0]], dtype=bool)
        m2 = m.copy()
        m2[1, 1] = True
        m2[2, 3] = True
        H, W = m.shape
        mask = aa.Mask2D(mask=m.copy(), pixel_scales=1.0)
        mask2 = aa.Mask2D(mask=m2.copy(), pixel_scales=1.0)
        c = {"mask": mask, "mask2": mask2}
        c["in_arr"] = 1.0 + r.uniform(size=(H, W)) + np.arange(H * W).reshape(H, W)
        c["in_grid"] = r.normal(size=(H, W, 2)) + 3.0
        c["in_vec"] = r.normal(size=(H, W, 2)) - 2.0
        c["in_kern"] = 0.2 + r.uniform(size=(3, 3))
        c["in_vis"] = r.normal(size=5) + 1j * r.normal(size=5)
        c["in_arr1"] = 1.0 + np.arange(5.0)
        c["in_mask"] = m.copy()
        c["in_mask1"] = np.array([False, True, False, False, True])
        c["in_list"] = [[float(10 * i + j) for j in range(W)] for i in range(H)]
        nun = int((~m).sum())
        c["in_slim"] = 2.0 + np.arange(nun, dtype=float)
        c["in_grid_slim"] = r.normal(size=(nun, 2)) + 1.0
        c["in_kern_slim"] = np.array([1.0, 2.0, 1.0, 2.0, 4.0, 2.0, 1.0, 2.0, 1.0])
        c["own_kern_values"] = np.array([1.0, 2.0, 1.0, 2.0, 5.0, 2.0, 1.0, 2.0, 3.0])
        c["own_kern"] = aa.Kernel2D.no_mask(values=c["own_kern_values"], shape_native=(3, 3), pixel_scales=1.0)
        c["own_a_values"] = 3.0 + np.arange(nun, dtype=float)
        c["own_a"] = aa.Array2D(values=c["own_a_values"], mask=mask)
        c["mask1"] = aa.Mask1D(mask=np.array([False, True, False, False, True]), pixel_scales=1.0)
        c["a"] = aa.Array2D(values=c["in_arr"].copy(), mask=mask)
        c["a_full"] = aa.Array2D.no_mask(values=np.arange(36.0).reshape(6, 6) + r.uniform(size=(6, 6)), pixel_scales=1.0)
        c["g"] = aa.Grid2D.from_mask(mask=mask, over_sampling=aa.OverSamplingUniform(sub_size=2))
        c["gn"] = aa.Grid2D(values=c["in_grid"].copy(), mask=mask)
        c["vec"] = aa.VectorYX2D(values=c["in_vec"].copy(), grid=aa.Grid2D.from_mask(mask=mask), mask=mask)
        c["gN"] = aa.Grid2D(values=c["in_grid"].copy(), mask=mask, store_native=True)
        c["aN"] = aa.Array2D(values=c["in_arr"].copy(), mask=mask, store_native=True)
        c["vecN"] = aa.VectorYX2D(values=c["in_vec"].copy(), grid=aa.Grid2D.from_mask(mask=mask), mask=mask, store_native=True)
        neg = np.arange(36.0).reshape(6, 6) % 5 - 1.5 + 0.1 * r.uniform(size=(6, 6))
        c["a_neg"] = aa.Array2D.no_mask(values=neg, pixel_scales=1.0)
        c["kern"] = aa.Kernel2D.no_mask(values=c["in_kern"].copy(), pixel_scales=1.0)
        c["vis"] = aa.Visibilities(visibilities=c["in_vis"].copy())
        c["cmask"] = aa.Mask2D.circular(shape_native=(7, 7), radius=2.0, pixel_scales=1.0)
        c["cmask_big"] = aa.Mask2D.circular(shape_native=(7, 7), radius=3.0, pixel_scales=1.0)
        return c

    def roots(self, c):
        return {k: c[k] for k in ("a", "a_full", "a_neg", "gN", "aN", "vecN", "g", "gn", "vec", "kern", "vis", "cmask", "cmask_big", "mask", "mask2", "mask1", "own_kern", "own_a")}

    def inputs(self, c):
        return {k: c[k] for k in ("in_arr", "in_grid", "in_vec", "in_kern", "in_vis", "in_arr1", "in_mask", "in_slim", "in_grid_slim",
                                  "in_kern_slim", "own_kern_values", "own_a_values", "in_mask1", "in_list")}


# ======================================================================================== G-rng


class GRng(GraphBase):
    name = "rng"

    def __init__(self, seed=0):
        super().__init__()
        import autoarray as aa

        self.aa = aa
        E = self.ev
        for a in (1, 2):
            E("np.random.seed(%d)" % a, (lambda a: lambda c: np.random.seed(a))(a))
        for k in (1, 3):
            E("draw %d numbers" % k, (lambda k: lambda c: (np.random.uniform(size=k), None)[1])(k))
        for k in (0, 1, 2):
            E("simulate(noise_seed=%d).data" % k, (lambda k: lambda c: self._sim(c, k, "data"))(k))
        E("preprocess.poisson_noise(seed=0)", lambda c: _arr(aa.preprocess.poisson_noise_via_data_eps_from(
            data_eps=c["img"], exposure_time_map=c["exp"], seed=0)))
        E("preprocess.gaussian_noise(seed=0)", lambda c: _arr(aa.preprocess.data_with_gaussian_noise_added(data=c["img"], sigma=0.3, seed=0)))
        E("simulate(noise_seed=1).noise_map", lambda c: self._sim(c, 1, "noise_map"))
        E("preprocess.poisson_noise(seed=1)", lambda c: _arr(aa.preprocess.poisson_noise_via_data_eps_from(
            data_eps=c["img"], exposure_time_map=c["exp"], seed=1)))
        E("preprocess.gaussian_noise(seed=2)", lambda c: _arr(aa.preprocess.data_with_gaussian_noise_added(data=c["img"], sigma=0.3, seed=2)))

    def _sim(self, c, k, what):
        aa = self.aa
        sim = aa.SimulatorImaging(exposure_time=300.0, psf=c["psf"], background_sky_level=0.1, noise_seed=k)
        ds = sim.via_image_from(image=c["img"])
        return _arr(getattr(ds, what).native)

    def build(self):
        aa = self.aa
        np.random.seed(12345)  # the harness owns the initial global RNG state
        img = aa.Array2D.no_mask(values=1.0 + np.arange(25.0).reshape(5, 5) / 5.0, pixel_scales=1.0)
        exp = aa.Array2D.full(fill_value=300.0, shape_native=(5, 5), pixel_scales=1.0)
        psf = aa.Kernel2D.no_mask(values=np.array([[0.0, 0.1, 0.0], [0.1, 0.6, 0.1], [0.0, 0.1, 0.0]]), pixel_scales=1.0)
        return {"img": img, "exp": exp, "psf": psf}

    def roots(self, c):
        return {"img": c["img"], "psf": c["psf"]}

    def inputs(self, c):
        return {"image": c["img"].array, "psf": c["psf"].array, "exposure_time_map": c["exp"].array}


# ======================================================================================== G-data


class GData(GraphBase):
    name = "data"

    def __init__(self, seed=0, variant=0):
        super().__init__()
        import autoarray as aa

        self.aa, self.seed, self.variant = aa, seed, variant
        E = self.ev
        E("construct Imaging(data, noise_map, psf)", lambda c: _arr(aa.Imaging(data=c["data"], noise_map=c["noise"], psf=c["psf"]).data.native))
        E("read ds.grids.uniform", lambda c: _arr(c["ds"].grids.uniform))
        E("read ds.grids.blurring", lambda c: _arr(c["ds"].grids.blurring))
        E("read ds.grids.pixelization", lambda c: _arr(c["ds"].grids.pixelization))
        E("read ds.convolver.image_frame_1d_lengths", lambda c: _arr(c["ds"].convolver.image_frame_1d_lengths))
        E("read ds.w_tilde.curvature_preload", lambda c: _arr(c["ds"].w_tilde.curvature_preload))
        E("read ds.signal_to_noise_map", lambda c: _arr(c["ds"].signal_to_noise_map.native))
        E("read ds.noise_map", lambda c: _arr(c["ds"].noise_map.native))
        E("read ds.data", lambda c: _arr(c["ds"].data.native))
        E("read ds.psf", lambda c: _arr(c["ds"].psf.native))
        # derived datasets; the fresh oracle rebuilds the quantity from the derived dataset's own arrays
        E("read ds.apply_mask(mask2).grids.uniform", lambda c: _arr(c["ds"].apply_mask(mask=c["mask2"]).grids.uniform),
          lambda c: _arr(aa.Grid2D.from_mask(mask=c["ds"].apply_mask(mask=c["mask2"]).data.mask)))
        E("read ds.apply_mask(mask2).data", lambda c: _arr(c["ds"].apply_mask(mask=c["mask2"]).data.native))
        for what, get in (("convolver.image_frame_1d_indexes", lambda d: _arr(d.convolver.image_frame_1d_indexes)),
                          ("convolver.blurring_frame_1d_lengths", lambda d: _arr(d.convolver.blurring_frame_1d_lengths)),
                          ("w_tilde.curvature_preload", lambda d: _arr(d.w_tilde.curvature_preload)),
                          ("grids.blurring", lambda d: _arr(d.grids.blurring))):
            E("read ds.apply_mask(mask3: same pixel count).%s" % what, (lambda get: lambda c: get(c["ds"].apply_mask(mask=c["mask3"])))(get),
              (lambda get: lambda c: get(aa.Imaging(data=c["ds"].apply_mask(mask=c["mask3"]).data, noise_map=c["ds"].apply_mask(mask=c["mask3"]).noise_map,
                                                    psf=c["ds"].psf)))(get))
        E("read ds.convolver.image_frame_1d_indexes", lambda c: _arr(c["ds"].convolver.image_frame_1d_indexes))
        E("read ds.apply_mask(mask2).convolver.image_frame_1d_lengths",
          lambda c: _arr(c["ds"].apply_mask(mask=c["mask2"]).convolver.image_frame_1d_lengths),
          lambda c: _arr(self._conv_of(c["ds"].apply_mask(mask=c["mask2"])).image_frame_1d_lengths))
        T = lambda c: c["pad"].trimmed_after_convolution_from(kernel_shape=(3, 3))  # noqa: E731
        E("read pad.trimmed_after_convolution_from((3,3)).grids.uniform", lambda c: _arr(T(c).grids.uniform),
          lambda c: _arr(aa.Grid2D.from_mask(mask=T(c).data.mask)))
        E("read pad.trimmed_after_convolution_from((3,3)).data", lambda c: _arr(T(c).data.native))
        E("read pad.trimmed_after_convolution_from((3,3)).convolver.image_frame_1d_lengths",
          lambda c: _arr(T(c).convolver.image_frame_1d_lengths), lambda c: _arr(self._conv_of(T(c)).image_frame_1d_lengths))
        E("read pad.trimmed_after_convolution_from((3,3)).w_tilde.curvature_preload",
          lambda c: _arr(T(c).w_tilde.curvature_preload),
          lambda c: _arr(aa.Imaging(data=T(c).data, noise_map=T(c).noise_map, psf=T(c).psf).w_tilde.curvature_preload))
        TF = lambda c: c["full"].trimmed_after_convolution_from(kernel_shape=(3, 3))  # noqa: E731
        E("read full.trimmed_after_convolution_from((3,3)).grids.uniform", lambda c: [_arr(TF(c).grids.uniform), list(TF(c).grids.uniform.shape_native)],
          lambda c: [_arr(aa.Grid2D.from_mask(mask=TF(c).data.mask)), list(TF(c).data.mask.shape_native)])
        E("read full.trimmed_after_convolution_from((3,3)).signal_to_noise_map", lambda c: _arr(TF(c).signal_to_noise_map.native))
        E("read full.grids.uniform", lambda c: _arr(c["full"].grids.uniform))
        E("read full.signal_to_noise_map", lambda c: _arr(c["full"].signal_to_noise_map.native))
        E("read pad.grids.uniform", lambda c: _arr(c["pad"].grids.uniform))
        E("read pad.grids.blurring", lambda c: _arr(c["pad"].grids.blurring))
        E("read pad.convolver.image_frame_1d_lengths", lambda c: _arr(c["pad"].convolver.image_frame_1d_lengths))
        E("read pad.w_tilde.curvature_preload", lambda c: _arr(c["pad"].w_tilde.curvature_preload))
        E("read ds.apply_over_sampling(sub 2).grids.pixelization.over_sampled",
          lambda c: _arr(c["ds"].apply_over_sampling(over_sampling=aa.OverSamplingDataset(pixelization=aa.OverSamplingUniform(sub_size=2))).grids.pixelization.over_sampler.over_sampled_grid),
          lambda c: _arr(aa.OverSamplerUniform(mask=c["ds"].mask, sub_size=2).over_sampled_grid))
        E("read ds.apply_noise_scaling(mask2).noise_map", lambda c: _arr(c["ds"].apply_noise_scaling(mask=c["mask2"]).noise_map.native))
        E("read dsn.apply_noise_scaling(mask2).noise_map", lambda c: _arr(c["dsn"].apply_noise_scaling(mask=c["mask2"]).noise_map.native))
        E("read dsn.noise_map", lambda c: _arr(c["dsn"].noise_map.native))
        E("read dsn.signal_to_noise_map", lambda c: _arr(c["dsn"].signal_to_noise_map.native))

    def _conv_of(self, ds):
        return self.aa.Convolver(mask=ds.mask, kernel=ds.psf)

    def build(self):
        aa = self.aa
        r = dom.rng(self.seed, "c11data", self.variant)
        H = W = 7
        m = np.ones((H, W), dtype=bool)
        m[2:5, 2:5] = False
        if self.variant == 1:
            m[3, 3] = True
            m[1, 3] = False
        m2 = np.ones((H, W), dtype=bool)
        m2[2:4, 2:5] = False
        m3 = np.ones((H, W), dtype=bool)  # same pixel count as `m`, different shape (not a translation)
        for (i, j) in [(1, 2), (2, 2), (3, 2), (4, 2), (5, 2), (3, 3), (3, 4), (2, 4), (4, 4)][: int((~m).sum())]:
            m3[i, j] = False
        mask = aa.Mask2D(mask=m, pixel_scales=1.0)
        c = {"mask2": aa.Mask2D(mask=m2, pixel_scales=1.0), "mask3": aa.Mask2D(mask=m3, pixel_scales=1.0)}
        c["data"] = aa.Array2D(values=r.normal(size=(H, W)) + 2.0, mask=mask)
        c["noise"] = aa.Array2D(values=0.5 + r.uniform(size=(H, W)), mask=mask)
        c["psf"] = aa.Kernel2D.no_mask(values=0.1 + r.uniform(size=(3, 3)), pixel_scales=1.0)
        full_mask = aa.Mask2D.all_false(shape_native=(H, W), pixel_scales=1.0)

        def full():
            return aa.Imaging(data=aa.Array2D(values=r.normal(size=(H, W)) + 2.0, mask=full_mask),
                              noise_map=aa.Array2D(values=0.5 + r.uniform(size=(H, W)), mask=full_mask),
                              psf=aa.Kernel2D.no_mask(values=0.1 + r.uniform(size=(3, 3)), pixel_scales=1.0))

        c["ds"] = full().apply_mask(mask=mask)
        c["full"] = full()
        pm = np.ones((9, 9), dtype=bool)
        pm[2:7, 2:7] = False
        if self.variant == 1:
            pm[4, 4] = True
        pmask = aa.Mask2D(mask=pm, pixel_scales=1.0)
        c["pad"] = aa.Imaging(data=aa.Array2D(values=r.normal(size=(9, 9)) + 2.0, mask=pmask),
                              noise_map=aa.Array2D(values=0.5 + r.uniform(size=(9, 9)), mask=pmask),
                              psf=aa.Kernel2D.no_mask(values=0.1 + r.uniform(size=(3, 3)), pixel_scales=1.0))
        # a dataset whose arrays are stored in native form (in-place edits of .native are then visible)
        c["dsn"] = aa.Imaging(data=aa.Array2D(values=r.normal(size=(H, W)) + 2.0, mask=full_mask, store_native=True),
                              noise_map=aa.Array2D(values=0.5 + r.uniform(size=(H, W)), mask=full_mask, store_native=True),
                              psf=aa.Kernel2D.no_mask(values=0.1 + r.uniform(size=(3, 3)), pixel_scales=1.0))
        return c

    def roots(self, c):
        return {k: c[k] for k in ("ds", "pad", "full", "dsn", "mask2", "mask3")}

    def inputs(self, c):
        return {"data": c["data"].array, "noise_map": c["noise"].array, "psf": c["psf"].array}


# ======================================================================================== G-inv

INV_READS = ["mapping_matrix", "operated_mapping_matrix", "data_vector", "curvature_matrix", "regularization_matrix",
             "curvature_reg_matrix", "reconstruction", "mapped_reconstructed_data", "mapped_reconstructed_data_dict",
             "regularization_term", "log_det_curvature_reg_matrix_term", "log_det_regularization_matrix_term",
             "reconstruction_noise_map", "data_subtracted_dict", "reconstruction_dict", "regularization_matrix_reduced",
             "curvature_reg_matrix_reduced"]
MAPPER_READS = ["mapping_matrix", "pix_sub_weights.weights", "pix_sub_weights.mappings", "unique_mappings.data_weights",
                "neighbors", "edge_pixel_list", "regularization_matrix", "pix_sub_weights_split_cross?"]

INV_VARIANTS = {
    "rect": [["rectA"], [True]],
    "rect+func": [["rectA", "func"], [True, False]],
    "rect+rect": [["rectA", "rectB"], [True, True]],
    "del+funcS": [["del", "funcS"], [True, False]],
}


class GInv(GraphBase):
    def __init__(self, variant="rect", wt=False, seed=0, positive=False):
        super().__init__()
        import autoarray as aa

        self.aa, self.variant, self.wt, self.seed, self.positive = aa, variant, wt, seed, positive
        self.name = "inv[%s,%s%s]" % (variant, "w-tilde" if wt else "mapping", ",positive" if positive else "")
        E = self.ev
        E("construct aa.Inversion(dataset, objs, settings)", self._construct)
        for k in INV_READS:
            E("read inv.%s" % k, (lambda k: lambda c: getattr(c["inv"], k))(k))
        E("read mapper.mapping_matrix", lambda c: _arr(c["objs"][0].mapping_matrix))
        E("read mapper.pix_sub_weights", lambda c: [_arr(c["objs"][0].pix_sub_weights.mappings), _arr(c["objs"][0].pix_sub_weights.sizes), _arr(c["objs"][0].pix_sub_weights.weights)])
        E("read mapper.unique_mappings", lambda c: [_arr(c["objs"][0].unique_mappings.data_to_pix_unique), _arr(c["objs"][0].unique_mappings.data_weights), _arr(c["objs"][0].unique_mappings.pix_lengths)])
        E("read mapper.neighbors", lambda c: [_arr(c["objs"][0].neighbors), _arr(c["objs"][0].neighbors.sizes)])
        E("read mapper.regularization_matrix", lambda c: _arr(c["objs"][0].regularization_matrix))
        E("read mapper.pixel_signals_from(1.0)", lambda c: _arr(c["objs"][0].pixel_signals_from(signal_scale=1.0)))
        E("read mapper.edge_pixel_list", lambda c: list(c["objs"][0].edge_pixel_list))
        E("read ds.grids.pixelization", lambda c: _arr(c["ds"].grids.pixelization))
        # valued mapper built on the caller's values / pixel mask
        E("read MapperValued.values_masked", lambda c: _arr(self._mv(c).values_masked))
        E("read MapperValued.mapped_reconstructed_image_from()", lambda c: _arr(self._mv(c).mapped_reconstructed_image_from()))
        E("read MapperValued.max_pixel_centre", lambda c: _arr(self._mv(c).max_pixel_centre))
        E("read MapperValued.max_pixel_list_from(2)", lambda c: [int(i) for i in self._mv(c).max_pixel_list_from(total_pixels=2)[0]])
        for tp in (3, 6):
            E("read MapperValued(no pixel mask).max_pixel_list_from(%d, filter_neighbors=True)" % tp, (lambda tp: lambda c: [int(i) for i in aa.MapperValued(
                mapper=c["objs"][0], values=c["values2"]).max_pixel_list_from(total_pixels=tp, filter_neighbors=True)[0]])(tp))
        E("read inv.mapper_edge_pixel_list", lambda c: [int(i) for i in c["inv"].mapper_edge_pixel_list])
        E("read MapperValued(no pixel mask).mapped_reconstructed_image_from()",
          lambda c: _arr(aa.MapperValued(mapper=c["objs"][0], values=c["values2"]).mapped_reconstructed_image_from()))

    def _mv(self, c):
        return self.aa.MapperValued(mapper=c["objs"][0], values=c["values"], mesh_pixel_mask=c["pixmask"])

    def _mk(self):
        kinds, regs = INV_VARIANTS[self.variant]
        fx = fix_inv.make_dataset([5, 5], [3, 3], 0b101111111, psf_kind="nonneg", seed=self.seed, sub=2)
        objs = [fix_inv.make_obj(fx, k, reg=r, seed=self.seed) for k, r in zip(kinds, regs)]
        return fx, objs

    def _settings(self):
        return fix_inv.settings(self.aa, self.wt, positive=self.positive, p_initial=self.positive, force_edge=False, diag=1e-3)

    def _construct(self, c):
        inv = self.aa.Inversion(dataset=c["ds"], linear_obj_list=c["objs"], settings=c["settings"])
        return type(inv).__name__

    def build(self):
        fx, objs = self._mk()
        st = self._settings()
        inv = self.aa.Inversion(dataset=fx["ds"], linear_obj_list=objs, settings=st)
        n = objs[0].params
        values = 0.5 + (np.arange(n) * 7 % 5) / 3.0
        pixmask = np.zeros(n, dtype=bool)
        pixmask[[1, n - 2]] = True
        return {"fx": fx, "ds": fx["ds"], "objs": objs, "inv": inv, "settings": st, "values": values, "values2": values.copy(), "pixmask": pixmask}

    def roots(self, c):
        return {"ds": c["ds"], "objs": c["objs"], "inv": c["inv"]}

    def inputs(self, c):
        return {"MapperValued.values": c["values"], "MapperValued.values(no pixel mask)": c["values2"], "MapperValued.mesh_pixel_mask": c["pixmask"], "settings": c["settings"],
                "dataset.data": c["ds"].data.array, "dataset.noise_map": c["ds"].noise_map.array, "dataset.psf": c["ds"].psf.array}


# ======================================================================================== G-interf

INTERF_READS = ["operated_mapping_matrix", "data_vector", "curvature_matrix", "regularization_matrix", "curvature_reg_matrix", "reconstruction",
                "mapped_reconstructed_data", "mapped_reconstructed_image", "regularization_term", "log_det_curvature_reg_matrix_term",
                "log_det_regularization_matrix_term", "mapping_matrix"]


class GInterf(GraphBase):
    """Interferometer inversion (direct Fourier transform, mapping formalism) over visibilities with a complex noise map."""

    def __init__(self, preload=False, seed=0, variant="rect+funcS"):
        super().__init__()
        import autoarray as aa

        self.aa, self.preload, self.seed, self.variant = aa, preload, seed, variant
        self.name = "interf[%s,%s]" % (variant, "preload" if preload else "no-preload")
        E = self.ev
        for k in INTERF_READS:
            E("read inv.%s" % k, (lambda k: lambda c: getattr(c["inv"], k))(k))
        E("read transformer.visibilities_from(image)", lambda c: _arr(c["tr"].visibilities_from(image=c["image"])))
        E("read transformer.image_from(visibilities)", lambda c: _arr(c["tr"].image_from(visibilities=c["vis"])))
        E("read transformer.transform_mapping_matrix(M)", lambda c: _arr(c["tr"].transform_mapping_matrix(mapping_matrix=c["M"])))
        E("read vis.amplitudes", lambda c: _arr(c["vis"].amplitudes))
        E("read noise_map.weight_list_ordered_1d", lambda c: _arr(c["nm"].weight_list_ordered_1d))
        E("read mapper.mapping_matrix", lambda c: _arr(c["objs"][0].mapping_matrix))
        E("construct second inversion on same dataset/objects -> data_vector",
          lambda c: _arr(aa.Inversion(dataset=c["dsi"], linear_obj_list=c["objs"], settings=self._settings()).data_vector))

    def _settings(self):
        return fix_inv.settings(self.aa, False, diag=1e-3)

    def build(self):
        aa = self.aa
        fx = fix_inv.make_dataset([5, 5], [3, 3], 0b101111111, psf_kind="nonneg", seed=self.seed, sub=1)
        kinds, regs = {"rect+funcS": (["rectA", "funcS"], [True, False]), "rect": (["rectA"], [True])}[self.variant]
        objs = [fix_inv.make_obj(fx, k, reg=r, seed=self.seed) for k, r in zip(kinds, regs)]
        r = dom.rng(self.seed, "c11interf")
        uv = np.array([[10.0, -20.0], [35.0, 5.0], [-15.0, 40.0], [0.0, 0.0], [22.0, 31.0]]) * 1e3
        tr = aa.TransformerDFT(uv_wavelengths=uv, real_space_mask=fx["mask"], preload_transform=self.preload)
        vis = aa.Visibilities(visibilities=r.normal(size=5) + 1j * r.normal(size=5))
        nm = aa.VisibilitiesNoiseMap(visibilities=(0.5 + r.uniform(size=5)) + 1j * (0.7 + r.uniform(size=5)))
        dsi = aa.DatasetInterface(data=vis, noise_map=nm, transformer=tr)
        inv = aa.Inversion(dataset=dsi, linear_obj_list=objs, settings=self._settings())
        image = aa.Array2D(values=fx["data"].copy(), mask=fx["mask"])
        M = np.array(objs[0].mapping_matrix).copy() * np.where(np.arange(objs[0].params) % 2 == 0, 1.0, -0.5)[None, :]
        return {"fx": fx, "objs": objs, "tr": tr, "vis": vis, "nm": nm, "dsi": dsi, "inv": inv, "image": image, "M": M}

    def roots(self, c):
        return {"objs": c["objs"], "tr": c["tr"], "vis": c["vis"], "nm": c["nm"], "inv": c["inv"], "dsi": c["dsi"]}

    def inputs(self, c):
        # raw buffers only: the structures themselves legitimately gain cached entries when read
        return {"image": c["image"].array, "mapping matrix argument": c["M"], "visibilities": c["vis"].array, "noise_map": c["nm"].array}


# ======================================================================================== G-fit

FIT_READS = ["residual_map", "normalized_residual_map", "chi_squared_map", "chi_squared", "reduced_chi_squared", "noise_normalization",
             "log_likelihood", "log_likelihood_with_regularization", "log_evidence", "figure_of_merit", "residual_flux_fraction_map",
             "signal_to_noise_map", "model_data", "data", "noise_map"]

_FITCLS = None


def _fit_cls(aa):
    global _FITCLS
    if _FITCLS is None:
        class VerifFit(aa.FitImaging):
            def __init__(self, dataset, model_data, inversion=None, use_mask_in_fit=False, dataset_model=None):
                super().__init__(dataset=dataset, use_mask_in_fit=use_mask_in_fit, dataset_model=dataset_model)
                self._model_data = model_data
                self._inversion = inversion

            @property
            def model_data(self):
                return self._model_data

            @property
            def inversion(self):
                return self._inversion

        _FITCLS = VerifFit
    return _FITCLS


class GFit(GraphBase):
    def __init__(self, wt=False, seed=0, with_inversion=True):
        super().__init__()
        import autoarray as aa

        self.aa, self.wt, self.seed, self.with_inversion = aa, wt, seed, with_inversion
        self.name = "fit[%s,%s]" % ("w-tilde" if wt else "mapping", "inversion" if with_inversion else "no-inversion")
        E = self.ev
        for k in FIT_READS:
            E("read fit.%s" % k, (lambda k: lambda c: getattr(c["fit"], k))(k))
        if with_inversion:
            for k in ("reconstruction", "curvature_reg_matrix", "regularization_term", "log_det_curvature_reg_matrix_term",
                      "log_det_regularization_matrix_term", "mapped_reconstructed_data", "curvature_matrix"):
                E("read fit.inversion.%s" % k, (lambda k: lambda c: getattr(c["fit"].inversion, k))(k))
        E("read fit.dataset.grids.uniform", lambda c: _arr(c["ds"].grids.uniform))
        E("read fit.dataset.signal_to_noise_map", lambda c: _arr(c["ds"].signal_to_noise_map))
        E("construct second fit on same dataset/inversion -> figure_of_merit", lambda c: float(self._fit(c).figure_of_merit))

    def _fit(self, c):
        return _fit_cls(self.aa)(dataset=c["ds"], model_data=c["model"], inversion=c["inv"], use_mask_in_fit=False,
                                 dataset_model=self.aa.DatasetModel(background_sky_level=0.3))

    def build(self):
        aa = self.aa
        fx = fix_inv.make_dataset([5, 5], [3, 3], 0b101111111, psf_kind="nonneg", seed=self.seed, sub=1)
        inv = None
        objs = []
        if self.with_inversion:
            objs = [fix_inv.make_obj(fx, "rectA", reg=True, seed=self.seed), fix_inv.make_obj(fx, "func", reg=False, seed=self.seed)]
            inv = aa.Inversion(dataset=fx["ds"], linear_obj_list=objs, settings=fix_inv.settings(aa, self.wt, diag=1e-3))
            model = None
        c = {"fx": fx, "ds": fx["ds"], "inv": inv, "objs": objs}
        if inv is not None:
            c["model"] = inv.mapped_reconstructed_data
            # the model was read on a throw-away inversion so that the graph's own inversion starts with no caches filled
            c["inv"] = aa.Inversion(dataset=fx["ds"], linear_obj_list=objs, settings=fix_inv.settings(aa, self.wt, diag=1e-3))
        else:
            c["model"] = aa.Array2D(values=0.9 * fx["data"] + 0.05, mask=fx["mask"])
        c["model_in"] = c["model"]
        c["fit"] = self._fit(c)
        return c

    def roots(self, c):
        return {"fit": c["fit"], "ds": c["ds"], "inv": c["inv"], "objs": c["objs"]}

    def inputs(self, c):
        return {"model_data": c["model_in"].array, "dataset.data": c["ds"].data.array, "dataset.noise_map": c["ds"].noise_map.array}


# ======================================================================================== G-defaults

_MUTABLE_DEFAULTS = None


def mutable_defaults():
    """
    Every object with a __dict__ that is a default argument value of a function or method defined in the autoarray package
    (SettingsInversion(), Preloads(), OverSamplingDataset(), ...): process-global state shared by all calls that omit the argument.
    Discovered by walking the package, so a newly introduced shared default is picked up automatically.
    """
    global _MUTABLE_DEFAULTS
    if _MUTABLE_DEFAULTS is not None:
        return _MUTABLE_DEFAULTS
    import inspect
    import pkgutil
    import importlib
    import autoarray

    found = {}
    seen_fn = set()

    def scan(fn, owner):
        f = getattr(fn, "__func__", fn)
        f = inspect.unwrap(f) if callable(f) else f
        if not inspect.isfunction(f) or id(f) in seen_fn:
            return
        seen_fn.add(id(f))
        vals = list(f.__defaults__ or ()) + list((f.__kwdefaults__ or {}).values())
        for i, val in enumerate(vals):
            if val is None or isinstance(val, (type, np.ndarray)) or callable(val):
                continue
            if hasattr(val, "__dict__") and (type(val).__module__ or "").startswith(("autoarray", "autoconf")):
                found["default[%s.%s#%d:%s]" % (owner, f.__name__, i, type(val).__name__)] = val

    for mi in pkgutil.walk_packages(autoarray.__path__, "autoarray."):
        if ".plot" in mi.name or "jax" in mi.name or ".mock" in mi.name:
            continue
        try:
            mod = importlib.import_module(mi.name)
        except Exception:
            continue
        for name, obj in list(vars(mod).items()):
            if inspect.isfunction(obj) and obj.__module__ == mod.__name__:
                scan(obj, mod.__name__.split(".")[-1])
            elif inspect.isclass(obj) and obj.__module__ == mod.__name__:
                for n2, o2 in list(vars(obj).items()):
                    if isinstance(o2, (staticmethod, classmethod)):
                        o2 = o2.__func__
                    if isinstance(o2, property):
                        continue
                    if inspect.isfunction(o2):
                        scan(o2, obj.__name__)
    _MUTABLE_DEFAULTS = dict(sorted(found.items()))
    return _MUTABLE_DEFAULTS



class GDefaults(GraphBase):
    name = "defaults"

    def __init__(self, seed=0):
        super().__init__()
        import autoarray as aa

        self.aa, self.seed = aa, seed
        # module-level default objects are process-global: the harness owns them and restores them for every fresh graph
        self._snap = {k: _copy.deepcopy(v.__dict__) for k, v in self._defaults().items()}
        E = self.ev
        E("imaging inversion (settings omitted) -> formalism", lambda c: type(aa.Inversion(dataset=c["ds"], linear_obj_list=self._objs(c))).__name__)
        E("imaging inversion (settings omitted) -> curvature_matrix",
          lambda c: _arr(aa.Inversion(dataset=c["ds"], linear_obj_list=self._objs(c)).curvature_matrix))
        E("imaging inversion (own settings) -> formalism",
          lambda c: type(aa.Inversion(dataset=c["ds"], linear_obj_list=self._objs(c), settings=c["own_settings"])).__name__)
        E("interferometer inversion (settings omitted) -> data_vector",
          lambda c: _arr(aa.Inversion(dataset=c["ids"], linear_obj_list=self._iobjs(c)).data_vector))
        E("interferometer inversion (own settings) -> data_vector",
          lambda c: _arr(aa.Inversion(dataset=c["ids"], linear_obj_list=self._iobjs(c), settings=c["own_settings"]).data_vector))
        E("read own_settings.use_w_tilde", lambda c: bool(c["own_settings"].use_w_tilde))
        OSG = lambda ds: [ds.over_sampling.uniform and ds.over_sampling.uniform.sub_size, ds.over_sampling.pixelization and ds.over_sampling.pixelization.sub_size,  # noqa: E731
                          _arr(ds.grids.pixelization.over_sampler.over_sampled_grid) if ds.over_sampling.pixelization is not None else None]
        E("dsA.apply_over_sampling(caller's arg) -> schemes", lambda c: OSG(c["dsA"].apply_over_sampling(over_sampling=c["os_arg"])))
        E("dsB.apply_over_sampling(caller's arg) -> schemes", lambda c: OSG(c["dsB"].apply_over_sampling(over_sampling=c["os_arg"])))
        E("dsA.apply_over_sampling() -> schemes", lambda c: OSG(c["dsA"].apply_over_sampling()))
        E("dsB.apply_over_sampling() -> schemes", lambda c: OSG(c["dsB"].apply_over_sampling()))
        E("read caller's over-sampling arg", lambda c: [c["os_arg"].uniform and c["os_arg"].uniform.sub_size, c["os_arg"].pixelization and c["os_arg"].pixelization.sub_size])
        E("Imaging(over_sampling omitted).grids.pixelization", lambda c: _arr(self._imaging(c).grids.pixelization))
        E("Imaging(over_sampling omitted).apply_over_sampling(sub 2) then new Imaging().grids.pixelization",
          lambda c: (self._imaging(c).apply_over_sampling(over_sampling=aa.OverSamplingDataset(pixelization=aa.OverSamplingUniform(sub_size=2))),
                     _arr(self._imaging(c).grids.pixelization.over_sampler.over_sampled_grid))[1])

    def _imaging(self, c):
        aa = self.aa
        fx = c["fx"]
        return aa.Imaging(data=fx["ds"].data, noise_map=fx["ds"].noise_map, psf=fx["ds"].psf)

    def _objs(self, c):
        return [fix_inv.make_obj(c["fx"], "rectA", reg=True, seed=self.seed)]

    def _iobjs(self, c):
        return [fix_inv.make_obj(c["fx"], "rectA", reg=True, seed=self.seed)]

    def build(self):
        aa = self.aa
        for k, v in self._defaults().items():
            v.__dict__.clear()
            v.__dict__.update(_copy.deepcopy(self._snap[k]))
        fx = fix_inv.make_dataset([5, 5], [3, 3], 0b111111111, psf_kind="nonneg", seed=self.seed, sub=1)
        c = {"fx": fx, "ds": fx["ds"]}
        uv = np.array([[10.0, -20.0], [35.0, 5.0], [-15.0, 40.0]]) * 1e3
        tr = aa.TransformerDFT(uv_wavelengths=uv, real_space_mask=fx["mask"])
        vis = aa.Visibilities(visibilities=np.array([1.0 + 2.0j, -0.5 + 0.3j, 0.2 - 1.1j]))
        nm = aa.VisibilitiesNoiseMap(visibilities=np.array([1.0 + 1.0j, 0.5 + 0.7j, 0.8 + 0.6j]))
        c["ids"] = aa.DatasetInterface(data=vis, noise_map=nm, transformer=tr)
        c["own_settings"] = aa.SettingsInversion(use_w_tilde=True, use_positive_only_solver=False, no_regularization_add_to_curvature_diag_value=1e-3)
        mk = lambda u, p: aa.Imaging(data=fx["ds"].data, noise_map=fx["ds"].noise_map, psf=fx["ds"].psf,  # noqa: E731
                                     over_sampling=aa.OverSamplingDataset(uniform=aa.OverSamplingUniform(sub_size=u), pixelization=aa.OverSamplingUniform(sub_size=p)))
        c["dsA"] = mk(2, 2)
        c["dsB"] = mk(6, 8)
        c["os_arg"] = aa.OverSamplingDataset(uniform=aa.OverSamplingUniform(sub_size=4))  # pixelization / non_uniform left None
        return c

    def _defaults(self):
        return mutable_defaults()

    def roots(self, c):
        r = {"ds": c["ds"], "own_settings": c["own_settings"], "dsA": c["dsA"], "dsB": c["dsB"]}
        r.update(self._defaults())
        return r

    def inputs(self, c):
        d = {"own_settings": c["own_settings"], "caller's over-sampling arg": c["os_arg"]}
        d.update(self._defaults())
        return d


# ======================================================================================== registry / exploration


def graph_keys(tier, seed):
    keys = [("struct", seed, 0), ("rng", seed), ("defaults", seed), ("data", seed, 0)]
    for variant in ("rect", "rect+func", "rect+rect", "del+funcS"):
        for wt in (False, True):
            keys.append(("inv", variant, wt, seed, False))
    keys.append(("inv", "rect", False, seed, True))
    keys += [("fit", False, seed, True), ("fit", True, seed, True), ("fit", False, seed, False)]
    keys += [("interf", False, seed, "rect+funcS"), ("interf", True, seed, "rect")]
    if tier == "thorough":
        keys += [("struct", seed, 1), ("data", seed, 1)]
    return keys


def depth_for(key, tier):
    kind = key[0]
    if tier == "quick":
        return {"struct": 4, "rng": 3, "defaults": 3, "data": 3, "inv": 2, "fit": 4, "interf": 2}[kind]
    return {"struct": 6, "rng": 4, "defaults": 4, "data": 4, "inv": 3, "fit": 6, "interf": 3}[kind]


_G = {}


def graph_for(key):
    key = tuple(key)
    if key not in _G:
        kind = key[0]
        if kind == "struct":
            _G[key] = GStruct(seed=key[1], variant=key[2])
        elif kind == "rng":
            _G[key] = GRng(seed=key[1])
        elif kind == "data":
            _G[key] = GData(seed=key[1], variant=key[2])
        elif kind == "defaults":
            _G[key] = GDefaults(seed=key[1])
        elif kind == "interf":
            _G[key] = GInterf(preload=key[1], seed=key[2], variant=key[3])
        elif kind == "fit":
            _G[key] = GFit(wt=key[1], seed=key[2], with_inversion=key[3])
        elif kind == "inv":
            _G[key] = GInv(variant=key[1], wt=key[2], seed=key[3], positive=key[4])
        else:
            raise KeyError(key)
    return _G[key]


# queries of the valued mapper that all go through MapperValued.values_masked: one call site, one finding class
_VALUES_MASKED_CALLERS = ("read MapperValued.values_masked", "read MapperValued.mapped_reconstructed_image_from()",
                          "read MapperValued.max_pixel_centre", "read MapperValued.max_pixel_list_from(2)")


def canonical_finding(finding):
    if finding.startswith("mutates:MapperValued.values<-") and finding.split("<-", 1)[1] in _VALUES_MASKED_CALLERS:
        return "mutates:MapperValued.values<-MapperValued.values_masked"
    return finding


def explore(tier, seed, report, pool):
    modname = __name__
    total_states = 0
    per_graph = {}
    for key in graph_keys(tier, seed):
        g = graph_for(key)
        st = histex.bfs(g, depth_for(key, tier), mapper=pool.imap, task_args=lambda h, key=key: (modname, list(key), list(h)))
        total_states += st["states"]
        report.cases += st["replays"]
        report.checks += st["transitions"] * 2  # value comparison + input fingerprints on every transition
        report.nontrivial += st["transitions"] - len(g.events)
        for k, n in st["outcomes"].items():
            tag = "%s:%s" % (key[0], k)
            report.outcomes[tag] = report.outcomes.get(tag, 0) + n
        per_graph[g.name if key[0] != "struct" and key[0] != "data" else "%s#%d" % (g.name, key[2])] = {
            "events": len(g.events), "depth": depth_for(key, tier), "states": st["states"], "transitions": st["transitions"],
            "per_depth": st["per_depth"], "unexpanded_frontier": st["frontier_left"]}
        for smp in st["samples"][-2:]:
            if len(report.samples) < 12:
                report.samples.append(dict(graph=list(key), **smp))
        for hist, ev, finding, msg in st["violations"]:
            f = "%s:%s" % (ID, canonical_finding(finding))
            case = {"graph": list(key), "history": hist, "event": ev}
            if f not in report.viol:
                report.viol[f] = [case, msg, 0]
            report.viol[f][2] += 1
    report.states = total_states
    report.extra["graphs"] = per_graph
    report.extra["note"] = "states/transitions are summed over graphs; a history is extended only when it reaches a new canonical state"


def replay_case(case):
    g = graph_for(tuple(case["graph"]))
    viol = histex.replay(g, case["history"], case["event"])
    return {"checks": 1, "nontrivial": True, "outcome": "replay",
            "violations": [{"finding": "%s:%s" % (ID, canonical_finding(v["finding"])), "msg": v["msg"]} for v in viol]}
